# C10 -- == is a structural equivalence; === is identity; comparing never mutates
from . import common
from families import equality

def run(tier, seed):
    c = common.Check('C10', tier, seed, 'symbolic execution of main (MIR): operand pair chosen by two symbolic selectors over a pool of heap graphs with symbolic leaves, decided by z3; lock-step reference (structural equivalence, identity); native replay')
    c.functions |= {'main', 'apply_binary_operation (Eq, Ne, RefEq, RefNe)', 'eq', 'ref_eq', 'value::ref_eq', 'error::render_type', 'Mutex::try_lock / MutexGuard drop (model)', 'builtins::fns::render'}
    ts = equality.templates(tier, seed)
    c.bounds = {'pool': 'lists: 12 (quick) / 17 (thorough) graphs, objects: 10 / 14 graphs; <= 3 container cells, depth <= 3, shared children, container-in-comparand, insertion-order variants; all ordered pairs',
                'leaves': 'symbolic i64 / bool; strings concrete'}
    c.outside = ['graphs with more than 3 container cells', 'two distinct cyclic values compared (non-terminating by definition)']
    c.run_family('equality', ts, ('exit', 'stdout', 'stderr-empty', 'message', 'panic', 'hang'), equality.role, par_templates=4, par_paths=4)
    from families import seq
    bs = [t for t in seq.templates(tier, seed) if t['name'].startswith(('mb-index-eq', 'mb-byte-pieces'))]
    c.run_family('byte-strings', bs, ('exit', 'stdout', 'stderr-empty', 'panic', 'hang'), seq.role)       # equal byte sequences are ==, different ones are not (also pieces that are not UTF-8 text)
    c.run_random(('exit', 'stdout', 'stderr-empty', 'panic', 'hang'))
    return c.finish()
