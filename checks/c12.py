# C12 -- objects behave as string-keyed maps with deterministic key order
from . import common
from families import objects

def run(tier, seed):
    c = common.Check('C12', tier, seed, 'symbolic execution of main (MIR): operation and key of every history step chosen by symbolic selectors, values symbolic, HashSet iteration order demonic, decided by z3; lock-step reference map semantics; native replay')
    c.functions |= {'main', 'eval_expr (Object, Index, Prop)', 'bind_next (Index, Prop)', 'binary_operation_assign', 'eval_expr_to_str', 'value_to_pairs', 'builtins::fns::render', 'eq', 'BTreeMap model'}
    ts = objects.templates(tier, seed)
    c.bounds = {'history_length': '<= 2 steps (quick) / 3 (thorough)', 'keys': 'a, b, A, "", " x", _', 'operations': '7 per step through `.k` and `["k"]`', 'insertion_orders': 'all 6 orders of 3 keys'}
    c.outside = ['longer histories', 'keys outside the alphabet']
    c.run_family('objects', ts, ('exit', 'stdout', 'stderr-empty', 'panic', 'hang'), objects.role, par_templates=4, par_paths=4)
    c.run_random(('exit', 'stdout', 'stderr-empty', 'panic', 'hang'))
    return c.finish()
