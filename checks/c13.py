# C13 -- destructuring, spread and collect are inverse, lossless rearrangements
from . import common
from families import destructure

def run(tier, seed):
    c = common.Check('C13', tier, seed, 'symbolic execution of main (MIR): source value chosen by a symbolic selector per pattern, elements symbolic, decided by z3; lock-step reference; inverse laws stated in Seed; native replay')
    c.functions |= {'main', 'bind::bind', 'bind_next', 'bind_list', 'bind_object', 'bind_object_prop', 'bind_next_name', 'eval_list_items', 'eval_call', 'validate_args', 'eval_expr (List, Object)',
                    'HashSet / BTreeMap models', 'apply_binary_operation (Sum, Eq, RefEq)'}
    ts = destructure.templates(tier, seed)
    c.bounds = {'patterns': '18 list patterns (depth <= 2, width <= 4), 17 object patterns', 'sources': 'lists of length 0..4 (quick) / 0..5 with symbolic elements; 14 nested / ill-typed shapes; 11 object sources',
                'positions': 'declaration, assignment, for target, parameter', 'templates': len(ts)}
    c.outside = ['patterns deeper than 2 or wider than 4']
    c.run_family('destructure', ts, ('exit', 'stdout', 'stderr-empty', 'panic', 'hang'), destructure.role)
    c.run_random(('exit', 'stdout', 'stderr-empty', 'panic', 'hang'))
    return c.finish()
