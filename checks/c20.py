# C20 -- names must be declared once per scope before use; `_` never binds
from . import common
from families import scopes

def run(tier, seed):
    c = common.Check('C20', tier, seed, 'symbolic execution of main (MIR) on generated declare/redeclare/assign/read/destructure programs with symbolic values and conditions, decided by z3; lock-step reference incl. error position and cited earlier position; native replay')
    c.functions |= {'main', 'ScopeStack::declare', 'ScopeStack::get', 'ScopeStack::assign', 'bind_next', 'bind_next_name', 'bind_name', 'bind_list', 'bind_object', 'validate_args', 'eval_stmt (Declare, Assign, OpAssign, Func, For)',
                    'eval_expr (Var)', 'eval_err_to_stacktrace'}
    ts = scopes.templates(tier, seed)
    c.bounds = {'programs': '%d templates (see C04)' % len(ts), 'non_bindable': '12 target kinds x 10 binding positions (exhaustive)'}
    c.outside = ['programs outside the generated sample']
    c.run_family('scopes', ts, ('exit', 'stdout', 'stderr-empty', 'position', 'message', 'panic', 'hang'), scopes.role)
    c.run_random(('exit', 'stdout', 'stderr-empty', 'panic', 'hang'))
    return c.finish()
