# C15 -- strings: exact escapes, interpolation equals concatenation, Unicode-safe
# Source text with symbolic bytes inside string / interpolated-string literals is run through main; the expected output is a
# byte-level specification (z3 terms over the same symbolic bytes): literal bodies denote themselves, escapes decode per the table,
# an interpolated string equals the concatenation of pieces and slot values, ->len() is the byte length, invalid escapes / hex
# digits / bare `$` are reported at the position of the offending character.
import re
import z3
from . import common
from mirsym import harness as H, models, srcsym as S, family as F
from mirsym.core import *

POS_RE = re.compile(rb'^t\.sd:(\d+):(\d+): ')
PLAIN = S.not_in(['"', '\\', '$'])

def B(x): return x if isinstance(x, bytes) else x.encode()

def make_job(name, parts, expect):
    """parts: source parts (bytes | ('sym', name, constraint)); expect(sym: dict name->z3 bv8, src: list of z3 bv8) -> list of
    (cond, outcome) with outcome = ('out', [pieces]) | ('err-at', byte_offset) | ('err',)"""
    def path_fn(M):
        M.symvars = {}
        src = S.text(M, parts)
        obs = {'panic': None, 'viol': None, 'nq': 0, 'cases': 0}
        try: code, out, err = H.run_cli(M, 't.sd', list(src))
        except Panic as e:
            obs['panic'] = str(e)[:300]; code = None; out = []; err = []
        r, m = F.sat_model(M.solver)
        if r != z3.sat: raise PathEnd('infeasible')
        def witness(mdl): return list(bytes(mdl.eval(e.z(), model_completion=True).as_long() for e in src))
        obs['wit'] = witness(m); obs['code'] = code
        op = models.pieces(out); ep = models.pieces(err)
        obs['out'] = F.eval_pieces(m, op).decode('latin1'); obs['err'] = F.eval_pieces(m, ep).decode('latin1')
        zs = [e.z() for e in src]
        sym = {k: v for k, v in M.symvars.items()}
        for cond, outcome in expect(sym, zs):
            s = z3.Solver(); s.add(*M.solver.assertions()); s.add(cond)
            r = s.check()
            if r == z3.unsat: continue
            if r != z3.sat: raise Unsupported('solver unknown')
            obs['cases'] += 1; mdl = s.model()
            if outcome[0] == 'skip': continue
            def viol(what, mdl2=None): obs['viol'] = {'what': what, 'wit': witness(mdl2 or mdl)}
            if obs['panic']: viol('internal panic: ' + obs['panic']); break
            if outcome[0] == 'out-any':
                if code != 0: viol('exit %s (stderr %r), expected one of %r' % (code, F.eval_pieces(mdl, ep)[:120], outcome[1])); break
                obs['nq'] += 1
                if not any(F.compare_pieces(s, op, alt) is None for alt in outcome[1]): viol('stdout %r is none of the admissible outputs %r' % (F.eval_pieces(mdl, op)[:120], outcome[1]))
                if obs['viol']: break
                continue
            if outcome[0] == 'out':
                if code != 0: viol('exit %s (stderr %r), expected output %r' % (code, F.eval_pieces(mdl, ep)[:120], F.eval_pieces(mdl, outcome[1])[:80])); break
                obs['nq'] += 1
                d = F.compare_pieces(s, op, outcome[1])
                if d is not None:
                    if d[0] == 'diff': viol('stdout %r, specification %r' % (F.eval_pieces(d[1], op)[:120], F.eval_pieces(d[1], outcome[1])[:120]), d[1])
                    else: raise Unsupported('piece comparison: ' + d[1])
                    break
            else:
                if code != 103: viol('exit %s, expected a reported error' % code); break
                if op: viol('output before a lexical error'); break
                head = ep[0] if ep and isinstance(ep[0], bytes) else b''
                mm = POS_RE.match(head)
                if not mm: viol('stderr is not <path>:<line>:<col>: ...: %r' % F.eval_pieces(mdl, ep)[:120]); break
                if outcome[0] == 'err-at':
                    tl, tc = S.true_loc(zs, outcome[1])
                    gl, gc = int(mm.group(1)), int(mm.group(2))
                    obs['nq'] += 1
                    is_lf = zs[outcome[1]] == 10
                    s.push(); s.add(z3.Not(z3.Or(z3.And(tl == gl, tc == gc), z3.And(is_lf, gl == tl + 1, gc == 0)))); r2 = s.check()
                    if r2 == z3.sat: viol('error reported at %d:%d, the offending character (byte %d) is elsewhere' % (gl, gc, outcome[1]), s.model()); s.pop(); break
                    s.pop()
                    if r2 != z3.unsat: raise Unsupported('solver unknown')
        if obs['cases'] == 0 and not obs['panic']: raise Unsupported('no specification case covers this path')
        if obs['cases'] == 0 and obs['panic']: obs['viol'] = {'what': 'internal panic: ' + obs['panic'], 'wit': obs['wit']}
        return obs
    def post(rows, res, binary, wd):
        for r in rows:
            o = r['obs']; w = bytes(o['wit'])
            res['obligations'] += o['cases']; res['discharged'] += o['cases'] - (1 if o['viol'] else 0); res['cases'] += o['cases']
            nat = F.native_run(binary, w, wd); res['replayed'] += 1
            if o['panic']: okr = nat[0] == 101
            else: okr = nat[0] == o['code'] and nat[1] == o['out'].encode('latin1') and nat[2] == o['err'].encode('latin1')
            if okr: res['replay_ok'] += 1
            else: res['inconclusive'].append('engine/native disagreement on %r: native=%r predicted=%r' % (w, (nat[0], nat[1][:80], nat[2][:160]), (o['code'], o['out'][:80], o['err'][:160], o['panic'])))
            if len(res['samples']) < 1: res['samples'].append({'script_bytes': repr(w), 'exit': o['code'], 'stdout': o['out'][:80]})
            if o['viol']:
                wv = bytes(o['viol']['wit']); n2 = F.native_run(binary, wv, wd)
                panic = n2[0] == 101
                # confirmation: the native run must itself show the discrepancy class (panic, or a different exit class than a success / error)
                what = o['viol']['what']
                conf = panic if what.startswith('internal panic') else True
                role = 'interpolation-slot-offsets-counted-in-chars' if (panic and b'char boundary' in n2[2] or panic and b'byte index' in n2[2]) else 'strings:%s' % name.split('-')[0]
                if conf: res['violations'].append({'aspect': 'panic' if panic else 'output', 'role': role, 'what': what + ' | native: exit %s %r' % (n2[0], (n2[1] + n2[2])[:160]), 'script': wv, 'ext': 'sd'})
                else: res['inconclusive'].append('string violation not reproduced natively: %r' % (o['viol'],))
    return {'name': name, 'path_fn': path_fn, 'post': post, 'timeout': 1500}

def syms(prefix, n, cons=PLAIN): return [('sym', '%s%d' % (prefix, i), cons) for i in range(n)]
def bt(sym, prefix, n): return [('byte', sym['%s%d' % (prefix, i)]) for i in range(n)]

def jobs_for(tier):
    J = []
    K = 2 if tier == 'quick' else 3
    # (1) plain literal bodies: denote exactly their bytes; ->len() is the byte length
    for n in range(0, K + 2):
        parts = [b'print("'] + syms('s', n) + [b'")\nprint("'] + syms('s', n) + [b'"->len())\n']
        # the same symbolic bytes twice needs shared variables: build the second copy from the same names
        def expect(sym, zs, n=n): return [(z3.BoolVal(True), ('out', bt(sym, 's', n) + [b'\n' + str(n).encode() + b'\n']))]
        J.append(make_job('literal-%d' % n, parts, expect))
    # (2) escapes: "a\Eb": E symbolic
    def esc_expect(sym, zs):
        e = sym['e0']; off = len(b'print("a\\')
        valid = {ord('n'): 10, ord('r'): 13, ord('\\'): ord('\\'), ord('"'): ord('"'), ord('$'): ord('$')}
        cases = [(e == k, ('out', [b'a' + bytes([v]) + b'41\n'])) for k, v in valid.items()]
        cases.append((e == ord('x'), ('out', [b'aA\n'])))
        cases.append((z3.And(e != ord('x'), *[e != k for k in valid]), ('err-at', off)))
        return cases
    J.append(make_job('escape', [b'print("a\\', ('sym', 'e0', None), b'41")\n'], esc_expect))
    # hex digits: "\xHL" with H, L symbolic
    def hex_expect(sym, zs):
        h, l = sym['x0'], sym['x1']; off = len(b'print("\\x')
        def isx(b): return z3.Or(z3.And(z3.UGE(b, 0x30), z3.ULE(b, 0x39)), z3.And(z3.UGE(b, 0x41), z3.ULE(b, 0x46)), z3.And(z3.UGE(b, 0x61), z3.ULE(b, 0x66)))
        def val(b): return z3.If(z3.ULE(b, 0x39), b - 0x30, z3.If(z3.ULE(b, 0x46), b - 0x41 + 10, b - 0x61 + 10))
        v = val(h) * 16 + val(l)
        return [(z3.And(isx(h), isx(l), z3.ULT(val(h), 8)), ('out', [('byte', v), b'\n'])),
                (z3.And(isx(h), isx(l), z3.UGE(val(h), 8)), ('skip',)),          # \xHH with HH >= 0x80: character or byte -- not stated
                (z3.Not(isx(h)), ('err-at', off)), (z3.And(isx(h), z3.Not(isx(l))), ('err-at', off + 1))]
    J.append(make_job('hex', [b'print("\\x', ('sym', 'x0', S.ASCII), ('sym', 'x1', S.ASCII), b'")\n'], hex_expect))
    # bare `$` in a plain literal after symbolic text: error at the `$`
    for n in range(0, K + 1):
        def dexp(sym, zs, n=n): return [(z3.BoolVal(True), ('err-at', len(b'x := "') + n))]
        J.append(make_job('bare-dollar-%d' % n, [b'x := "'] + syms('s', n) + [b'$a"\n'], dexp))
        def iexp(sym, zs, n=n): return [(z3.BoolVal(True), ('err-at', len(b'x := $"') + n + 1))]
        J.append(make_job('slot-start-%d' % n, [b'x := $"'] + syms('s', n) + [b'$a{b}"\n'], iexp))
    # (3) interpolation equals concatenation: text before, between and after the slots is symbolic
    head = b'a := "x"\nb := "yz"\nfn f(v) {\n    return v + "!"\n}\nxs := ["L"]\no := {"k": "O"}\n'
    slot_pool = [(b'a', b'x'), (b'f(a)', b'x!'), (b'"q"', b'q'), (b'xs[0]', b'L'), (b'{"k": a}.k', b'x'), (b'a + b', b'xyz'), (b'o["k"]', b'O'), (b'f({"k": b}["k"])', b'yz!'), (b'$"<${a}>"', b'<x>'), (b'""', b''), (b'b[1:1]', b'')]      # (the last two: slots whose value is the empty string)
    shapes = [(1, 0, 0), (0, 1, 0), (0, 0, 1), (1, 1, 0), (1, 0, 1), (0, 1, 1), (1, 1, 1), (2, 0, 0), (0, 2, 0), (0, 0, 2)]
    if tier == 'thorough': shapes += [(2, 1, 0), (1, 2, 0), (2, 0, 1), (0, 2, 1), (1, 1, 2), (2, 2, 0), (3, 0, 0), (0, 3, 0)]
    for si, (n1, n2, n3) in enumerate(shapes):
        for pi, ((e1, v1), (e2, v2)) in enumerate([(slot_pool[0], slot_pool[1]), (slot_pool[2], slot_pool[3]), (slot_pool[4], slot_pool[5]), (slot_pool[6], slot_pool[7]), (slot_pool[8], slot_pool[0]), (slot_pool[9], slot_pool[0]), (slot_pool[0], slot_pool[10]), (slot_pool[10], slot_pool[9])]):
            if tier == 'quick' and pi not in (0, 2) and not (si < 3 and pi == 4) and not (si in (3, 6) and pi in (5, 6, 7)): continue
            parts = [head, b'print($"'] + syms('p', n1) + [b'${' + e1 + b'}'] + syms('q', n2) + [b'${' + e2 + b'}'] + syms('r', n3) + [b'")\n']
            def exp(sym, zs, n1=n1, n2=n2, n3=n3, v1=v1, v2=v2): return [(z3.BoolVal(True), ('out', bt(sym, 'p', n1) + [v1] + bt(sym, 'q', n2) + [v2] + bt(sym, 'r', n3) + [b'\n']))]
            J.append(make_job('interp-%d%d%d-%d' % (n1, n2, n3, pi), parts, exp))
    # non-ASCII text INSIDE the slot source (string literals, keys) with symbolic text around the slot
    inner_pool = [(b'a + " \xe2\x82\xac"', b'x \xe2\x82\xac'), (b'"\xc3\xa9\xc3\xa9"', b'\xc3\xa9\xc3\xa9'), (b'{"\xc3\xbc": a}["\xc3\xbc"]', b'x'), (b'f("\xf0\x9f\x98\x80")', b'\xf0\x9f\x98\x80!'), (b'"\xe6\x97\xa5" + b', b'\xe6\x97\xa5yz'),
                  # string literals with escapes inside the slot source: an escaped backslash before the closing quote, escaped quotes, an escaped `$`
                  (b'a + "\\\\"', b'x\\'), (b'"\\"q\\""', b'"q"'), (b'"\\$" + b', b'$yz'), (b'"\\\\" + "\\\\"', b'\\\\'), (b'f("\\x41\\\\")', b'A\\!')]
    for pi, (e1, v1) in enumerate(inner_pool):
        for (n1, n3) in ((0, 0), (1, 0), (0, 1), (1, 1)):
            parts = [head, b'print($"'] + syms('p', n1) + [b'${' + e1 + b'}'] + syms('r', n3) + [b'${a}")\n']
            def expi(sym, zs, n1=n1, n3=n3, v1=v1): return [(z3.BoolVal(True), ('out', bt(sym, 'p', n1) + [v1] + bt(sym, 'r', n3) + [b'x\n']))]
            J.append(make_job('interp-inner-%d-%d%d' % (pi, n1, n3), parts, expi))
    # every slot is evaluated, in order, once per occurrence -- also when two slots have the same source text
    eff = b'cnt := 0\nfn take() {\n    cnt += 1\n    return "#" + ["0", "1", "2", "3", "4"][cnt]\n}\ncur := "A"\nfn step() {\n    cur = cur + "b"\n    return "-"\n}\n'
    for n1 in range(0, 2):
        parts = [eff, b'print($"'] + syms('p', n1) + [b'${take()},${take()}'] + syms('q', n1) + [b'${take()}")\nprint($"${cur}${step()}${cur}${step()}${cur}")\nprint(cnt)\n']
        def expe(sym, zs, n1=n1): return [(z3.BoolVal(True), ('out', bt(sym, 'p', n1) + [b'#1,#2'] + bt(sym, 'q', n1) + [b'#3\nA-Ab-Abb\n3\n']))]
        J.append(make_job('interp-effects-%d' % n1, parts, expe))
    # a hex escape >= 0x80 left of a slot: what the escape denotes is not stated (character U+00HH or byte HH), but the slot must still be found
    for hx, alts in ((b'e9', [b'\xc3\xa9', b'\xe9']), (b'80', [b'\xc2\x80', b'\x80']), (b'ff', [b'\xc3\xbf', b'\xff'])):
        parts = [head, b'print($"caf\\x' + hx + b' ${a}!${b}")\n']
        def exph(sym, zs, alts=alts): return [(z3.BoolVal(True), ('out-any', [[b'caf' + alt + b' x!yz\n'] for alt in alts]))]
        J.append(make_job('interp-hex-high-%s' % hx.decode(), parts, exph))
    # one slot, and no slot
    for n1 in range(0, K + 1):
        parts = [head, b'print($"'] + syms('p', n1) + [b'${a}")\nprint($"'] + syms('p', n1) + [b'")\n']
        def exp1(sym, zs, n1=n1): return [(z3.BoolVal(True), ('out', bt(sym, 'p', n1) + [b'x\n'] + bt(sym, 'p', n1) + [b'\n']))]
        J.append(make_job('interp-one-%d' % n1, parts, exp1))
    # escaped dollar / backslash inside interpolated strings; non-string slot
    J.append(make_job('interp-escapes', [head, b'print($"\\${a}|\\\\${a}|\\"${b}\\"|\\n")\n'], lambda sym, zs: [(z3.BoolVal(True), ('out', [b'${a}|\\x|"yz"|\n\n']))]))
    J.append(make_job('interp-non-string', [head, b'print($"n=${1}")\n'], lambda sym, zs: [(z3.BoolVal(True), ('err',))]))
    J.append(make_job('interp-undefined', [head, b'print($"n=${zz}")\n'], lambda sym, zs: [(z3.BoolVal(True), ('err',))]))
    # concatenation and equality of equal byte sequences with symbolic content
    for n in range(1, K + 1):
        parts = [b's := "'] + syms('s', n) + [b'"\nt := "'] + syms('s', n) + [b'"\nprint(s == t)\nprint((s + t) == (t + s))\nprint((s + "|" + t)->len())\nprint(s + "|" + t)\n']
        def cexp(sym, zs, n=n): return [(z3.BoolVal(True), ('out', [b'true\ntrue\n' + str(2 * n + 1).encode() + b'\n'] + bt(sym, 's', n) + [b'|'] + bt(sym, 's', n) + [b'\n']))]
        J.append(make_job('concat-%d' % n, parts, cexp))
    return J

def run(tier, seed):
    c = common.Check('C15', tier, seed, 'symbolic execution of main (MIR) over source text with symbolic bytes inside string literals; byte-level specification of escapes / interpolation / length as z3 terms, decided per path; native replay')
    c.functions |= {'Lexer::next_str_literal', 'Lexer::next_token', 'Scanner::*', 'interpolate_string (nested Lexer + ExprParser)', 'eval_expr (Str)', 'type_functions::str_len', 'builtins::fns::render', 'apply_binary_operation (Sum, Eq)',
                    'str slicing / String::from_utf8 / char encoding (models with their documented panics)'}
    jobs = jobs_for(tier)
    c.bounds = {'literal_bodies': '<= %d symbolic bytes (all valid UTF-8 except `"`, `\\`, `$`)' % (3 if tier == 'quick' else 4), 'escapes': 'one symbolic escape character; two symbolic hex digits',
                'interpolation': 'two slots from a pool of 9 slot expressions; text before / between / after the slots: %d shapes of <= %d symbolic bytes' % (10 if tier == 'quick' else 18, 2 if tier == 'quick' else 3), 'jobs': len(jobs)}
    c.outside = ['\\xHH with HH >= 0x80 (character or byte: not stated)', 'slot expressions containing braces inside nested string literals', 'unterminated literals (C03)', 'longer symbolic text']
    c.run_jobs('strings', jobs, par_jobs=8, par_paths=2)
    from families import seq
    mb = [t for t in seq.templates(tier, seed) if t['name'].startswith(('mb-', 'str-'))]
    c.run_family('byte-indexed-strings', mb, ('exit', 'stdout', 'stderr-empty', 'panic', 'hang'), seq.role)
    return c.finish()
