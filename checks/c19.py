# C19 -- runs are deterministic and printing is a canonical function of the value
#  (a) hash seeds: HashMap / HashSet iteration order is a demonic choice in the symbolic run (the run forks over the orders), so every
#      path of every family is an obligation "the observations do not depend on the order"; dedicated families iterate 3-4 keys;
#  (b) environment: the crate's MIR calls no std::env / fs / io / time / process / thread / net / random function outside the modelled
#      set, the working directory never reaches an output, the script path only prefixes diagnostics (two spellings, symbolic run);
#  (c) rendering: equal structures built along different histories print identically, in the stated format.
import re, os, subprocess, shutil
import z3
from . import common
from families import render
from mirsym import harness as H, models, family as F, template as T, explore as X
from mirsym.core import *

ALLOWED_ENV = {'std::env::args', 'args', 'std::env::current_dir', 'current_dir', 'std::fs::read_to_string', 'std::io::_print', 'std::io::_eprint', 'std::process::exit', 'exit', 'process::exit'}
ENV_RE = re.compile(r'\b(?:std|core)::(?:env|fs|io|time|process|thread|net|os|random|hash::random)::[A-Za-z_:<>]+|\b(?:RandomState|SystemTime|Instant)::\w+')

def env_closure(mir_path):
    """every call in the crate's MIR into an environment-dependent std module must be in the modelled set"""
    bad = {}; n = 0
    for line in open(mir_path, errors='replace'):
        if ' = ' not in line and '-> [' not in line: continue
        for m in ENV_RE.finditer(line):
            name = re.sub(r'::<.*', '', m.group(0))
            if '(' not in line[m.end():m.end() + 200] and '::<' not in line[m.end():m.end() + 4]: continue
            n += 1
            base = name
            if base in ALLOWED_ENV or base.startswith(('std::io::Error', 'std::io::error', 'core::fmt', 'std::fmt', 'std::process::exit', 'std::env::Args', 'std::env::args', 'std::env::current_dir', 'std::fs::read_to_string', 'std::io::_print', 'std::io::_eprint', 'std::io::Write', 'std::io::stdout', 'std::io::stderr', 'std::io::Stdout', 'std::io::Stderr')): continue      # (io::Write on the standard streams is modelled, `write` with its short-write contract)
            bad[base] = bad.get(base, 0) + 1
    return n, bad

def json_key(o):
    import json
    return json.dumps(o, sort_keys=True)

def run(tier, seed):
    c = common.Check('C19', tier, seed, 'symbolic execution of main (MIR) with demonic HashMap/HashSet iteration order and stubbed environment; lock-step reference rendering; structural closure of environment calls over the MIR; native replay under varied environment')
    c.functions |= {'main', 'run', 'builtins::fns::print', 'builtins::fns::render', 'bind_object (HashSet of remaining keys)', 'bind_next_name (names_in_binding)', 'validate_args (HashMap)', 'ScopeStack (HashMap)', 'env::args / current_dir / read_to_string / _print / _eprint / exit (stubs)'}
    ts = render.templates(tier, seed)
    c.bounds = {'render': 'one depth-4 structure along 6 construction histories (selector), aliased vs copied children, scalars and empties; leaves symbolic', 'hash_order': 'collect over 3 and 4 remaining keys: all 6 / 24 orders explored (demonic)', 'templates': len(ts)}
    c.outside = ['locale, stdin, pipe-vs-file, repeated process runs: no code path reads them (environment closure below); exercised only by the native replays', 'strings containing newlines inside containers (layout not stated)']
    c.run_family('render', ts, ('exit', 'stdout', 'stderr-empty', 'panic', 'hang'), render.role, par_templates=6, par_paths=3)
    # (a') determinism across hash orders: concrete scripts whose outcome could depend on an iteration order; all explored orders
    #      must give byte-identical stdout / stderr / exit status (decided across paths, independent of the reference's silence)
    DET = {
        'eq-two-deciding-keys': 'print({"a": 1, "b": "x", "c": 3, "d": 4} == {"a": 2, "b": 3, "c": "y", "d": 4})\n',
        'eq-mismatch-everywhere': 'print(0)\nprint({"p": 1, "q": [2], "r": "s", "t": null} == {"p": "1", "q": 2, "r": 3, "t": 0})\n',
        'eq-nested': 'x := {"k": {"a": 1, "b": [1], "c": 2}, "l": 1}\ny := {"k": {"a": "1", "b": 1, "c": 3}, "l": 2}\nprint(x != y)\n',
        'destructure-many-missing': '{a, b, c, d} := {"z": 1}\n',
        'destructure-many-bad': '{"a": [x], "b": [y], "c": [z]} := {"a": 1, "b": 2, "c": 3}\n',
        'dup-names': 'o := {"a": 1, "b": 2, "c": 3, "d": 4}\n{a, "b": a, "c": a, ..a} := o\n',
        'collect-six': 'o := {"f": 6, "e": 5, "d": 4, "c": 3, "b": 2, "a": 1, "g": 7}\n{a, ..rest} := o\nprint(rest)\nfor [k, v] in rest {\n    print(k)\n}\n{..all} := rest\nprint(all == rest)\n',
        'print-for-seven': 'o := {}\nfor [i, k] in ["q", "w", "e", "r", "t", "y", "u"] {\n    o[k] = i\n}\nprint(o)\nfor [k, v] in o {\n    print(k)\n}\nprint({o.., "a": 0} == {"a": 0, o..})\n',
        'params-dup': 'fn f({a, b, c}, [a, b, c]) {\n    return 1\n}\n',
        'function-values': 'fn named() {\n    return 1\n}\nanon := fn () {\n    return 2\n}\nprint(named)\nprint(anon)\nprint(fn (x) {\n    return x\n})\nprint([anon, named, print])\nprint({"f": anon, "t": "s"->len})\nprint(anon)\n',
        'scope-many': 'a := 1\nb := 2\nc := 3\nd := 4\ne := 5\nfn f() {\n    return [a, b, c, d, e]\n}\nprint(f())\nprint(zz)\n',
    }
    for name, src in DET.items():
        def pf(M, src=src):
            del models.ENVDEP[:]
            try: code, out, err = H.run_cli(M, 't.sd', src.encode())
            except Panic as e: return {'panic': str(e)[:200]}
            if models.ENVDEP: return {'code': code, 'envdep': sorted(set(models.ENVDEP)), 'path': M.steps}       # an environment value reached the output: every run may differ
            return {'code': code, 'out': H.conc(out).decode('latin1'), 'err': H.conc(err).decode('latin1')}
        rows, st = X.explore(c.M, pf, par=8, timeout=300, tag='det')
        c.states += len(rows); c.transitions += st['steps']; c.obligations += 1
        if st['timed_out']: c.inconclusive.append('determinism/%s: exploration timed out' % name); continue
        bad = [r for r in rows if r['status'] != 'ok']
        if bad: c.inconclusive.append('determinism/%s: %s %s' % (name, bad[0]['status'], bad[0]['detail'][:200])); continue
        outs_ = {json_key(r['obs']) for r in rows}
        if any('envdep' in r['obs'] for r in rows): outs_ = outs_ | {'(environment-dependent)'}
        if len(outs_) <= 1: c.discharged += 1; continue
        # native confirmation: repeated runs must show at least two different outcomes
        wd2 = os.path.join(common.TMP, 'c19-det-%d' % os.getpid()); seen = set()
        for rep in range(40):
            nat = F.native_run(c.binary, src, wd2); seen.add((nat[0], nat[1], nat[2])); c.replayed += 1
            if len(seen) > 1: break
        shutil.rmtree(wd2, ignore_errors=True)
        if len(seen) > 1:
            c.replay_ok += 1
            c.note_violation('hash-order-dependence' if '(environment-dependent)' not in outs_ else 'environment-dependent-output', 'the outcome of %s depends on hash iteration order or on an environment value: %d different outcomes over the explored orders, e.g. %r; natively %d different outcomes in %d runs' % (name, len(outs_), sorted(outs_)[:2], len(seen), rep + 1), src.encode())
        else:
            c.inconclusive.append('determinism/%s: %d different outcomes over the explored hash orders but 40 native runs agree' % (name, len(outs_)))
    # (b1) environment closure over the MIR
    n, bad = env_closure(c.mir_path)
    c.obligations += 1
    if bad:
        c.inconclusive.append('environment-dependent std calls outside the modelled set (determinism cannot be decided): %r' % bad)
    else: c.discharged += 1
    c.parts.append({'family': 'env-closure', 'std_env_call_sites_seen': n, 'outside_modelled_set': bad})
    # (b2) cwd never reaches an output; the script path only prefixes diagnostics: two spellings through the symbolic run
    scripts = {'ok': 'print([1, {"a": 2}])\n', 'runtime-error': 'fn f() {\n    return 1 + ""\n}\nprint(0)\nf()\n', 'syntax-error': 'x := (1 +\n', 'lex-error': 'x := `\n'}
    outs = {}
    for name, src in scripts.items():
        for path in ('t.sd', './sub/../t.sd', 'a b/ü.sd'):
            def pf(M, path=path, src=src):
                code, out, err = H.run_cli(M, path, src.encode())
                return {'code': code, 'out': H.conc(out).decode('latin1'), 'err': H.conc(err).replace(path.encode() + b':', b'<P>:').decode('latin1'), 'path_elsewhere': path.encode() in H.conc(err).replace(path.encode() + b':', b'') or path.encode() in H.conc(out)}
            rows, st = X.explore(c.M, pf, par=2, timeout=120, tag='c19')
            c.states += len(rows); c.transitions += st['steps']
            for r in rows:
                c.obligations += 1
                if r['status'] != 'ok': c.inconclusive.append('env/%s: %s %s' % (name, r['status'], r['detail'][:200])); continue
                o = r['obs']
                if '<CWD>' in o['out'] or '<CWD>' in o['err']:
                    c.inconclusive.append('env/%s: the working directory reaches an output: %r' % (name, (o['out'], o['err'])[:200])); continue
                norm = (o['code'], o['out'], o['err'])
                if o['path_elsewhere']: c.inconclusive.append('env/%s: the script path occurs outside the diagnostic prefix' % name); continue
                if name in outs and outs[name] != norm:
                    c.note_violation('path-spelling', 'output depends on how the script path is spelled: %r vs %r' % (outs[name], norm), src.encode()); continue
                outs[name] = norm; c.discharged += 1
    # (b3) native replays under varied environment (validation of the stubs; not the deciding step)
    wd = os.path.join(common.TMP, 'c19-env-%d' % os.getpid()); os.makedirs(os.path.join(wd, 'sub'), exist_ok=True)
    try:
        for name, src in scripts.items():
            open(os.path.join(wd, 't.sd'), 'w').write(src)
            base = None
            variants = [({'LANG': 'C', 'HOME': '/', 'RUST_BACKTRACE': '0'}, wd, 't.sd'), ({'LANG': 'tr_TR.UTF-8', 'LC_ALL': 'tr_TR.UTF-8', 'TZ': 'Asia/Tokyo', 'RUST_BACKTRACE': '0', 'X' * 40: 'y' * 400}, wd, 't.sd'),
                        ({'RUST_BACKTRACE': '0'}, os.path.join(wd, 'sub'), '../t.sd'), ({'PATH': '', 'RUST_BACKTRACE': '0'}, '/', wd + '/t.sd')]
            for env, cwd, arg in variants:
                for rep in range(2):
                    p = subprocess.run([c.binary, arg], cwd=cwd, env=env, stdin=subprocess.DEVNULL if rep else None, stdout=subprocess.PIPE, stderr=subprocess.PIPE, timeout=20)
                    norm = (p.returncode, p.stdout, p.stderr.replace(arg.encode() + b':', b'<P>:'))
                    c.replayed += 1
                    if base is None: base = norm
                    if norm == base: c.replay_ok += 1
                    else: c.note_violation('environment-dependence', 'native output differs under %r / cwd %s / arg %s: %r vs %r' % (sorted(env)[:3], cwd, arg, norm, base), src.encode())
    finally:
        shutil.rmtree(wd, ignore_errors=True)
    return c.finish()
