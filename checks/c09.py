# C09 -- newline equals `;`; whitespace, comments and line layout never change meaning
# Metamorphic on the token stream produced by the real Lexer (MIR): two source texts that differ only in layout -- with the layout
# bytes symbolic -- must lex to the same tokens (kinds and payloads; positions ignored), decided per path with z3.
#  (a) line break after every token of the language: continuation tokens (the statement's list) swallow it, all others turn it
#      into a terminator; the layout around the break is symbolic;  (b) symbolic whitespace / comment holes at token gaps of
#      repository scripts; repeated terminators;  (c) digit separators;  (d) \xHH vs the raw ASCII character.
import re, random
import z3
from . import common
from mirsym import harness as H, models, srcsym as S, family as F
from mirsym.core import *

CONT = ['+', '-', '*', '/', '%', '==', '!=', '<', '<=', '>', '>=', '&&', '||', '=', ':=', '+=', '-=', '*=', '/=', '%=', ',', '.', '(', '[', '{']
NONCONT = ['===', '!==', '..', '->', ':', ')', ']', '}', 'x', 'abc_1', '12', '1_0', '"s"', '$"s"', 'true', 'false', 'null', 'break', 'continue', 'return', 'fn', 'if', 'else', 'while', 'for', 'in', '_']
WS = [0x20, 0x09, 0x0D]

def lexer_fns(M):
    from mirsym import core as _core
    try: return _core.find_by_sig(M, *_core.LEXER_NEW_SIG), _core.find_by_sig(M, *_core.LEXER_NEXT_SIG)
    except AssertionError: raise Unsupported('Lexer::new / Lexer::next not found')

def lex_tokens(M, elems, limit=400):
    """run the real lexer to exhaustion; returns list of token payload tuples, last element ('eof',) or ('lexerr', variant)"""
    LN, LX = lexer_fns(M)
    lx = M.call(LN, [Slice(list(elems), 0, len(elems), True)]); cell = [lx]
    out = []
    while True:
        r = M.call(LX, [Ref(cell, 0)])
        if r.variant == 0: out.append(('eof',)); return out
        res = r.fields[0]
        if res.variant == 1: out.append(('lexerr', res.fields[0].variant)); return out
        tok = res.fields[0].fields[1]
        pay = []
        for f in tok.fields:
            if isinstance(f, Int): pay.append(('int', f))
            elif isinstance(f, Native) and f.kind == 'String': pay.append(('str', list(f.d['b'])))
            elif isinstance(f, Native) and f.kind == 'Vec': pay.append(('slots', [(t.fields[0].v, t.fields[1].v) for t in f.d['b']]))
            else: raise Unsupported('token payload %r' % (f,))
        out.append((tok.variant, pay))
        if len(out) > limit: raise Panic('lexer produced more than %d tokens (possible hang)' % limit)

SPELL = {'BraceClose': '}', 'BraceOpen': '{', 'BracketClose': ']', 'BracketOpen': '[', 'Colon': ':', 'Comma': ',', 'Div': '/', 'Dot': '.', 'Equals': '=', 'GreaterThan': '>', 'LessThan': '<', 'Mod': '%', 'Mul': '*',
         'ParenClose': ')', 'ParenOpen': '(', 'Sub': '-', 'Sum': '+', 'AmpAmp': '&&', 'BangEquals': '!=', 'ColonEquals': ':=', 'DashGreaterThan': '->', 'DivEquals': '/=', 'DotDot': '..', 'EqualsEquals': '==',
         'GreaterThanEquals': '>=', 'LessThanEquals': '<=', 'ModEquals': '%=', 'MulEquals': '*=', 'PipePipe': '||', 'SubEquals': '-=', 'SumEquals': '+=', 'EqualsEqualsEquals': '===', 'BangEqualsEquals': '!=='}
KW = {'Break', 'Continue', 'Else', 'False', 'Fn', 'For', 'If', 'In', 'Null', 'Return', 'True', 'While'}
def real_kinds(toks):
    out = []
    for t in toks:
        if t[0] == 'eof': break
        if t[0] == 'lexerr': out.append('lexerr'); break
        nm = ENUMS['Token'][t[0]]
        if nm == 'Ident': out.append('ident')
        elif nm == 'IntLiteral': out.append('int')
        elif nm == 'StrLiteral': out.append('str')
        elif nm == 'InterpStrLiteral': out.append('istr')
        elif nm == 'StmtEnd': out.append('end')
        elif nm in KW: out.append('kw:' + nm.lower())
        elif nm in SPELL: out.append('sym:' + SPELL[nm])
        else: return None
    return out
def ref_kinds(txt_b):
    from ref import front
    try: txt = txt_b.decode('utf-8')
    except UnicodeDecodeError: return None
    try: toks = front.lex(txt, lazy=True)
    except front.FrontUnspecified: return None
    out = []
    for t in toks:
        if t.k == 'lexerr': out.append('lexerr'); break
        if t.k in ('ident', 'int', 'str', 'istr', 'end'): out.append(t.k)
        elif t.k == 'kw': out.append('kw:' + t.v)
        else: out.append('sym:' + t.v)
    return out

def streams_differ(M, ta, tb):
    """returns None if equal for every model of the path condition, else a description (with a model in M.last_model)"""
    if len(ta) != len(tb): return 'different number of tokens: %d vs %d' % (len(ta), len(tb))
    for i, (x, y) in enumerate(zip(ta, tb)):
        if x[0] != y[0]: return 'token %d: kind %s vs %s' % (i, x[0], y[0])
        if x[0] in ('eof', 'lexerr'):
            if x != y: return 'token %d: %s vs %s' % (i, x, y)
            continue
        for p, q in zip(x[1], y[1]):
            if p[0] == 'int':
                c = M.binop('Ne', p[1], q[1])
                if M.feasible_model(c): return 'token %d: integer payloads differ' % i
            elif p[0] == 'str':
                if len(p[1]) != len(q[1]): return 'token %d: string payload lengths %d vs %d' % (i, len(p[1]), len(q[1]))
                for a, b in zip(p[1], q[1]):
                    c = M.binop('Ne', a, b)
                    if M.feasible_model(c): return 'token %d: string payloads differ' % i
            elif p != q: return 'token %d: slots %s vs %s' % (i, p, q)
    return None

def feasible_model(self, cond):
    if isinstance(cond, bool):
        if not cond: return False
        r = self.solver.check(); self.last_model = self.solver.model() if r == z3.sat else None; return r == z3.sat
    self.solver.push(); self.solver.add(cond); r = self.solver.check()
    self.last_model = self.solver.model() if r == z3.sat else None
    self.solver.pop()
    if r == z3.unknown: raise Unsupported('solver unknown')
    return r == z3.sat
Machine.feasible_model = feasible_model

def pair_job(name, parts_a, parts_b, relation='equal'):
    def path_fn(M):
        M.symvars = {}
        a = S.text(M, parts_a); b = S.text(M, parts_b)
        obs = {'viol': None, 'panic': None}
        try:
            ta = lex_tokens(M, a); tb = lex_tokens(M, b)
        except Panic as e:
            obs['panic'] = str(e)[:200]; ta = tb = None
        r, m = F.sat_model(M.solver)
        if r != z3.sat: raise PathEnd('infeasible')
        ev = lambda mdl, els: list(bytes(mdl.eval(e.z(), model_completion=True).as_long() for e in els))
        obs['a'] = ev(m, a); obs['b'] = ev(m, b); obs['ntok'] = len(ta) if ta else 0
        if obs['panic']: obs['viol'] = {'what': 'lexer panic: ' + obs['panic'], 'a': obs['a'], 'b': obs['b']}; return obs
        M.last_model = None
        d = streams_differ(M, ta, tb)
        if d is not None:
            mdl = M.last_model or m
            obs['viol'] = {'what': d, 'a': ev(mdl, a), 'b': ev(mdl, b)}
            return obs
        # both texts against the reference lexer (kinds only; on the path witness): catches a layout rule that is wrong in the same way in both
        for txt_b, toks in ((bytes(obs['a']), ta), (bytes(obs['b']), tb)):
            rk = ref_kinds(txt_b); gk = real_kinds(toks)
            if rk is not None and gk is not None and rk != gk:
                obs['viol'] = {'what': 'token kinds differ from the reference lexer: %r vs %r' % (gk[:40], rk[:40]), 'a': obs['a'], 'b': obs['b'], 'against_ref': list(txt_b)}
                break
        return obs
    def post(rows, res, binary, wd):
        for r in rows:
            o = r['obs']; res['obligations'] += 1; res['discharged'] += 0 if o['viol'] else 1
            if len(res['samples']) < 1: res['samples'].append({'text_a': repr(bytes(o['a'])), 'text_b': repr(bytes(o['b'])), 'tokens': o['ntok']})
            # engine validation: both texts, natively, must behave alike as scripts (same exit class and output) when the streams are equal
            wa, wb = bytes(o['a']), bytes(o['b'])
            na = F.native_run(binary, wa, wd); nb = F.native_run(binary, wb, wd); res['replayed'] += 1
            # positions move with the layout; a quoted echo of the source spelling (e.g. of an over-long integer literal) is not compared
            norm = lambda e: re.sub(rb"'[0-9_]+'", b"'N'", re.sub(rb':\d+:\d+:', b':', e))
            same = na[0] == nb[0] and na[1] == nb[1] and norm(na[2]) == norm(nb[2])
            if o['viol'] and o['viol'].get('against_ref'):
                from ref import sem
                t = bytes(o['viol']['against_ref']); nt = F.native_run(binary, t, wd)
                try: rr = sem.run_concrete(t.decode('utf-8'))
                except UnicodeDecodeError: rr = ('unspecified',)
                if rr[0] != 'unspecified' and (nt[0] != (0 if rr[0] == 'ok' else 103) or (rr[0] in ('ok', 'error') and nt[1] != rr[1])):
                    res['replay_ok'] += 1
                    res['violations'].append({'aspect': 'layout', 'role': 'layout:%s' % name.split('/')[0], 'what': '%s | %r | native %r, reference %r' % (o['viol']['what'], t[:80], (nt[0], (nt[1] + nt[2])[:100]), (rr[0], rr[1][:60])), 'script': t, 'ext': 'sd'})
                else: res['inconclusive'].append('token kinds differ from the reference lexer for %r but the native run agrees with the reference semantics' % t[:60])
                continue
            if o['viol']:
                if not same or na[0] == 101 or nb[0] == 101:
                    res['replay_ok'] += 1
                    res['violations'].append({'aspect': 'layout', 'role': 'layout:%s' % name.split('/')[0], 'what': '%s | %r vs %r | native: %r vs %r' % (o['viol']['what'], wa[:80], wb[:80], (na[0], (na[1] + na[2])[:100]), (nb[0], (nb[1] + nb[2])[:100])), 'script': wa + b'\n#---- versus ----\n' + wb, 'ext': 'sd'})
                else:
                    # token streams differ but the scripts behave alike natively: try to make the difference observable is not always possible
                    res['inconclusive'].append('token streams differ (%s) for %r vs %r but the native runs agree' % (o['viol']['what'], wa[:60], wb[:60]))
            else:
                if same: res['replay_ok'] += 1
                else: res['inconclusive'].append('engine/native disagreement: equal token streams predicted for %r vs %r but native runs differ: %r vs %r' % (wa[:60], wb[:60], na, nb))
    return {'name': name, 'path_fn': path_fn, 'post': post, 'timeout': 900}

def ws(prefix, n, alphabet=WS): return [('sym', '%s%d' % (prefix, i), S.in_set(alphabet)) for i in range(n)]
def comment(prefix, n): return [b'#'] + [('sym', '%s%d' % (prefix, i), S.not_in([10])) for i in range(n)]

def hexdigit_term(n4):
    return z3.If(z3.ULT(n4, 10), n4 + 0x30, n4 + 0x61 - 10)

def jobs_for(tier, seed):
    J = []
    k = 1 if tier == 'quick' else 2
    # (a) line break after every token of the language, each in a context where the two readings behave differently as programs
    ctx = {
        '+': ('x := 1 ', '2\nprint(x)\n'), '-': ('x := 1 ', '2\nprint(x)\n'), '*': ('x := 1 ', '2\nprint(x)\n'), '/': ('x := 1 ', '2\nprint(x)\n'), '%': ('x := 1 ', '2\nprint(x)\n'),
        '==': ('x := 1 ', '2\nprint(x)\n'), '!=': ('x := 1 ', '2\nprint(x)\n'), '<': ('x := 1 ', '2\nprint(x)\n'), '<=': ('x := 1 ', '2\nprint(x)\n'), '>': ('x := 1 ', '2\nprint(x)\n'), '>=': ('x := 1 ', '2\nprint(x)\n'),
        '&&': ('x := true ', 'false\nprint(x)\n'), '||': ('x := true ', 'false\nprint(x)\n'), '=': ('x := 0\nx ', '2\nprint(x)\n'), ':=': ('x ', '2\nprint(x)\n'),
        '+=': ('x := 9\nx ', '2\nprint(x)\n'), '-=': ('x := 9\nx ', '2\nprint(x)\n'), '*=': ('x := 9\nx ', '2\nprint(x)\n'), '/=': ('x := 9\nx ', '2\nprint(x)\n'), '%=': ('x := 9\nx ', '2\nprint(x)\n'),
        ',': ('x := [1', '2]\nprint(x)\n'), '.': ('o := {"k": 1}\nx := o', 'k\nprint(x)\n'), '(': ('print', '1)\n'), '[': ('x := ', '1]\nprint(x)\n'), '{': ('x := ', '"a": 1}\nprint(x)\n'),
        '===': ('a := []\nx := a ', 'a\nprint(x)\n'), '!==': ('a := []\nx := a ', 'a\nprint(x)\n'), '..': ('x := 1 ', '3\nprint(x)\n'), '->': ('x := 1', 'type()\nprint(x)\n'), ':': ('x := {"a"', '1}\nprint(x)\n'),
        ')': ('print(1', 'print(2)\n'), ']': ('x := [1', 'print(x)\n'), '}': ('x := {"a": 1', 'print(x)\n'), 'x': ('x := 1\n', 'print(2)\n'), 'abc_1': ('abc_1 := 1\n', 'print(2)\n'),
        '12': ('', 'print(2)\n'), '1_0': ('', 'print(2)\n'), '"s"': ('', 'print(2)\n'), '$"s"': ('', 'print(2)\n'), 'true': ('', 'print(2)\n'), 'false': ('', 'print(2)\n'), 'null': ('', 'print(2)\n'),
        'break': ('while true {\n', 'print(1)\n}\nprint(2)\n'), 'continue': ('i := 0\nwhile i < 1 {\ni += 1\n', 'print(1)\n}\nprint(2)\n'), 'return': ('fn f() {\n', '1\n}\nprint(f())\n'),
        'fn': ('', 'f() {\n}\nprint(2)\n'), 'if': ('', 'true {\n}\nprint(2)\n'), 'else': ('if false {\n} ', '{\nprint(1)\n}\nprint(2)\n'), 'while': ('', 'false {\n}\nprint(2)\n'), 'for': ('', 'q in [] {\n}\nprint(2)\n'),
        'in': ('for q ', '[] {\n}\nprint(2)\n'), '_': ('', 'print(2)\n'),
    }
    for i, tok in enumerate(CONT + NONCONT):
        cont = tok in CONT
        pre, suf = ctx[tok]
        left = [pre.encode() + (b' ' if pre and not pre.endswith(('\n', ' ')) and tok not in ('.', '(', '->') else b'')]
        a = left + [tok.encode()] + ws('u', k) + [b'\n'] + ws('v', k) + [suf.encode()]
        b = left + [tok.encode(), b' ' if cont else b' ; ', suf.encode()]
        J.append(pair_job('break-after/%d:%s' % (i, tok), a, b))
        if tier == 'thorough' or i % 3 == 0:
            a2 = left + [tok.encode()] + ws('u', 1) + comment('c', k) + [b'\n\n'] + ws('v', 1) + [suf.encode()]
            J.append(pair_job('break-comment-after/%d:%s' % (i, tok), a2, b))
    # a line break after `}` ends the statement whatever follows: `else` on the next line, identifiers that merely start like a keyword
    for j, (pre, suf) in enumerate([('if false {\n}', 'else {\n    print(1)\n}\n'), ('n := 0\nif true {\n    n = 1\n}', 'else_count := 5\nprint(else_count)\n'), ('while false {\n}', 'elsewhere := 1\nprint(elsewhere)\n'),
                                    ('x := 1', 'iffy := 2\nprint(iffy)\n'), ('f := fn () {\n}', 'format := 3\nprint(format)\n'), ('x := [1]', 'inner := 4\nprint(inner)\n'), ('x := 1', 'truth := 5\nprint(truth)\n')]):
        a = [pre.encode()] + ws('u', k) + [b'\n'] + ws('v', k) + [suf.encode()]
        b = [pre.encode(), b' ; ', suf.encode()]
        J.append(pair_job('break-before-word/%d' % j, a, b))
    # (b) holes at token gaps of repository scripts
    tests = [t for t in H.load_tests() if t['code'] == 0 and 20 < len(t['src']) < 400]
    rng = random.Random(seed * 31 + 5)
    n_scripts = 14 if tier == 'quick' else 120
    for t in rng.sample(tests, min(n_scripts, len(tests))):
        src = t['src'].encode()
        # candidate gap offsets: positions where a space already is (outside strings / comments: checked by reference lexing below)
        gaps = [m.start() for m in re.finditer(rb' ', src)]
        nls = [m.start() for m in re.finditer(rb'\n', src)]
        if not gaps or not nls: continue
        from ref import front
        try: base = [(x.k, x.v) for x in front.lex(src.decode())]
        except Exception: continue
        def neutral(candidate):
            try: return [(x.k, x.v) for x in front.lex(candidate.decode())] == base
            except Exception: return False
        for g in rng.sample(gaps, min(2, len(gaps))):
            if not neutral(src[:g] + b' \t ' + src[g:]): continue       # inside a string / comment: not layout
            J.append(pair_job('gap/%s-%s@%d' % (t['file'], t['name'], g), [src[:g]] + ws('u', k + 1) + [src[g:]], [src]))
        for g in rng.sample(nls, min(2, len(nls))):
            if neutral(src[:g] + b' # x' + src[g:]):
                J.append(pair_job('comment/%s-%s@%d' % (t['file'], t['name'], g), [src[:g]] + ws('u', 1) + comment('c', k + 1) + [src[g:]], [src]))
            if neutral(src[:g + 1] + b'\n ;\n' + src[g + 1:]):
                J.append(pair_job('terminators/%s-%s@%d' % (t['file'], t['name'], g), [src[:g + 1]] + ws('u', 1, WS + [0x0A, 0x3B]) + ws('v', 1, WS + [0x0A, 0x3B]) + [src[g + 1:]], [src]))
            if neutral(src[:g] + b';' + src[g + 1:]):
                J.append(pair_job('semicolon/%s-%s@%d' % (t['file'], t['name'], g), [src[:g], ('sym', 'u0', S.in_set([0x0A, 0x3B])), src[g + 1:]], [src]))
    # (c) digit separators
    D = S.in_set(list(b'0123456789'))
    for pat in (['d', '_', 'd'], ['d', 'd', '_', 'd'], ['d', '_', 'd', '_', 'd'], ['d', '_', '_', 'd'], ['d', 'd', 'd', '_'], ['d', '_', 'd', 'd', 'd', '_', 'd', 'd', 'd']):
        if tier == 'quick' and len(pat) > 5: continue
        a = [b'x := ']; b = [b'x := ']; n = 0
        for ch in pat:
            if ch == 'd':
                a.append(('sym', 'd%d' % n, D)); b.append(('sym', 'd%d' % n, D)); n += 1
            else: a.append(b'_')
        J.append(pair_job('digits/' + ''.join(pat), a + [b'\n'], b + [b'\n']))
    # 19-digit literals around 2^63: the same digits with one separator
    big = [b'x := 92233720368547758', ('sym', 'd0', D), ('sym', 'd1', D), b'\n']
    bigs = [b'x := 9_223_372_036_854_775_8', ('sym', 'd0', D), ('sym', 'd1', D), b'\n']
    J.append(pair_job('digits/int-max-boundary', bigs, big))
    # (d) an ASCII character vs its \xHH escape
    def hx_parts():
        return None
    def hex_job():
        def path_parts(M):
            h = S.sym_byte(M, 'h0')
            M.assume(z3.And(z3.ULT(h.v, 0x80), h.v != ord('"'), h.v != ord('\\'), h.v != ord('$')))
            up = z3.Bool('upper'); M.symvars['upper'] = up      # upper- or lower-case hex digits
            def digit(n4): return z3.If(z3.ULT(n4, 10), n4 + 0x30, z3.If(up, n4 + 0x41 - 10, n4 + 0x61 - 10))
            hi = U(8, digit(z3.LShR(h.v, 4))); lo = U(8, digit(h.v & 15))
            a = models.elems(b'print("a') + [h] + models.elems(b'b")\n')
            b = models.elems(b'print("a\\x') + [hi, lo] + models.elems(b'b")\n')
            return a, b
        job = pair_job('hex-escape', [], [])
        inner = job['path_fn']
        def path_fn(M):
            M.symvars = {}
            a, b = path_parts(M)
            obs = {'viol': None, 'panic': None}
            try: ta = lex_tokens(M, a); tb = lex_tokens(M, b)
            except Panic as e: obs['panic'] = str(e)[:200]; ta = tb = None
            r, m = F.sat_model(M.solver)
            if r != z3.sat: raise PathEnd('infeasible')
            ev = lambda mdl, els: list(bytes(mdl.eval(e.z(), model_completion=True).as_long() for e in els))
            obs['a'] = ev(m, a); obs['b'] = ev(m, b); obs['ntok'] = len(ta) if ta else 0
            if obs['panic']: obs['viol'] = {'what': 'lexer panic: ' + obs['panic']}; return obs
            M.last_model = None
            d = streams_differ(M, ta, tb)
            if d is not None:
                mdl = M.last_model or m; obs['a'] = ev(mdl, a); obs['b'] = ev(mdl, b); obs['viol'] = {'what': d}
            return obs
        job['path_fn'] = path_fn
        return job
    J.append(hex_job())
    return J

def run(tier, seed):
    c = common.Check('C09', tier, seed, 'symbolic execution of the real Lexer (MIR) on pairs of texts that differ only in symbolic layout bytes; token-stream equality (kinds and payloads) decided by z3 per path; native comparison of both texts as scripts')
    c.functions |= {'Lexer::new', 'Lexer::next (terminator suppression)', 'Lexer::next_token', 'Lexer::skip_whitespace_and_comments', 'Lexer::next_int', 'Lexer::next_str_literal', 'Lexer::next_symbol_token', 'Lexer::next_multi_symbol_token',
                    'Lexer::next_keyword_or_ident', 'Scanner::*', 'match_*_symbol_token', '<Token as Clone>::clone', '<Token as PartialEq>::eq'}
    jobs = jobs_for(tier, seed)
    c.bounds = {'continuation': 'every one of the 25 continuation tokens and 27 other tokens / token classes followed by a line break, with %d symbolic layout bytes from {space, tab, CR} on each side of the break, and a comment with symbolic text' % (1 if tier == 'quick' else 2),
                'gaps': 'whitespace / comment / terminator holes of 2-3 symbolic bytes at sampled token gaps of %d repository scripts (VERIF_SEED)' % (14 if tier == 'quick' else 120),
                'digits': 'digit strings of <= %d symbolic digits with `_` in every listed pattern; 19-digit literals at the 2^63 boundary' % (3 if tier == 'quick' else 7), 'hex': 'every ASCII character except `"` `\\` `$` against its \\xHH spelling', 'jobs': len(jobs)}
    c.outside = ['layout rewrites inside string literals and comments (not layout)', 'longer holes', 'the parser: token-stream equality is the premise; the generated parser consumes tokens and positions only']
    c.run_jobs('layout', jobs, par_jobs=10, par_paths=1)
    # whole programs through `main` (file reading included): the same program with LF / CRLF line ends, `;`, blank lines, comments; a line
    # break written raw inside a string literal is part of the string, byte for byte, like its \xHH spelling
    body = ['x := @h10@', 'fn f(a, b) {', '    return a +', '        b', '}', 's := "l1{NL}l2"', 'print(s->len())', 'print(s == "l1{ESC}l2")', 'for [i, ch] in s {', '    if ch == "\\x0d" {', '        print(i)', '    }', '}', 'print(f(x, 1))', 'xs := [', '    1,', '    2,', ']', 'print(xs)']
    def prog(nl, sep): return sep.join(l.replace('{NL}', nl).replace('{ESC}', ''.join('\\x%02x' % ord(ch) for ch in nl)) for l in body) + sep
    progs = {'lf': prog('\n', '\n'), 'crlf': prog('\r\n', '\r\n'), 'crlf-literal-in-lf-file': prog('\r\n', '\n'), 'lf-literal-in-crlf-file': prog('\n', '\r\n'), 'blank-and-comments': prog('\n', '\n\n  # c\n'), 'cr-only-literal': prog('\r', '\n')}
    ts = [{'name': 'program-' + k, 'src': v} for k, v in progs.items()]
    c.run_family('whole-programs', ts, ('exit', 'stdout', 'stderr-empty', 'panic', 'hang'), lambda v: 'layout-program:%s:%s' % (v.get('template'), v['aspect']))
    c.bounds['whole_programs'] = '%d spellings of one program (LF / CRLF line ends, raw CR / LF / CRLF inside a string literal, blank and comment lines), each in lock-step with the reference' % len(ts)
    return c.finish()
