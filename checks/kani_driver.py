# E2: Kani / CBMC cross-check of the compiled arithmetic kernel (C06, thorough tier).  A scratch copy of /repo (outside /repo and
# /verif) gets one appended line that includes /verif/kani/arith.rs as a child module of src/eval/mod.rs; no hook in /repo.
import os, re, subprocess, shutil, time
from mirsym import build

HARNESSES = [('arith_sum', 120), ('arith_sub', 120), ('arith_mul', 400), ('cmp_lt', 120), ('cmp_lte', 120), ('cmp_gt', 120), ('cmp_gte', 120), ('cmp_eq', 120), ('cmp_ne', 120), ('div_mod_error_domain', 400)]

def run(check):
    verif = os.path.dirname(os.path.dirname(os.path.abspath(__file__)))
    src = os.path.join(build.CACHE, 'kani-src'); tgt = os.path.join(build.CACHE, 'kani-target')
    t0 = time.time()
    subprocess.run(['rsync', '-a', '--delete', '--exclude', 'target', '--exclude', '.git', build.REPO + '/', src + '/'], check=True)
    with open(os.path.join(src, 'src/eval/mod.rs'), 'a') as f:
        f.write('\n#[cfg(kani)]\nmod verif_kani { include!("%s"); }\n' % os.path.join(verif, 'kani/arith.rs'))
    env = dict(os.environ, CARGO_NET_OFFLINE='true')
    results = {}
    try:
        for h, cap in HARNESSES:
            t1 = time.time()
            try:
                p = subprocess.run(['cargo', 'kani', '--harness', h, '--target-dir', tgt], cwd=src, env=env, stdout=subprocess.PIPE, stderr=subprocess.STDOUT, timeout=cap + 240)
                out = p.stdout.decode('utf-8', 'replace')
            except subprocess.TimeoutExpired:
                results[h] = ('timeout', time.time() - t1); check.inconclusive.append('kani/%s: no verdict within %ds (not part of the verdict)' % (h, cap + 240)); check.obligations += 1; continue
            check.obligations += 1
            ok = 'VERIFICATION:- SUCCESSFUL' in out and not re.search(r'\*\* [1-9]\d* of \d+ failed', out)
            covers = re.search(r'\*\* (\d+) of (\d+) cover properties satisfied', out)
            if ok and covers and covers.group(1) != covers.group(2): ok = False
            if ok: check.discharged += 1; results[h] = ('successful', round(time.time() - t1, 1))
            elif 'VERIFICATION:- FAILED' in out:
                failed = re.findall(r'Check \d+: (.*)\n\s+- Status: FAILURE\n\s+- Description: "(.*)"', out)
                results[h] = ('failed', failed[:3])
                check.inconclusive.append('kani/%s: FAILED %r -- the MIR-level check decides; a Kani failure alone is reported as inconclusive' % (h, failed[:2]))
            else:
                results[h] = ('error', out[-300:]); check.inconclusive.append('kani/%s: no verdict: %s' % (h, out[-200:].replace('\n', ' ')))
    finally:
        shutil.rmtree(src, ignore_errors=True)
    check.parts.append({'family': 'kani-e2', 'checker_cmd': 'cargo kani --harness <h> (CBMC %s)' % 'bundled', 'harnesses': results, 'wall_s': round(time.time() - t0, 1)})
    check.functions.add('apply_binary_operation (compiled, via Kani/CBMC: Sum, Sub, Mul, Lt, Lte, Gt, Gte, Eq, Ne on all i64 x i64; Div/Mod error domain)')
