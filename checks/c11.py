# C11 -- list/string indexing, slicing and concatenation obey the sequence laws
from . import common
from families import seq

def run(tier, seed):
    c = common.Check('C11', tier, seed, 'symbolic execution of main (MIR): unconstrained i64 indices / bounds and symbolic elements over concrete lengths, decided by z3; lock-step reference semantics; native replay')
    c.functions |= {'main', 'eval_expr (Index, RangeIndex, BinaryOp)', 'eval_expr_to_index', 'eval_expr_to_i64', 'get_str_range_index', 'get_list_range_index', 'bind_next (Index, RangeIndex)',
                    'bind_range_index', 'apply_binary_operation (Sum, Eq)', 'eq', 'type_functions::str_len', 'value_to_pairs'}
    ts = seq.templates(tier, seed)
    c.bounds = {'sequence_length': '0..3 (quick) / 0..5 (thorough)', 'rhs_length': '0..4', 'indices_and_bounds': 'all of i64 (no bound)', 'templates': len(ts)}
    c.outside = ['sequences longer than the stated lengths']
    c.run_family('seq', ts, ('exit', 'stdout', 'stderr-empty', 'panic', 'hang'), seq.role)
    c.run_random(('exit', 'stdout', 'stderr-empty', 'panic', 'hang'))
    return c.finish()
