# C02 -- evaluation never crashes: it completes or reports a diagnostic
# The union of the panic-freedom / termination obligations of every path of every template family (every family is run with the
# `panic` and `hang` aspects only), plus the dedicated alias / extreme-integer / non-ASCII families.
from . import common
from families import alias, arith, control, seq, types, equality, destructure, objects, heap, calls, errors, render, scopes

def run(tier, seed):
    c = common.Check('C02', tier, seed, 'symbolic execution of main (MIR): every reachable MIR assert / modelled std panic (unwrap on Err, failed try_lock, index and slice bounds, char boundaries, arithmetic traps) / step-budget exhaustion on a satisfiable path is a violation; union over all template families plus alias shapes; native replay (exit 101)')
    c.functions |= {'main and everything reachable from it in src/eval, src/builtins, src/lexer, generated parser (MIR)', 'std models with their documented panics: Result::unwrap, Option::unwrap/expect, Mutex::try_lock, Vec/slice indexing, str slicing (range and char boundary), integer overflow asserts, % and / traps'}
    asp = ('panic', 'hang')
    fams = [('alias', alias, alias.role), ('arith', arith, None), ('seq', seq, None), ('equality', equality, None), ('heap', heap, None)]
    if tier == 'thorough':
        fams += [('objects', objects, None), ('control', control, None), ('types', types, None), ('destructure', destructure, None), ('calls', calls, None), ('errors', errors, None), ('render', render, None), ('scopes', scopes, None)]
    else:
        # quick: of the operand-type matrix only the plain binary operators (every operator x 8x8 operand kinds); the remaining families
        # carry the `panic` / `hang` aspects in their own properties' checks
        class _TypesBin:
            @staticmethod
            def templates(tier, seed=0): return [t for t in types.templates(tier, seed) if t['name'].startswith('bin-') and not t['name'].startswith('bin-empty-')]
        fams += [('types-binops', _TypesBin, None)]
        from families import crossfeature
        fams += [('cross-feature', crossfeature, None)]          # one or two broad programs of every other family
    n = 0
    for name, mod, role in fams:
        ts = mod.templates(tier, seed) if name != 'arith' else mod.templates(tier)
        n += len(ts)
        c.run_family(name, ts, asp, role or (lambda v, name=name: 'panic:%s:%s' % (name, v.get('template'))), par_templates=8, par_paths=2)
    c.bounds = {'families': [f[0] for f in fams], 'templates': n, 'alias_shapes': '%d same-cell / self-containing operations on a 2-cell list and an object; 4 cyclic prints' % len(alias.SAME_CELL),
                'integers': 'unconstrained i64 in every arithmetic, index, bound and range position', 'text': '5 strings with 2-, 3-, 4-byte and combining characters in literals, interpolation, keys, slicing'}
    c.outside = ['stack exhaustion and memory limits (excluded by the statement)', 'comparing two distinct self-containing values (does not terminate by definition)', 'programs outside the template families']
    return c.finish()
