# C14 -- calls bind arguments to fresh parameters; `this` follows the access path
from . import common
from families import calls

def run(tier, seed):
    c = common.Check('C14', tier, seed, 'symbolic execution of main (MIR): the route a function value takes (read through . / [], moved through variable, argument, list, return, destructuring) chosen by symbolic selectors, decided by z3; lock-step reference with explicit provenance; native replay')
    c.functions |= {'main', 'eval_call', 'eval_list_items', 'eval_expr (Call, Prop, Index, Var, Func)', 'value::new_val_ref_with_source', 'SourcedValue clone', 'eval_stmts (bindings)', 'bind::bind', 'bind_next_name', 'ScopeStack::declare'}
    ts = calls.templates(tier, seed)
    c.bounds = {'routes': '25 single routes; 4 sources x 6 moves x 6 moves two-step routes', 'arities': 'parameters 0..4 with and without rest x 0..5 arguments', 'templates': len(ts)}
    c.outside = ['routes of more than two moves']
    c.run_family('calls', ts, ('exit', 'stdout', 'stderr-empty', 'panic', 'hang'), calls.role)
    c.run_random(('exit', 'stdout', 'stderr-empty', 'panic', 'hang'))
    return c.finish()
