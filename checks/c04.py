# C04 -- lexical scoping; closures capture their defining scope by reference
from . import common
from families import scopes

def run(tier, seed):
    c = common.Check('C04', tier, seed, 'symbolic execution of main (MIR) on generated scope-operation programs with symbolic values and conditions, decided by z3; lock-step reference (lexical scoping); consistently renamed twins; native replay')
    c.functions |= {'main', 'ScopeStack::new_from_push', 'ScopeStack::declare', 'ScopeStack::get', 'ScopeStack::assign', 'scope::set', 'eval_stmts', 'eval_stmt (Func, Block, While, For)', 'eval_expr (Func, Var, Call)',
                    'eval_call', 'bind_next_name', 'bind_name', 'HashMap model'}
    ts = scopes.templates(tier, seed)
    c.bounds = {'programs': '%d templates: 15 curated x 2 (renamed), 20 redeclaration kind pairs, 10 binding positions x 12 non-bindable targets, %d generated (seeded by VERIF_SEED) with nesting <= 3 and <= 12 statements' % (len(ts), 80 if tier == 'quick' else 400),
                'values': 'symbolic i64 / bool'}
    c.outside = ['programs outside the generated sample; deeper nesting']
    c.run_family('scopes', ts, ('exit', 'stdout', 'stderr-empty', 'panic', 'hang'), scopes.role)
    c.run_random(('exit', 'stdout', 'stderr-empty', 'panic', 'hang'))
    return c.finish()
