# C03 -- the front end accepts or cleanly rejects every input, before running anything
#  (i)   all valid-UTF-8 inputs of N symbolic bytes through main (evaluation stubbed where it would begin);
#  (ii)  truncations of the repository's test scripts at sampled offsets, plus one symbolic byte appended;
#  (iii) punctuation-alphabet strings: N symbolic bytes restricted to the punctuation / quote / escape alphabet (longer N).
# Oracle per path (solver-decided for all inputs of the path): no panic, no hang; exit status 0 or 103; on 103: stdout empty, first
# stderr line `<path>:<line>:<col>: <message>` with 1 <= line <= (#LF)+2; nothing evaluated before a syntax error.  On the path
# witness, acceptance is compared with the reference front end.
import re, os, random
import z3
from . import common
from mirsym import harness as H, models, srcsym as S, family as F
from mirsym.core import *
from ref import front

POS_RE = re.compile(rb'^t\.sd:(\d+):(\d+): (.*)', re.S)
PUNCT = list(b'{}[]():,./=<>%*-+&|!;"$\\#\n x1_')

def make_job(name, parts_fn):
    def path_fn(M):
        M.symvars = {}
        models.ENV['assume_utf8'] = False          # arbitrary file contents: the read-error arm is part of the property
        src = S.text(M, parts_fn())
        S.stop_after_parse(M)
        obs = {'panic': None, 'viol': None, 'nq': 0}
        try:
            code, out, err = H.run_cli(M, 't.sd', list(src))
        except Panic as e:
            obs['panic'] = str(e)[:300]; code = None; out = []; err = []
        r, m = F.sat_model(M.solver)
        if r != z3.sat: raise PathEnd('infeasible')
        wit = bytes(m.eval(e.z(), model_completion=True).as_long() for e in src)
        obs['wit'] = list(wit); obs['code'] = code; obs['parsed'] = M.evaluator_entered[0] > 0
        ep = models.pieces(err); op = models.pieces(out)
        obs['err'] = F.eval_pieces(m, ep).decode('latin1'); obs['out'] = F.eval_pieces(m, op).decode('latin1')
        if obs['panic']:
            obs['viol'] = {'aspect': 'panic' if 'step limit' not in obs['panic'] else 'hang', 'what': obs['panic']}; return obs
        try: wit.decode('utf-8'); valid = True
        except UnicodeDecodeError: valid = False
        obs['valid_utf8'] = valid
        if not valid:
            # bytes that are not UTF-8: a read error, exit 103, nothing printed, nothing run
            if code != 103 or obs['parsed'] or op or b"couldn't read" not in b''.join(p for p in ep if isinstance(p, bytes)):
                obs['viol'] = {'aspect': 'read-error', 'what': 'input that is not valid UTF-8: exit %s, stdout %r, stderr %r, evaluation %s' % (code, obs['out'][:60], obs['err'][:100], 'entered' if obs['parsed'] else 'not entered')}
            return obs
        if code not in (0, 103): obs['viol'] = {'aspect': 'exit', 'what': 'exit status %s' % code}; return obs
        if code == 0:
            if not obs['parsed']: obs['viol'] = {'aspect': 'exit', 'what': 'exit 0 without reaching evaluation'}
            return obs
        if obs['parsed']: return obs     # (a runtime diagnostic cannot occur: evaluation is stubbed)
        if op: obs['viol'] = {'aspect': 'stdout', 'what': 'output before a syntax error: %r' % obs['out'][:80]}; return obs
        head = ep[0] if ep and isinstance(ep[0], bytes) else b''
        mm = POS_RE.match(head)
        if not mm: obs['viol'] = {'aspect': 'format', 'what': 'stderr does not start with <path>:<line>:<col>: : %r' % obs['err'][:120]}; return obs
        line = int(mm.group(1))
        nlf = z3.Sum([z3.If(e.z() == 10, 1, 0) for e in src]) if src else z3.IntVal(0)
        obs['nq'] += 1
        M.solver.push(); M.solver.add(z3.Not(z3.And(line >= 1, line <= nlf + 2))); r = M.solver.check()
        if r == z3.sat:
            m2 = M.solver.model(); obs['viol'] = {'aspect': 'line-bound', 'what': 'reported line %d exceeds the number of lines + 1' % line, 'wit': list(bytes(m2.eval(e.z(), model_completion=True).as_long() for e in src))}
        M.solver.pop()
        if r == z3.unknown: raise Unsupported('solver unknown (line bound)')
        return obs
    def post(rows, res, binary, wd):
        for r in rows:
            o = r['obs']; w = bytes(o['wit'])
            res['obligations'] += 1 + o['nq']; res['discharged'] += 1 + o['nq'] - (1 if o['viol'] else 0)
            nat = F.native_run(binary, w, wd); res['replayed'] += 1
            if o['panic']:
                okr = nat[0] == 101 or (isinstance(nat[0], int) and nat[0] < 0) or nat[0] == 'timeout'
            elif o.get('parsed'): okr = nat[0] in (0, 103) and not re.search(rb"unexpected|is too high for an int|is not a valid|must be escaped|interpolation slots start", nat[2].split(b'\n')[0]) or b'is not defined' in nat[2]
            elif not o.get('valid_utf8', True) and b"couldn't read script" in nat[2] and "couldn't read script" in o['err']: okr = nat[0] == o['code'] and nat[1] == o['out'].encode('latin1')      # (the message echoes the working directory)
            else: okr = nat[0] == o['code'] and nat[1] == o['out'].encode('latin1') and nat[2] == o['err'].encode('latin1')
            if okr: res['replay_ok'] += 1
            else: res['inconclusive'].append('engine/native disagreement on %r: native=%r predicted=%r' % (w, (nat[0], nat[1][:60], nat[2][:160]), (o['code'], o['out'][:60], o['err'][:160], o['panic'])))
            if len(res['samples']) < 2: res['samples'].append({'input_bytes': repr(w), 'exit': o['code'], 'stderr': o['err'][:100]})
            if o['viol']:
                wv = bytes(o['viol'].get('wit', o['wit']))
                n2 = F.native_run(binary, wv, wd)
                a = o['viol']['aspect']
                conf = (a == 'panic' and (n2[0] == 101 or (isinstance(n2[0], int) and n2[0] < 0))) or (a == 'hang' and n2[0] == 'timeout') or (a == 'exit' and n2[0] not in (0, 103)) or \
                       (a == 'stdout' and n2[0] == 103 and n2[1] != b'') or (a == 'format' and n2[0] == 103 and not POS_RE.match(n2[2])) or \
                       (a == 'read-error' and not (n2[0] == 103 and n2[1] == b'' and b"couldn't read" in n2[2])) or \
                       (a == 'line-bound' and POS_RE.match(n2[2]) and int(POS_RE.match(n2[2]).group(1)) > wv.count(b'\n') + 2)
                if conf: res['violations'].append({'aspect': a, 'role': 'frontend:%s' % a, 'what': o['viol']['what'] + ' on input %r' % wv[:80], 'script': wv, 'ext': 'sd'})
                else: res['inconclusive'].append('front-end violation not reproduced natively: %r on %r' % (o['viol'], wv[:80]))
                continue
            # acceptance against the reference front end (witness level)
            try: txt = w.decode('utf-8')
            except UnicodeDecodeError: continue
            try: front.parse_prog(txt); ref = True
            except front.RefSyntaxError: ref = False
            except front.FrontUnspecified: res['silent'] += 1; continue
            except RecursionError: res['silent'] += 1; continue
            res['cases'] += 1
            if ref != bool(o['parsed']):
                res['violations'].append({'aspect': 'acceptance', 'role': 'frontend:acceptance', 'what': 'front end %s the text %r, the reference front end %s it (stderr %r)' % ('accepts' if o['parsed'] else 'rejects', w[:80], 'accepts' if ref else 'rejects', o['err'][:100]), 'script': w, 'ext': 'sd'})
    return {'name': name, 'path_fn': path_fn, 'post': post, 'timeout': 3000}

def sym_parts(n, ascii_only=False, alphabet=None):
    def f():
        cons = S.ASCII if ascii_only else None
        if alphabet is not None: cons = S.in_set(alphabet)
        return [('sym', 'b%d' % i, cons) for i in range(n)]
    return f

def mixed_parts(shape, small=False):
    """shape: string over {'a': one ASCII byte, '2': a 2-byte character, '3': a 3-byte character}"""
    import z3 as _z
    def f():
        parts = []; i = 0
        for ch in shape:
            if ch == 'a':
                parts.append(('sym', 'b%d' % i, S.in_set(list(b'a1_"#$ .(\\\n')) if small else S.ASCII)); i += 1
            elif ch == '2':
                parts.append(('sym', 'b%d' % i, lambda b: _z.And(_z.UGE(b, 0xC2), _z.ULE(b, 0xDF)))); parts.append(('sym', 'b%d' % (i + 1), lambda b: _z.And(_z.UGE(b, 0x80), _z.ULE(b, 0xBF)))); i += 2
            else:
                parts.append(('sym', 'b%d' % i, lambda b: _z.And(_z.UGE(b, 0xE1), _z.ULE(b, 0xEC)))); parts.append(('sym', 'b%d' % (i + 1), lambda b: _z.And(_z.UGE(b, 0x80), _z.ULE(b, 0xBF))))
                parts.append(('sym', 'b%d' % (i + 2), lambda b: _z.And(_z.UGE(b, 0x80), _z.ULE(b, 0xBF)))); i += 3
        return parts
    return f

def prefix_parts(prefix, add_sym):
    def f():
        return [prefix] + ([('sym', 'b0', S.ASCII)] if add_sym else [])
    return f

STACK_UNITS = {'blank-lines': (b'', b'\n', b'print(1)\n'), 'comment-lines': (b'', b'# c\n', b'print(1)\n'), 'semicolons': (b'', b';', b'print(1)\n'), 'spaces': (b'', b' ', b'print(1)\n'),
               'statements': (b'', b'x := 1\n', b''), 'string-chars': (b'x := "', b'a', b'"\n'), 'ident-chars': (b'x := a', b'a', b'\n'), 'comment-chars': (b'# ', b'c', b'\n'), 'digit-separators': (b'x := 1', b'_', b'\n'),
               'continuations': (b'x := 1', b' +\n 1', b'\n'), 'list-items': (b'x := [', b'1, ', b']\n'), 'terminators-after-op': (b'x := 1 +', b'\n', b' 2\n')}
def stack_job(kind):
    """the call depth of the front end must not grow with the length of flat (un-nested) input: the same unit repeated 40 / 80 / 160 times"""
    pre, unit, post_ = STACK_UNITS[kind]
    def path_fn(M):
        M.symvars = {}
        S.stop_after_parse(M)
        depths = []
        for k in (40, 80, 160):
            M.max_depth = 0; M.depth = 0
            try: H.run_cli(M, 't.sd', pre + unit * k + post_)
            except Panic as e: return {'kind': kind, 'panic': str(e)[:200], 'depths': depths}
            depths.append(M.max_depth)
        return {'kind': kind, 'panic': None, 'depths': depths}
    def post(rows, res, binary, wd):
        for r in rows:
            o = r['obs']; res['obligations'] += 1
            if o['panic'] or len(o['depths']) < 3: res['inconclusive'].append('stack-growth/%s: %r' % (kind, o)); continue
            d = o['depths']
            if d[0] == d[1] == d[2]: res['discharged'] += 1; res['replay_ok'] += 1; res['replayed'] += 1; continue
            # depth grows with the input length: confirm on the native binary with a long input
            big = pre + unit * 200000 + post_
            nat = F.native_run(binary, big, wd); res['replayed'] += 1
            if nat[0] not in (0, 103):
                res['replay_ok'] += 1
                res['violations'].append({'aspect': 'panic', 'role': 'frontend:stack-growth', 'what': 'call depth of the front end grows with the number of %s (%r at 40 / 80 / 160 units); 200000 units end the process with status %r' % (kind, d, nat[0]),
                                          'script': pre + unit * 3 + b'# ... the unit %r repeated 200000 times ...\n' % unit + post_, 'ext': 'sd'})
            else: res['inconclusive'].append('stack-growth/%s: call depth %r grows with the input but 200000 units run natively (status %r)' % (kind, d, nat[0]))
    return {'name': 'stack-%s' % kind, 'path_fn': path_fn, 'post': post, 'timeout': 600}

def layout_parts(n, tail):
    """n symbolic layout bytes (CR, LF, space, tab, `#`) and then a token that cannot start a statement"""
    def f(): return [('sym', 'b%d' % i, S.in_set(list(b'\r\n \t#'))) for i in range(n)] + [tail]
    return f

def source_constants(lo=8, hi=512):
    """integer constants that occur in the current source (comments stripped): lengths at which a slice, a truncation or a buffer may end"""
    import glob as _glob
    from mirsym import build
    ks = set()
    for f in _glob.glob(os.path.join(build.REPO, 'src', '**', '*'), recursive=True):
        if not f.endswith(('.rs', '.lalrpop')): continue
        src = re.sub(r'//[^\n]*', '', open(f, errors='replace').read())
        for m in re.finditer(r'(?<![\w.])(\d[\d_]*)(?:usize|u8|u32|u64|i64)?\b', src):
            try: v = int(m.group(1).replace('_', ''))
            except ValueError: continue
            if lo <= v <= hi: ks.add(v)
    return sorted(ks | {16, 32, 64})

def long_token_parts(kind, pad, width):
    """a token whose payload is `pad` ASCII bytes followed by one symbolic character of `width` bytes, in a position where it is the unexpected token"""
    import z3 as _z
    def f():
        if width == 2: mb = [('sym', 'b0', lambda b: _z.And(_z.UGE(b, 0xC2), _z.ULE(b, 0xDF))), ('sym', 'b1', lambda b: _z.And(_z.UGE(b, 0x80), _z.ULE(b, 0xBF)))]
        else: mb = [('sym', 'b0', lambda b: _z.And(_z.UGE(b, 0xE1), _z.ULE(b, 0xEC))), ('sym', 'b1', lambda b: _z.And(_z.UGE(b, 0x80), _z.ULE(b, 0xBF))), ('sym', 'b2', lambda b: _z.And(_z.UGE(b, 0x80), _z.ULE(b, 0xBF)))]
        if kind == 'string': return [b'x := 1 "' + b'a' * pad] + mb + [b'aa"\n']
        if kind == 'istring': return [b'x := 1 $"' + b'a' * pad] + mb + [b'aa"\n']
        if kind == 'ident': return [b'x := 1 ' + b'a' * pad] + mb + [b'aa\n']
        if kind == 'comment': return [b'x := 1 # ' + b'a' * pad] + mb + [b'aa\n)']
        raise ValueError(kind)
    return f

def run(tier, seed):
    c = common.Check('C03', tier, seed, 'symbolic execution of main (MIR) over symbolic source bytes (evaluation stubbed at eval_prog): panic-freedom, diagnostic form and line bound decided by z3 per path; acceptance compared with the reference front end on each path witness; native replay')
    c.functions |= {'main', 'run', 'Scanner::*', 'Lexer::* (all)', 'match_single/double/triple_symbol_token', '<Token as Clone/PartialEq>', 'lalrpop_util driver (model)', '__parse__Prog::__action/__goto/__reduce*/__actionN (generated)',
                    'render_parse_error', 'render_token', 'join_strings', 'CharIndices::next / str slicing (models with char-boundary panics)'}
    sjobs = []
    if tier == 'quick':
        sjobs = [make_job('bytes-1', sym_parts(1)), make_job('bytes-2', sym_parts(2)), make_job('punct-3', sym_parts(3, alphabet=PUNCT)),
                 make_job('ascii-mb2', mixed_parts('a2')), make_job('mb2-ascii', mixed_parts('2a')), make_job('a-mb3-a', mixed_parts('a3a', True)), make_job('aa-mb2-a', mixed_parts('aa2a', True))]
        nprefix = 110
    else:
        sjobs = [make_job('bytes-1', sym_parts(1)), make_job('bytes-2', sym_parts(2)), make_job('bytes-3', sym_parts(3)), make_job('punct-4', sym_parts(4, alphabet=PUNCT))]
        nprefix = 3000
    # runs of layout bytes before an offending token (the line bound for CR / LF / tab / comment mixes)
    nlay = 4 if tier == 'quick' else 5
    ljobs = [make_job('layout-%d-lexerr' % nlay, layout_parts(nlay, b'@')), make_job('layout-%d-parseerr' % nlay, layout_parts(nlay, b')'))]
    # bytes that are not UTF-8 anywhere in the file: the read error, before anything runs
    def any_bytes(n): return lambda: [('sym', 'b%d' % i, None) for i in range(n)]
    def tail_bytes(prefix, n, suffix): return lambda: [prefix] + [('sym', 'b%d' % i, lambda b: z3.UGE(b, 0x80)) for i in range(n)] + [suffix]
    ujobs = [make_job('anybytes-1', any_bytes(1)), make_job('anybytes-2', any_bytes(2)), make_job('nonutf8-mid-1', tail_bytes(b'print(1)\n# ', 1, b'\nprint(2)\n)\n')), make_job('nonutf8-mid-2', tail_bytes(b'print(1)\nx := "', 2, b'"\nprint(2)\n')),
             make_job('nonutf8-first-line', tail_bytes(b'# ', 1, b'\nprint(1)\n')), make_job('nonutf8-last', tail_bytes(b'print(1)\nprint(2)\n# ', 1, b''))]
    # long tokens: a multi-byte character placed at every length constant that occurs in the current source (a truncation, a buffer or a
    # slice bound of the front end would sit there), as the unexpected token of a syntax error
    ks = source_constants()
    tjobs = []
    for k in ks:
        for d in ((-2, -1, 0) if tier == 'quick' else (-3, -2, -1, 0, 1)):
            for w in (2, 3):
                for kind in (('string', 'ident') if tier == 'quick' else ('string', 'istring', 'ident', 'comment')):
                    if k + d >= 0: tjobs.append(make_job('longtok-%s-%d%+d-w%d' % (kind, k, d, w), long_token_parts(kind, k + d, w)))
    tests = H.load_tests()
    rng = random.Random(seed * 7919 + 13)
    pjobs = []
    seen = set()
    while len(pjobs) < nprefix:
        t = rng.choice(tests); src = t['src'].encode()
        if not src: continue
        k = rng.randint(0, len(src))
        key = (t['file'], t['name'], k)
        if key in seen: continue
        seen.add(key)
        pjobs.append(make_job('prefix-%s-%s-%d' % (t['file'], t['name'], k), prefix_parts(src[:k], True)))
    # unterminated constructs
    for i, s in enumerate([b'x := "abc', b'x := "a\\', b'x := "a\\x', b'x := "a\\x4', b'x := $"a${', b'x := $"a${b', b'x := $"a$', b'x := $', b'f(', b'[1, ', b'{"a": ', b'fn f(', b'if true {', b'x := 1 +', b'# c', b'x := 99999999999999999999', b'x .', b'x ->', b'x[1:', b'&', b'a |', b'!']):
        pjobs.append(make_job('unterminated-%d' % i, prefix_parts(s, True)))
        pjobs.append(make_job('unterminated-%d-exact' % i, prefix_parts(s, False)))
    c.bounds = {'symbolic_inputs': 'all valid-UTF-8 inputs of <= 2 bytes, all strings of 3 bytes over a 31-character punctuation alphabet, an ASCII byte before / after any 2-byte character, 1-2 bytes of an 11-character alphabet around any 2- / 3-byte character (quick); <= 3 bytes UTF-8 and 4 bytes punctuation (thorough)',
                'truncations': '%d (script, offset) pairs sampled from the %d repository test scripts (VERIF_SEED), each followed by one symbolic ASCII byte; 22 unterminated constructs' % (nprefix, len(tests))}
    c.outside = ['inputs longer than the stated sizes that are not such truncations', 'token-level mutations (not built)']
    big = [j for j in sjobs if j['name'] in ('punct-3', 'punct-4', 'bytes-3', 'bytes-2')]; small = [j for j in sjobs if j not in big]
    for j in big: c.run_jobs('symbolic-bytes', [j], par_jobs=1, par_paths=16, timeout=3000)
    c.run_jobs('symbolic-bytes', small, par_jobs=len(small), par_paths=max(2, 16 // max(1, len(small))), timeout=3000)
    c.run_jobs('stack-growth', [stack_job(k) for k in STACK_UNITS], par_jobs=12, par_paths=1)
    c.bounds['stack_growth'] = 'call depth of the front end on %d kinds of flat input (%s) at 40 / 80 / 160 repetitions must be constant; a growth is confirmed natively with 200000 repetitions' % (len(STACK_UNITS), ', '.join(STACK_UNITS))
    c.run_jobs('non-utf8', ujobs, par_jobs=6, par_paths=2, timeout=3000)
    c.bounds['non_utf8'] = 'all inputs of <= 2 arbitrary bytes; 1-2 arbitrary bytes >= 0x80 inside a comment / a string literal on the first, a middle and the last line of a script'
    c.run_jobs('layout-runs', ljobs, par_jobs=2, par_paths=8, timeout=3000)
    c.run_jobs('long-tokens', tjobs, par_jobs=16, par_paths=1)
    c.bounds['layout_runs'] = 'every string of %d bytes over {CR, LF, space, tab, #} followed by `@` (lexical error) or `)` (syntax error)' % nlay
    c.bounds['long_tokens'] = '%d inputs: string / identifier%s tokens as the unexpected token, whose payload is k-2..k ASCII bytes and then any 2- or 3-byte character, for k in %s (the integer constants of the current source plus 16, 32, 64)' % (len(tjobs), '' if tier == 'quick' else ' / interpolated string / comment', ks)
    c.run_jobs('truncations', pjobs, par_jobs=12, par_paths=1)
    return c.finish()
