# C17 -- a failure is one well-formed located diagnostic after the output so far
from . import common
from families import errors

def run(tier, seed):
    c = common.Check('C17', tier, seed, 'symbolic execution of main (MIR): error kind, syntactic position and call depth chosen by symbolic selectors, decided by z3; diagnostic grammar + stack trace against the lock-step reference call stack; native replay')
    c.functions |= {'main', 'eval_err_to_stacktrace', '<Error as Display>::fmt', 'render_parse_error', 'ResultExt::context (model from error.rs variant declarations)', 'every new_loc_err closure', 'eval_call', 'eval_stmt', 'eval_expr', 'bind_next'}
    ts = errors.templates(tier, seed)
    c.bounds = {'error_kinds': len(errors.KINDS), 'positions': 29, 'call_depth': '0, 2, 5 (quick) / 0..5 (thorough)', 'representative kinds at positions': 7}
    c.outside = ['lexical / parse errors (C03, C18)', 'error kinds not constructible from the listed constructs']
    c.run_family('errors', ts, ('exit', 'stdout', 'stderr-empty', 'format', 'message', 'stack', 'panic', 'hang'), errors.role, par_templates=6, par_paths=3)
    # failures the reference does not predict (strings that are not UTF-8 text used as slot values, keys, printed): whatever is reported must still be one located diagnostic
    from families import seq
    bs = [t for t in seq.templates(tier, seed) if t['name'].startswith('mb-byte-pieces')]
    c.run_family('byte-strings', bs, ('exit', 'stdout', 'stderr-empty', 'format', 'stack', 'panic', 'hang'), seq.role)
    return c.finish()
