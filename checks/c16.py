# C16 -- no implicit conversions: out-of-domain operands are type errors naming the types
from . import common
from families import types

def run(tier, seed):
    c = common.Check('C16', tier, seed, 'symbolic execution of main (MIR): operand kinds chosen by symbolic selectors (one run per operator covers the 8x8 kind matrix), int/bool leaves symbolic, decided by z3; lock-step reference acceptance table; native replay')
    c.functions |= {'main', 'apply_binary_operation', 'eq', 'ref_eq', 'eval_expr_to_bool', 'eval_expr_to_i64', 'eval_expr_to_index', 'eval_expr_to_str', 'eval_list_items', 'value_to_pairs',
                    'eval_call', 'eval_expr (Prop, Index, RangeIndex, Object, Range)', 'bind_next', 'binary_operation_assign', 'error::render_type', 'error::op_symbol', '<Error as Display>::fmt',
                    'type_functions::any_type', 'type_functions::render_type', 'interpolate_string'}
    ts = types.templates(tier, seed)
    c.bounds = {'matrix': '15 binary operators x 8 x 8 kinds (plain), 5 operators x 8 x 8 (op-assign on variable and element targets), 27 typed contexts x 8 kinds: exhaustive over kinds',
                'leaves': 'ints and bools symbolic; strings/lists/objects one fixed representative per kind'}
    c.outside = ['containers with more than one element as operands (covered for == by C10)']
    c.run_family('types', ts, ('exit', 'stdout', 'stderr-empty', 'message', 'panic', 'hang'), types.role, par_templates=8, par_paths=2)
    return c.finish()
