# C08 -- expressions group by fixed operator tiers, left to right; parens override
# The real front end (Lexer MIR -> LR driver model -> generated __action/__goto/__reduce*/__actionN MIR) parses
# `operand (op operand)^k`; each operator is chosen by a symbolic selector (the run forks over all 16 binary-operator tokens per
# position).  The resulting AST is compared with the tree the reference parser builds from the tier rule of the statement, and with
# the ASTs of (a) every single-group parenthesisation and (b) the minimally parenthesised print-out of the tree.
import re, itertools
import z3
from . import common
from mirsym import harness as H, models, family as F
from mirsym.core import *
from ref import front

OPS = ['+', '-', '*', '/', '%', '&&', '||', '==', '!=', '>', '>=', '<', '<=', '===', '!==', '..']
TIER = {'..': 0, '&&': 1, '||': 1, '+': 2, '-': 2}
for o in OPS: TIER.setdefault(o, 3)
OPERAND_SETS = [
    ['a', '1', 'b', '2', 'c'],
    ['-2', 'f(1)', 'a[0]', 'o.k', 'a->len'],
    ['(1 + 2)', 'a[0:1]', '-3', 'g(a, 1 + 2)', '[1, 2][0]'],
    ['f(1)(2)', 'o.k.j', 'a[0][1]', 'x', '(a)'],
    ['-7->type()', '-2[0]', '-3.k', '-5(1)', '-1[0:1]'],
    ['fn () { return 1; }()', 'fn (v) { return v; }', 'fn () { return 2; }->type()', '[fn () { return 3; }][0]()', '{"k": 1}.k'],
    ['a', '5', '3', 'b', '2'],          # adjacent literals after a name: a rewrite of literal sub-terms must not regroup
]

def s_of(n): return bytes(b.v for b in n.d['b']).decode('utf-8', 'replace')
def canon_real(e, with_loc=True):
    """(RawExpr, loc) tuple in the mirsym heap -> canonical tuple"""
    raw = e.fields[0] if e.ty == 'tuple' else e
    k = ENUMS['RawExpr'][raw.variant]; f = raw.fields
    ub = lambda b: b.d['slot'][0]
    if k == 'Null': return ('null',)
    if k == 'Bool': return ('bool', f[0])
    if k == 'Int': return ('int', f[0].v)
    if k == 'Str': return ('str', s_of(f[0]), f[1].variant == 1)
    if k == 'Var': return ('var', s_of(f[0]))
    if k == 'BinaryOp':
        loc = (f[1].fields[0].v, f[1].fields[1].v)
        return ('bin', ENUMS['BinaryOp'][f[0].variant]) + ((loc,) if with_loc else ()) + (canon_real(ub(f[2]), with_loc), canon_real(ub(f[3]), with_loc))
    if k == 'Range': return ('range', canon_real(ub(f[0]), with_loc), canon_real(ub(f[1]), with_loc))
    if k == 'List': return ('list', tuple((canon_real(it.fields[0], with_loc), bool(it.fields[1])) for it in f[0].d['b']), bool(f[1]))
    if k == 'Call': return ('call', canon_real(ub(f[0]), with_loc), tuple((canon_real(it.fields[0], with_loc), bool(it.fields[1])) for it in f[1].d['b']))
    if k == 'Index': return ('index', canon_real(ub(f[0]), with_loc), canon_real(ub(f[1]), with_loc))
    if k == 'RangeIndex':
        o = lambda x: None if x.variant == 0 else canon_real(ub(x.fields[0]), with_loc)
        return ('rangeindex', canon_real(ub(f[0]), with_loc), o(f[1]), o(f[2]))
    if k == 'Prop': return ('prop', canon_real(ub(f[0]), with_loc), s_of(f[1]), bool(f[2]))
    if k == 'Func': return ('fn', len(f[0].d['b']), bool(f[1]), len(f[2].d['b']))
    if k == 'Object':
        ps = []
        for p in f[0].d['b']:
            pk = ENUMS['PropItem'][p.variant]
            if pk == 'Pair': ps.append(('pair', canon_real(p.fields[0], with_loc), canon_real(p.fields[1], with_loc)))
            else: ps.append(('single', canon_real(p.fields[0], with_loc), bool(p.fields[1]), bool(p.fields[2])))
        return ('object', tuple(ps))
    raise Unsupported('canon_real ' + k)
def canon_ref(n, with_loc=True):
    k = n.kind
    if k == 'null': return ('null',)
    if k == 'bool': return ('bool', n.v)
    if k == 'int': return ('int', n.v)
    if k == 'str': return ('str', n.v.decode('utf-8', 'replace'), n.slots is not None)
    if k == 'var': return ('var', n.name)
    if k == 'bin': return ('bin', n.op) + ((tuple(n.op_loc),) if with_loc else ()) + (canon_ref(n.lhs, with_loc), canon_ref(n.rhs, with_loc))
    if k == 'range': return ('range', canon_ref(n.start, with_loc), canon_ref(n.end, with_loc))
    if k == 'list': return ('list', tuple((canon_ref(e, with_loc), sp) for e, sp in n.items), n.collect)
    if k == 'call': return ('call', canon_ref(n.func, with_loc), tuple((canon_ref(e, with_loc), sp) for e, sp in n.args))
    if k == 'index': return ('index', canon_ref(n.expr, with_loc), canon_ref(n.index, with_loc))
    if k == 'rangeindex': return ('rangeindex', canon_ref(n.expr, with_loc), None if n.start is None else canon_ref(n.start, with_loc), None if n.end is None else canon_ref(n.end, with_loc))
    if k == 'prop': return ('prop', canon_ref(n.expr, with_loc), n.name, n.type_prop)
    if k == 'fn': return ('fn', len(n.params), n.collect, len(n.body))
    if k == 'object':
        ps = []
        for p in n.props:
            if p[0] == 'pair': ps.append(('pair', canon_ref(p[1], with_loc), canon_ref(p[2], with_loc)))
            else: ps.append(('single', canon_ref(p[1], with_loc), p[2], p[3]))
        return ('object', tuple(ps))
    raise Unsupported('canon_ref ' + k)

def parse_real(M, text):
    """real ExprParser on text; returns ('ok', expr) | ('err',)"""
    from mirsym import core as _core
    LN = _core.find_by_sig(M, *_core.LEXER_NEW_SIG)
    lx = M.call(LN, [Slice(models.elems(text), 0, len(text.encode()), True)])
    for pat, f in ms_patterns():
        if pat.pattern == r'^(Prog|Expr)Parser::parse$':
            r = f(M, [Native('ZST', name='Parser'), Ref([lx], 0)], 'ExprParser::parse')
            return ('ok', r.fields[0]) if r.variant == 0 else ('err',)
    raise Unsupported('parser model not found')
def ms_patterns():
    from mirsym import core
    return core.MODEL_PATTERNS

def unparse_min(t):
    """canonical tuple (no locs) -> text with only the necessary parentheses (per the tier rule)"""
    SYM = {'Sum': '+', 'Sub': '-', 'Mul': '*', 'Div': '/', 'Mod': '%', 'And': '&&', 'Or': '||', 'Eq': '==', 'Ne': '!=', 'Gt': '>', 'Gte': '>=', 'Lt': '<', 'Lte': '<=', 'RefEq': '===', 'RefNe': '!=='}
    def tier(x):
        if x[0] == 'range': return 0
        if x[0] == 'bin': return TIER[SYM[x[1]]]
        return 9
    def go(x):
        k = x[0]
        if k == 'int': return str(x[1]) if x[1] >= 0 else '-' + str(-x[1])
        if k == 'var': return x[1]
        if k == 'null': return 'null'
        if k == 'bool': return 'true' if x[1] else 'false'
        if k == 'str': raise Unsupported('unparse str')
        if k in ('bin', 'range'):
            l, r = (x[2], x[3]) if k == 'bin' else (x[1], x[2]); sym = SYM[x[1]] if k == 'bin' else '..'
            tl = go(l); tr = go(r); me = tier(x)
            if tier(l) < me: tl = '(' + tl + ')'
            if tier(r) <= me: tr = '(' + tr + ')'        # left-associative: an equal-tier right operand needs parentheses
            return '%s %s %s' % (tl, sym, tr)
        def post(y):
            s = go(y)
            return '(' + s + ')' if tier(y) < 9 or (y[0] == 'int' and y[1] < 0 and False) else s
        if k == 'call': return post(x[1]) + '(' + ', '.join(go(a) + ('..' if sp else '') for a, sp in x[2]) + ')'
        if k == 'index': return post(x[1]) + '[' + go(x[2]) + ']'
        if k == 'rangeindex': return post(x[1]) + '[' + ('' if x[2] is None else go(x[2])) + ':' + ('' if x[3] is None else go(x[3])) + ']'
        if k == 'prop': return post(x[1]) + ('->' if x[3] else '.') + x[2]
        if k == 'list': return '[' + ', '.join(go(a) + ('..' if sp else '') for a, sp in x[1]) + ']'
        raise Unsupported('unparse ' + k)
    return go(t)

def paren_variants(text_tokens, ref_tree):
    """texts in which one operator group of the reference tree is wrapped in parentheses. text_tokens: operands and operators
    alternating; groups are contiguous spans of it."""
    spans = []
    def span(n, lo):
        # returns (first token index, last token index) of subtree n, consuming operands in order
        if n.kind in ('bin', 'range'):
            l = n.lhs if n.kind == 'bin' else n.start; r = n.rhs if n.kind == 'bin' else n.end
            a, mid = span(l, lo); _, b = span(r, mid + 2)
            spans.append((a, b)); return a, b
        return lo, lo
    span(ref_tree, 0)
    out = []
    for a, b in spans:
        if a == 0 and b == len(text_tokens) - 1: continue
        out.append(' '.join(text_tokens[:a] + ['(' + ' '.join(text_tokens[a:b + 1]) + ')'] + text_tokens[b + 1:]))
    return out

def split_ops(text):
    """the operand / operator token list of a generated expression text (operands may contain spaces inside brackets)"""
    out = []; depth = 0; cur = ''
    for part in text.split(' '):
        if depth == 0 and part in OPS and cur == '': out.append(part); continue
        cur = (cur + ' ' + part) if cur else part
        depth += sum(part.count(x) for x in '([{') - sum(part.count(x) for x in ')]}')
        if depth == 0: out.append(cur); cur = ''
    return out

def seq_job(k, operands, laws, ops=None):
    ops = ops or OPS
    name = 'ops-%d-%s-%s' % (k, re.sub(r'\W+', '_', operands[0]), re.sub(r'\W+', '_', operands[1])[:6])
    def path_fn(M):
        M.symvars = {}
        chosen = []
        for i in range(k):
            sel = z3.BitVec('op%d' % i, 8); M.symvars['op%d' % i] = sel
            M.assume(z3.ULT(sel, len(ops)))
            for j in range(len(ops)):
                if M.branch(sel == j): chosen.append(ops[j]); break
        toks = [operands[0]]
        for i, o in enumerate(chosen): toks += [o, operands[i + 1]]
        text = ' '.join(toks)
        obs = {'text': text, 'viol': None, 'checks': 0}
        try: ref = front.parse_expr(text)
        except front.RefSyntaxError as e: ref = None
        try: real = parse_real(M, text)
        except Panic as e:
            obs['viol'] = 'parser panic: %s' % str(e)[:200]; return obs
        obs['checks'] += 1
        if ref is None or real[0] == 'err':
            if (ref is None) != (real[0] == 'err'): obs['viol'] = 'accepted by %s only' % ('the reference' if real[0] == 'err' else 'the parser')
            return obs
        cr = canon_real(real[1]); cf = canon_ref(ref)
        if cr != cf: obs['viol'] = 'grouping / operator / operator position differs: parser %r, tier rule %r' % (cr, cf); return obs
        if laws:
            base = canon_real(real[1], False)
            skel = front.parse_expr(' '.join(('p%d' % (i // 2)) if i % 2 == 0 else t for i, t in enumerate(toks)))    # operands as atoms
            for t2 in paren_variants(toks, skel):
                obs['checks'] += 1
                r2 = parse_real(M, t2)
                if r2[0] == 'err' or canon_real(r2[1], False) != base: obs['viol'] = 'redundant parentheses change the tree: %r' % t2; obs['variant'] = t2; return obs
            obs['checks'] += 1
            try: t3 = unparse_min(base)
            except Unsupported: t3 = None           # (operands the printer does not cover: function / object / string literals)
            if t3 is not None:
                r3 = parse_real(M, t3)
                if r3[0] == 'err' or canon_real(r3[1], False) != base: obs['viol'] = 'minimal print-out %r does not parse back to the same tree' % t3; obs['variant'] = t3; return obs
        return obs
    def post(rows, res, binary, wd):
        for r in rows:
            o = r['obs']; res['obligations'] += o['checks']; res['discharged'] += o['checks'] - (1 if o['viol'] else 0)
            if len(res['samples']) < 2: res['samples'].append({'expression': o['text'], 'comparisons': o['checks']})
            if not o['viol'] and (k <= 2 or hash(o['text']) % 8 == 0):
                # the implementation, natively, against the tier rule: evaluate the expression with integer-valued names
                from ref import sem
                script = 'a := [7, [1]]\nb := 3\nc := 2\nx := 5\no := {"k": {"j": 4}}\nfn f(v) {\n    return fn (w) {\n        return v + w\n    }\n}\nfn g(p, q) {\n    return p + q\n}\nprint(%s)\n' % o['text']
                nat = F.native_run(binary, script, wd); ref = sem.run_concrete(script); res['replayed'] += 1
                if ref[0] == 'unspecified' or (nat[0] == (0 if ref[0] == 'ok' else 103) and nat[1] == ref[1]): res['replay_ok'] += 1
                else: res['inconclusive'].append('native evaluation of %r disagrees with the reference although the trees agree: %r vs %r' % (o['text'], (nat[0], nat[1][:60], nat[2][:120]), (ref[0], ref[1][:60])))
            if o['viol'] and o['viol'].startswith('accepted by'):
                # acceptance differs: a syntax error prevents every statement from running, so a leading print tells the two apart natively
                from ref import front as _front
                script0 = 'print(12345)\nn := null\nprint(%s)\n' % o['text']
                nat0 = F.native_run(binary, script0, wd); res['replayed'] += 1
                try: _front.parse_prog(script0); ref_accepts = True
                except _front.RefSyntaxError: ref_accepts = False
                except _front.FrontUnspecified: ref_accepts = None
                nat_accepts = nat0[1].startswith(b'12345')
                if ref_accepts is not None and ref_accepts != nat_accepts:
                    res['replay_ok'] += 1
                    res['violations'].append({'aspect': 'grouping', 'role': 'acceptance', 'what': '%s: %s | native: %r' % (o['text'], o['viol'], (nat0[0], (nat0[1] + nat0[2])[:120])), 'script': script0, 'ext': 'sd'})
                else: res['inconclusive'].append('%s: %s (not reproduced natively)' % (o['text'], o['viol']))
                continue
            if o['viol'] and o.get('variant'):
                # the two spellings must be the same program: run both natively under several bindings of the names; any difference
                # (acceptance, output, exit status, message) confirms the violation
                import re as _re
                heads = ['a := 7\nb := 3\nc := 2\n', 'a := [7, [1]]\nb := 3\nc := 2\nx := 5\no := {"k": {"j": 4}}\nfn f(v) {\n    return fn (w) {\n        return v + w\n    }\n}\nfn g(p, q) {\n    return p + q\n}\n', 'a := null\nb := null\nc := null\n']
                confirmed = None
                for hd in heads:
                    s1 = 'print(12345)\n' + hd + 'print(%s)\n' % o['text']; s2 = 'print(12345)\n' + hd + 'print(%s)\n' % o['variant']
                    n1 = F.native_run(binary, s1, wd); n2 = F.native_run(binary, s2, wd); res['replayed'] += 1
                    norm = lambda n: (n[0], n[1], _re.sub(rb':\d+:\d+:', b':L:C:', n[2]))
                    if norm(n1) != norm(n2): confirmed = (s2, n1, n2); break
                if confirmed:
                    res['replay_ok'] += 1
                    res['violations'].append({'aspect': 'grouping', 'role': 'parentheses', 'what': '%s: %s | native: %r without the parentheses, %r with them' % (o['text'], o['viol'], (confirmed[1][0], (confirmed[1][1] + confirmed[1][2])[:80]), (confirmed[2][0], (confirmed[2][1] + confirmed[2][2])[:80])), 'script': confirmed[0], 'ext': 'sd'})
                    continue
            if o['viol']:
                # native confirmation: evaluate the expression with integer-valued names so that a different grouping shows
                script = 'a := 7\nb := 3\nc := 2\nprint(%s)\n' % o['text']
                from ref import sem
                nat = F.native_run(binary, script, wd); ref = sem.run_concrete(script)
                res['replayed'] += 1
                exp_code = 0 if ref[0] == 'ok' else 103
                if ref[0] != 'unspecified' and (nat[0] != exp_code or (ref[0] == 'ok' and nat[1] != ref[1])):
                    res['replay_ok'] += 1
                    res['violations'].append({'aspect': 'grouping', 'role': 'grouping', 'what': '%s: %s | native %r, reference %r' % (o['text'], o['viol'], (nat[0], (nat[1] + nat[2])[:100]), (ref[0], ref[1][:60])), 'script': script, 'ext': 'sd'})
                else:
                    # second attempt: all operands null -- every operator fails on its operands, so the diagnostic names the operator that is
                    # applied FIRST (the innermost-leftmost group) and its position, which differs between most groupings
                    toks = o['text'].split(' ')
                    script2 = 'n := null\nprint(' + ' '.join(t if t in OPS else 'n' for t in split_ops(o['text'])) + ')\n'
                    nat2 = F.native_run(binary, script2, wd); ref2 = sem.run_concrete(script2)
                    probs = F.check_diagnostic(z3.Solver(), [nat2[2]], ref2[2], ('position', 'message')) if (ref2[0] == 'error' and nat2[0] == 103) else []
                    if probs:
                        res['replay_ok'] += 1
                        res['violations'].append({'aspect': 'grouping', 'role': 'grouping', 'what': '%s: %s | with null operands the first operator applied is reported at %r, the tier rule applies another first: %s' % (o['text'], o['viol'], nat2[2][:80], probs[0][1]), 'script': script2, 'ext': 'sd'})
                    else:
                        res['inconclusive'].append('%s: %s (AST-level difference; neither sample evaluation distinguishes the trees natively)' % (o['text'], o['viol']))
    return {'name': name, 'path_fn': path_fn, 'post': post, 'timeout': 3000}

def run(tier, seed):
    c = common.Check('C08', tier, seed, 'symbolic execution of the real front end (Lexer MIR, LR driver model, generated parser actions MIR) on operand/operator sequences whose operators are symbolic selectors (forking over all 16 binary-operator tokens per position); AST compared with the tier-rule reference parser; parenthesisation laws')
    c.functions |= {'Lexer::*', 'lalrpop_util driver (model)', '__parse__Expr::__action', '__parse__Expr::__goto', '__parse__Expr::__reduce*', '__parse__Expr::__token_to_integer', '__parse__Expr::__token_to_symbol', 'parser::__action* (grammar actions)', 'ExprParser::parse'}
    jobs = []
    if tier == 'quick':
        jobs += [seq_job(1, s, True) for s in OPERAND_SETS[:6]] + [seq_job(2, s, True) for s in OPERAND_SETS[:2]] + [seq_job(2, s, False, ['+', '*', '==', '&&', '..', '-']) for s in OPERAND_SETS[4:]] + [seq_job(3, OPERAND_SETS[0], False, ['+', '*', '==', '<', '&&', '||', '..', '-']), seq_job(2, OPERAND_SETS[6], True, ['+', '-', '*', '/', '%', '==', '<', '..']), seq_job(3, OPERAND_SETS[6], False, ['+', '-', '*', '/'])]
    else:
        sub8 = ['+', '*', '==', '<', '&&', '||', '..', '-']
        jobs += [seq_job(1, s, True) for s in OPERAND_SETS] + [seq_job(2, s, True) for s in OPERAND_SETS] + [seq_job(3, OPERAND_SETS[0], True), seq_job(3, OPERAND_SETS[1], False, sub8 + ['%', '===', '>=', '/']), seq_job(4, OPERAND_SETS[0], False, sub8)]
    c.bounds = {'operators': 'all 16 binary-operator tokens at every position (exhaustive)', 'sequence_length': 'k <= 2 operators over all 16 tokens, k = 3 over 8 tokens covering every tier (quick); k <= 3 over all 16 (one operand set) / 12 tokens, k = 4 over 8 tokens (thorough)', 'operands': '4 operand sets: literals, negative literals, names, calls, index, range-index, .name, ->name, parenthesised, chained postfix'}
    c.outside = ['longer operator sequences', 'random deep trees', 'operands beyond the listed forms']
    c.run_jobs('operator-sequences', jobs, par_jobs=len(jobs), par_paths=max(2, 16 // max(1, len(jobs) // 2)), timeout=3000)
    return c.finish()
