# Engine self-validation: every script of the repository's own test-suite is pushed through mirsym's full pipeline
# (main -> lexer -> LR driver model -> generated actions -> evaluator -> print / error rendering -> exit) with no symbolic input;
# stdout / stderr / exit status must equal the expected sections of the test files, and the reference semantics (ref/) must agree too.
import os, sys, re, time, json, multiprocessing, concurrent.futures
from mirsym import build, harness as H, explore as X
from ref import sem

_M = None; _TESTS = None
def _one(i):
    t = _TESTS[i]; full = t['file'] + '::' + t['name']
    path = '%s/%s.sd' % (t['file'], t['name'])
    def pf(M):
        code, so, se = H.run_cli(M, path, t['src'].encode())
        return {'code': code, 'out': H.conc(so).decode('utf-8', 'replace'), 'err': H.conc(se).decode('utf-8', 'replace')}
    rows, st = X.explore(_M, pf, par=1, timeout=120, tag='self')
    ok = bool(rows) and all(r['status'] == 'ok' and r['obs']['code'] == t['code'] and r['obs']['out'] == t['stdout'] and (not t['x'] or r['obs']['err'] == t['stderr']) for r in rows)
    r = sem.run_concrete(t['src'])
    ref_ok = r[0] == 'unspecified' or ((0 if r[0] == 'ok' else 103) == t['code'] and r[1].decode('utf-8', 'replace') == t['stdout'])
    return full, ok, len(rows), ref_ok, (rows[0] if rows and not ok else None)

def run(pat='', quiet=False):
    global _M, _TESTS
    t0 = time.time()
    _M = H.make_machine()
    tests = [t for t in H.load_tests() if not pat or re.search(pat, t['file'] + '::' + t['name'])]
    _TESTS = tests
    ctx = multiprocessing.get_context('fork')
    bad = []; npaths = 0; refbad = []
    with concurrent.futures.ProcessPoolExecutor(max_workers=16, mp_context=ctx) as ex:
        for full, ok, n, ref_ok, row in ex.map(_one, range(len(tests)), chunksize=4):
            npaths += n
            if not ok: bad.append((full, row))
            if not ref_ok: refbad.append(full)
    for full, row in bad[:20]: print('SELFTEST-FAIL', full, json.dumps(row)[:400])
    for full in refbad[:20]: print('REFERENCE-DISAGREES', full)
    print('selftest: %d scripts, %d paths, engine failures %d, reference disagreements %d, %.1fs' % (len(tests), npaths, len(bad), len(refbad), time.time() - t0))
    return 0 if not bad and not refbad else 2

def setup():
    t0 = time.time()
    try:
        print('mir dump:', build.mir_dump()); print('native:', build.native_bin())
    except build.BuildError as e:
        print('setup: build failed:', e); return 2
    rc = run()
    print('setup done in %.1fs' % (time.time() - t0))
    return rc
