# C07 -- control flow: branches, loops, break/continue/return reach exactly their target
from . import common
from families import control

def run(tier, seed):
    c = common.Check('C07', tier, seed, 'symbolic execution of main (MIR): symbolic conditions and jump-placement selectors, decided by z3; lock-step reference semantics; native replay')
    c.functions |= {'main', 'run', 'eval_prog', 'eval_stmts', 'eval_stmts_with_scope_stack', 'eval_stmts_in_new_scope', 'eval_stmt', 'value_to_pairs', 'eval_call', 'eval_expr',
                    'eval_expr_to_bool', 'bind::bind', 'bind_list', 'Lexer::next', '__parse__Prog::__reduce*', 'builtins::fns::print'}
    ts = control.templates(tier, seed)
    c.bounds = {'nesting_depth': 2 if tier == 'quick' else 3, 'templates': len(ts), 'loop_iterations': '<= 2 per loop', 'selector': 'break / continue / return / nothing at the innermost position',
                'conditions': 'every if-condition a free boolean'}
    c.outside = ['nesting deeper than the stated depth', 'loops with more than 2 iterations', 'jumps at positions other than the innermost one']
    c.run_family('control', ts, ('exit', 'stdout', 'stderr-empty', 'panic', 'hang'), control.role)
    c.run_random(('exit', 'stdout', 'stderr-empty', 'panic', 'hang'))
    return c.finish()
