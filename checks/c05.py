# C05 -- containers are shared by reference; building operations return fresh ones
from . import common
from families import heap

def run(tier, seed):
    c = common.Check('C05', tier, seed, 'symbolic execution of main (MIR): enumerated alias set-ups, mutation per history step chosen by a symbolic selector, element values symbolic, decided by z3; lock-step reference heap with cell identities; native replay')
    c.functions |= {'main', 'value::new_list / new_object (Arc<Mutex<..>>)', 'eval_expr (Var, Index, RangeIndex, List, Object, Call)', 'bind_next (Index, Prop, RangeIndex)', 'bind_range_index', 'binary_operation_assign',
                    'apply_binary_operation (Sum, RefEq)', 'eval_list_items', 'bind_list', 'bind_object', 'ScopeStack::get / assign', 'Arc / Mutex models'}
    ts = heap.templates(tier, seed)
    c.bounds = {'setups': '12 list + 5 object alias / fresh-copy shapes over 3 variables', 'history_length': '1-2 mutations (quick) / 3 (thorough), 8-9 mutation kinds per step', 'values': 'symbolic i64'}
    c.outside = ['longer histories', 'heap shapes beyond the enumerated set-ups']
    c.run_family('heap', ts, ('exit', 'stdout', 'stderr-empty', 'panic', 'hang'), heap.role)
    c.run_random(('exit', 'stdout', 'stderr-empty', 'panic', 'hang'))
    return c.finish()
