# Shared machinery of the property checks: setup (MIR dump + native binary of /repo's working tree), running template families
# in parallel, classifying violations against known_findings.json, replay files, evidence, exit codes.
import os, sys, json, time, hashlib, random, traceback, concurrent.futures, multiprocessing
sys.path.insert(0, os.path.dirname(os.path.dirname(os.path.abspath(__file__))))
from mirsym import build, harness as H, family as F, template as T

VERIF = os.path.dirname(os.path.dirname(os.path.abspath(__file__)))
TMP = os.path.join(build.CACHE, 'tmp')

def load_known():
    p = os.path.join(VERIF, 'known_findings.json')
    if not os.path.exists(p): return []
    return json.load(open(p))['findings']

class Check:
    def __init__(self, prop_id, tier, seed, technique):
        self.id = prop_id; self.tier = tier; self.seed = seed; self.technique = technique
        self.t0 = time.time()
        self.rng = random.Random(seed)
        self.states = 0; self.transitions = 0; self.replayed = 0; self.replay_ok = 0
        self.queries = 0; self.solver_s = 0.0
        self.samples = []; self.violations = []; self.inconclusive = []
        self.functions = set(); self.bounds = {}; self.assumptions = []; self.outside = []
        self.parts = []          # per sub-check summaries
        self.obligations = 0; self.discharged = 0
        self.silent = 0
        os.makedirs(TMP, exist_ok=True)
        os.environ.setdefault('VERIF_TMP', TMP)
        self.mir_path, mir_s, mir_cached = build.mir_dump()
        self.binary, bin_s, bin_cached = build.native_bin()
        self.build_info = {'mir_dump_s': round(mir_s, 1), 'mir_cached': mir_cached, 'native_build_s': round(bin_s, 1), 'native_cached': bin_cached,
                           'source_hash': build.src_hash()}
        self.M = H.make_machine(self.mir_path)

    # ------------------------------------------------------------ families
    def run_family(self, name, templates, aspects, role_fn=None, par_templates=8, par_paths=2, timeout=600):
        """templates: list of {'name','src',['assume']}; runs them through main symbolically with the lock-step reference"""
        t0 = time.time()
        results = []
        workdirs = [os.path.join(TMP, 'replay-%s-%d-%d' % (self.id, os.getpid(), i)) for i in range(len(templates))]
        if par_templates <= 1 or len(templates) <= 1:
            for t, wd in zip(templates, workdirs): results.append(_run_one(self.M, t, aspects, self.binary, wd, max(par_paths, 8), timeout))
        else:
            global _G
            _G = (self.M, aspects, self.binary, timeout, par_paths, templates)
            ctx = multiprocessing.get_context('fork')
            with concurrent.futures.ProcessPoolExecutor(max_workers=par_templates, mp_context=ctx) as ex:
                futs = [ex.submit(_worker, i, wd) for i, wd in enumerate(workdirs)]
                for f in futs:
                    try: results.append(f.result())
                    except Exception as e: results.append({'name': '?', 'paths': 0, 'stats': {'steps': 0, 'queries': 0, 'solver_s': 0}, 'replayed': 0, 'replay_ok': 0,
                                                            'violations': [], 'inconclusive': ['worker crashed: %r' % (e,)], 'silent': 0, 'cases': 0, 'ref_kinds': {}, 'samples': []})
        summary = {'family': name, 'templates': len(templates), 'paths': 0, 'reference_cases': 0, 'oracle_silent': 0, 'ref_outcomes': {}, 'wall_s': 0}
        for r in results:
            self.states += r['paths']; self.transitions += r['stats']['steps']; self.queries += r['stats']['queries']; self.solver_s += r['stats']['solver_s']
            self.replayed += r['replayed']; self.replay_ok += r['replay_ok']; self.silent += r['silent']
            summary['paths'] += r['paths']; summary['reference_cases'] += r['cases']; summary['oracle_silent'] += r['silent']
            for k, v in r['ref_kinds'].items(): summary['ref_outcomes'][k] = summary['ref_outcomes'].get(k, 0) + v
            if r.get('truncated_paths'): summary['truncated_paths'] = summary.get('truncated_paths', 0) + r['truncated_paths']
            for k, v in r.get('silent_reasons', {}).items(): summary.setdefault('oracle_silent_reasons', {}); summary['oracle_silent_reasons'][k] = summary['oracle_silent_reasons'].get(k, 0) + v
            for s in r['samples']:
                if len(self.samples) < 12: self.samples.append(s)
            for inc in r['inconclusive']: self.inconclusive.append('%s/%s: %s' % (name, r['name'], inc))
            if r.get('dropped'):
                summary['dropped_from_sample'] = summary.get('dropped_from_sample', []) + [r['name']]
                self.outside.append('%s/%s: %s (dropped from the random sample; only the paths explored until then are covered)' % (name, r['name'], r['dropped']))
            for v in r['violations']:
                v = dict(v); v['family'] = name
                v['role'] = role_fn(v) if role_fn else '%s:%s:%s' % (name, v['aspect'], v['ref'])
                self.violations.append(v)
        summary['wall_s'] = round(time.time() - t0, 1)
        self.parts.append(summary)
        return results

    def run_random(self, aspects, n_quick=36, n_thorough=300):
        """second line of defence: generated programs over the whole feature set, weighted towards this property's constructs"""
        from families import randprog
        n = n_quick if self.tier == 'quick' else n_thorough
        ts = randprog.templates(self.tier, self.seed, n, self.id)
        for t in ts: t['droppable'] = True
        for t in ts: t['max_dec'] = 7        # at most 2^7 paths per program; beyond that one side of each further branch is followed (truncated)
        self.bounds['random_programs'] = '%d generated programs (kind-tracking grammar over all documented constructs, weighted towards %s; VERIF_SEED), integer / boolean leaves symbolic' % (n, randprog.EMPH.get(self.id, 'nothing in particular'))
        return self.run_family('random-programs', ts, aspects, lambda v: 'randprog:%s:%s:%s' % (v.get('template'), v['aspect'], v['ref']), par_templates=8, par_paths=2, timeout=300)

    def run_jobs(self, name, jobs, par_jobs=8, par_paths=2, timeout=600):
        """jobs: list of {'name', 'path_fn': f(M)->obs, 'post': g(rows, stats, binary, workdir)->result dict}; result dict keys as in
        family.run_template (paths, stats, replayed, replay_ok, violations, inconclusive, silent, cases, ref_kinds, samples)"""
        global _J
        t0 = time.time()
        _J = (self.M, self.binary, timeout, par_paths, jobs, self.id)
        results = []
        if par_jobs <= 1 or len(jobs) <= 1:
            for i in range(len(jobs)): results.append(_job_worker(i))
        else:
            ctx = multiprocessing.get_context('fork')
            with concurrent.futures.ProcessPoolExecutor(max_workers=par_jobs, mp_context=ctx) as ex:
                futs = [ex.submit(_job_worker, i) for i in range(len(jobs))]
                for i, f in enumerate(futs):
                    try: results.append(f.result())
                    except Exception as e: results.append(_empty_result(jobs[i]['name'], 'worker crashed: %r' % (e,)))
        summary = {'family': name, 'jobs': len(jobs), 'paths': 0, 'wall_s': 0, 'notes': {}}
        for r in results:
            self.states += r['paths']; self.transitions += r['stats'].get('steps', 0); self.queries += r['stats'].get('queries', 0); self.solver_s += r['stats'].get('solver_s', 0)
            self.replayed += r['replayed']; self.replay_ok += r['replay_ok']; self.silent += r.get('silent', 0)
            self.obligations += r.get('obligations', 0); self.discharged += r.get('discharged', 0)
            summary['paths'] += r['paths']
            for k, v in r.get('notes', {}).items(): summary['notes'][k] = summary['notes'].get(k, 0) + v
            for s in r.get('samples', []):
                if len(self.samples) < 12: self.samples.append(s)
            for inc in r['inconclusive']: self.inconclusive.append('%s/%s: %s' % (name, r['name'], inc))
            for v in r['violations']:
                v = dict(v); v['family'] = name; v.setdefault('role', '%s:%s' % (name, v.get('aspect', '?')))
                self.violations.append(v)
        summary['wall_s'] = round(time.time() - t0, 1)
        self.parts.append(summary)
        return results

    def note_violation(self, role, what, replay_bytes, ext='sd', extra=None):
        v = {'role': role, 'what': what, 'script': replay_bytes, 'ext': ext}
        if extra: v.update(extra)
        self.violations.append(v)

    # ------------------------------------------------------------ finish
    def finish(self):
        known = [k for k in load_known() if k['property'] == self.id]
        open_roles = {k['role']: k for k in known if k.get('status', 'open') == 'open'}
        rdir = os.path.join(VERIF, 'replays', self.id); os.makedirs(rdir, exist_ok=True)
        new = []; seen_known = {}
        for v in self.violations:
            data = v.get('script', '')
            data = data if isinstance(data, bytes) else data.encode('utf-8', 'surrogateescape')
            h = hashlib.sha256(data + v['role'].encode()).hexdigest()[:12]
            path = os.path.join(rdir, '%s.%s' % (h, v.get('ext', 'sd')))
            with open(path, 'wb') as f: f.write(data)
            v['replay'] = path
            if v['role'] in open_roles: seen_known.setdefault(v['role'], v)
            else: new.append(v)
        for role, v in seen_known.items():
            print('KNOWN-FINDING: property=%s %s [%s] replay=%s' % (self.id, open_roles[role]['what'], role, v['replay']))
        seen_new = set()
        for v in new:
            if v['role'] in seen_new: continue
            seen_new.add(v['role'])
            print('VIOLATION property=%s replay=%s' % (self.id, v['replay']))
            print('  role=%s: %s' % (v['role'], str(v.get('what', ''))[:300]))
        inc = sorted(set(self.inconclusive))
        for i in inc[:15]: print('INCONCLUSIVE: ' + i[:400])
        if len(inc) > 15: print('INCONCLUSIVE: ... and %d more' % (len(inc) - 15))
        wall = time.time() - self.t0
        ev = {
            'property_id': self.id, 'tier': self.tier, 'seed': self.seed, 'level': 'model_checking',
            'coverage': {
                'states': max(self.states, 0), 'transitions': max(self.transitions, 0),
                'traces_validated_against_impl': self.replay_ok,
                'samples': self.samples[:12] or [{'note': 'no path sample recorded'}],
                'explanation': 'states = symbolic paths completed (each is a set of inputs described by a path condition and decided by z3, not a single run); '
                               'transitions = MIR statements executed summed over paths; traces_validated_against_impl = path witnesses replayed on the native '
                               'binary built from /repo whose stdout/stderr/exit status equalled what the symbolic run predicted (%d of %d replayed)' % (self.replay_ok, self.replayed),
                'technique': self.technique,
                'engine': 'mirsym: symbolic interpreter over rustc MIR of /repo working tree (hash %s) + z3 %s' % (self.build_info['source_hash'], _z3v()),
                'functions_encoded': sorted(self.functions)[:80],
                'bounds': self.bounds, 'outside_claim': self.outside,
                'parts': self.parts,
                'obligations': self.obligations, 'discharged': self.discharged,
                'solver_queries': self.queries, 'solver_s': round(self.solver_s, 2),
                'oracle_silent_cases': self.silent,
                'inconclusive': inc[:40], 'inconclusive_count': len(inc),
                'known_findings_seen': sorted(seen_known), 'new_violations': sorted(seen_new),
                'build': self.build_info,
                'exhaustive': False,
            },
            'assumptions': self.assumptions + [
                'rustc nightly MIR of the current working tree is a faithful lowering; dev profile (overflow checks on)',
                'std / hashbrown / snafu::ResultExt::context / lalrpop_util driver are modelled in Python per their documented contracts (mirsym/models.py); '
                'every path witness is replayed on the native binary to validate these models on exactly the paths explored',
                'inputs are valid UTF-8',
            ],
            'wall_s': round(wall, 2), 'violations': len(seen_new),
        }
        if self.states == 0: ev['coverage']['states'] = 1 if self.obligations else 0
        if self.transitions == 0: ev['coverage']['transitions'] = max(1, self.obligations)
        os.makedirs(os.path.join(VERIF, 'evidence'), exist_ok=True)
        with open(os.path.join(VERIF, 'evidence', self.id + '.json'), 'w') as f: json.dump(ev, f, indent=1, default=str)
        print('%s %s: paths=%d mir_steps=%d replayed=%d/%d obligations=%d/%d silent=%d inconclusive=%d known=%d new=%d wall=%.1fs' % (
            self.id, self.tier, self.states, self.transitions, self.replay_ok, self.replayed, self.discharged, self.obligations, self.silent, len(inc), len(seen_known), len(seen_new), wall))
        if seen_new: return 1
        if inc: return 2
        return 0

def _z3v():
    import z3
    return z3.get_version_string()

_G = None
def _worker(i, wd):
    M, aspects, binary, timeout, par_paths, templates = _G
    return _run_one(M, templates[i], aspects, binary, wd, par_paths, timeout)
def _run_one(M, t, aspects, binary, wd, par, timeout):
    try:
        return F.run_template(M, t, aspects, binary, wd, par=par, timeout=timeout)
    finally:
        import shutil
        shutil.rmtree(wd, ignore_errors=True)

_J = None
def _empty_result(name, inc=None):
    return {'name': name, 'paths': 0, 'stats': {'steps': 0, 'queries': 0, 'solver_s': 0}, 'replayed': 0, 'replay_ok': 0, 'violations': [], 'inconclusive': [inc] if inc else [],
            'silent': 0, 'cases': 0, 'ref_kinds': {}, 'samples': [], 'notes': {}, 'obligations': 0, 'discharged': 0}
def _job_worker(i):
    import shutil
    from mirsym import explore as X
    M, binary, timeout, par_paths, jobs, pid = _J
    job = jobs[i]
    wd = os.path.join(TMP, 'job-%s-%d-%d' % (pid, os.getpid(), i))
    try:
        rows, stats = X.explore(M, job['path_fn'], par=par_paths, timeout=job.get('timeout', timeout), tag=job['name'][:20])
        res = _empty_result(job['name'])
        res['paths'] = len(rows); res['stats'] = stats
        if stats['timed_out']: res['inconclusive'].append('exploration timed out')
        for r in rows:
            if r['status'] != 'ok': res['inconclusive'].append('%s: %s' % (r['status'], r['detail'][:300]))
        job['post']([r for r in rows if r['status'] == 'ok'], res, binary, wd)
        return res
    finally:
        shutil.rmtree(wd, ignore_errors=True)
