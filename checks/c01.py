# C01 -- whole-program behaviour equals the documented semantics
# The compositional claim is decided as the conjunction of the construct-level checks (C04..C20, each against the same reference
# semantics) plus this cross-product family: every ordered pair of documented constructs nested, with a symbolic integer routed
# across the boundary, in lock-step with the complete reference semantics (ref/), itself validated on the repository's 336 scripts.
from . import common
from families import compose, randprog

def run(tier, seed):
    c = common.Check('C01', tier, seed, 'symbolic execution of main (MIR) on compositions of every ordered pair of documented constructs with a symbolic integer routed across the boundary, decided by z3; lock-step complete reference semantics (independent front end + evaluator); native replay')
    c.functions |= {'main and everything reachable from it (src/lexer, generated parser, src/eval, src/builtins) (MIR)'}
    ts = compose.templates(tier, seed)
    c.bounds = {'constructs': sorted(compose.CONSTRUCTS), 'nesting': 'all 14 single constructs; %s' % ('42 sampled ordered pairs (VERIF_SEED)' if tier == 'quick' else 'all 196 ordered pairs and 260 sampled triples'), 'value': 'one symbolic i64 routed inwards and outwards (all of i64)', 'templates': len(ts)}
    c.outside = ['nesting depth beyond 2 (quick) / 3 (thorough): the statement quantifies over any depth -- this is a bounded claim', 'programs outside the composed family; the construct-level properties C04..C20 carry the per-construct depth']
    c.assumptions.append('the reference semantics (ref/front.py, ref/sem.py) is an executable reading of docs/features.md and the property statements; where these are silent it answers "unspecified" and the case is skipped (counted as oracle_silent)')
    c.run_family('compose', ts, ('exit', 'stdout', 'stderr-empty', 'panic', 'hang'), compose.role, par_templates=8, par_paths=2)
    from families import crossfeature
    xs = crossfeature.templates(tier, seed)
    c.bounds['cross_feature'] = '%d programs picked from the construct families (calls / this, scopes, control, heap, objects, destructuring, sequences, equality, rendering, diagnostics)' % len(xs)
    c.run_family('cross-feature', xs, ('exit', 'stdout', 'stderr-empty', 'panic', 'hang'), crossfeature.role, par_templates=8, par_paths=2)
    rs = randprog.templates(tier, seed)
    for t in rs: t['max_dec'] = 7; t['droppable'] = True
    c.bounds['random_programs'] = '%d generated programs of 8-20 statements over the whole feature set (kind-tracking grammar, VERIF_SEED), integer / boolean leaves symbolic' % len(rs)
    c.run_family('random-programs', rs, ('exit', 'stdout', 'stderr-empty', 'panic', 'hang'), randprog.role, par_templates=8, par_paths=2, timeout=300)
    return c.finish()
