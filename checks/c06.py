# C06 -- integer arithmetic is exact over 64 bits or reports an error
from . import common
from families import arith

def run(tier, seed):
    c = common.Check('C06', tier, seed, 'symbolic execution of main (MIR) with unconstrained 64-bit literal holes + z3; lock-step reference semantics; native replay')
    c.functions |= {'main', 'run', 'eval_prog', 'eval_stmt', 'eval_expr', 'apply_binary_operation', 'bind_next', 'bind_next_name', 'binary_operation_assign',
                    'Lexer::next', 'Lexer::next_int', '__parse__Prog::__reduce*', 'builtins::fns::print', 'builtins::fns::render', 'eval_err_to_stacktrace'}
    c.bounds = {'operands': 'all of i64 x i64 (no bound)', 'range_length': '<= 4 elements (quick) / 6 (thorough)'}
    c.outside = ['ranges longer than the stated length', 'integer literals: see the literal sub-check bounds']
    c.run_family('arith', arith.templates(tier), ('exit', 'stdout', 'stderr-empty', 'message', 'panic', 'hang'), arith.role)
    if tier == 'thorough':
        # E2: the compiled kernel under Kani/CBMC against an i128 oracle (independent of the std models of E1)
        from . import kani_driver
        kani_driver.run(c)
    return c.finish()
