# C06 -- integer arithmetic is exact over 64 bits or reports an error
from . import common
from families import arith

def literal_jobs(tier):
    import z3, re
    from mirsym import harness as H, models, srcsym as S, family as F
    from mirsym.core import Panic, PathEnd, Unsupported
    D = S.in_set(list(b'0123456789'))
    POS = re.compile(rb'^t\.sd:(\d+):(\d+): ')
    def job(name, parts, digit_names, neg=False, expect_ctx=None):
        """parts: source parts; digit_names: names of the symbolic digits in order (most significant first) together with fixed digits as ints"""
        def path_fn(M):
            M.symvars = {}
            src = S.text(M, parts)
            try: code, out, err = H.run_cli(M, 't.sd', list(src))
            except Panic as e: return {'viol': 'panic: %s' % str(e)[:150], 'wit': [], 'code': None, 'out': '', 'err': ''}
            r, m = F.sat_model(M.solver)
            if r != z3.sat: raise PathEnd('infeasible')
            val = z3.BitVecVal(0, 128)          # the decimal value, exactly, in 128 bits
            for d in digit_names:
                dv = z3.ZeroExt(120, M.symvars[d] - 0x30) if isinstance(d, str) else z3.BitVecVal(d, 128)
                val = val * 10 + dv
            mag = val
            if neg: val = -val
            op = models.pieces(out); ep = models.pieces(err)
            obs = {'viol': None, 'code': code, 'nq': 2}
            obs['wit'] = list(bytes(m.eval(e.z(), model_completion=True).as_long() for e in src))
            obs['out'] = F.eval_pieces(m, op).decode('latin1'); obs['err'] = F.eval_pieces(m, ep).decode('latin1')
            s = M.solver
            fits = z3.ULE(mag, z3.BitVecVal(2**63 - 1, 128))            # must be accepted
            # `-9223372036854775808` written as a literal: its value fits although its magnitude does not; the statement allows both an
            # error and the value -2^63 there
            may_accept = z3.ULE(mag, z3.BitVecVal(2**63 if (neg and expect_ctx is None) else 2**63 - 1, 128))
            # a literal denotes its decimal value up to 2^63-1 (the magnitude is lexed first; `-` negates a literal that fits)
            def sat(cond):
                s.push(); s.add(cond); r2 = s.check(); mm = s.model() if r2 == z3.sat else None; s.pop()
                if r2 == z3.unknown: raise Unsupported('solver unknown (literal)')
                return mm
            if code == 0:
                mm = sat(z3.Not(may_accept))
                if mm is not None: obs['viol'] = 'a literal above 2^63-1 was accepted'; obs['wit'] = list(bytes(mm.eval(e.z(), model_completion=True).as_long() for e in src)); return obs
                if len(op) < 1: obs['viol'] = 'no output'; return obs
                # printed value == decimal value
                want = val if expect_ctx is None else expect_ctx(val)
                if not isinstance(op[0], bytes) and op[0][0] == 'dec': got = z3.SignExt(64, op[0][1])
                elif isinstance(op[0], bytes): got = z3.BitVecVal(int(op[0].split(b'\n')[0]), 128)
                else: raise Unsupported('unexpected output piece')
                mm = sat(got != want)
                if mm is not None: obs['viol'] = 'printed value differs from the decimal value of the literal'; obs['wit'] = list(bytes(mm.eval(e.z(), model_completion=True).as_long() for e in src))
            elif code == 103:
                mm = sat(fits)
                if mm is not None and b'too high' in (ep[0] if ep and isinstance(ep[0], bytes) else b'') + b''.join(p for p in ep if isinstance(p, bytes)):
                    obs['viol'] = 'a literal that fits was rejected'; obs['wit'] = list(bytes(mm.eval(e.z(), model_completion=True).as_long() for e in src))
            else: obs['viol'] = 'exit %s' % code
            return obs
        def post(rows, res, binary, wd):
            for r in rows:
                o = r['obs']; res['obligations'] += 2; res['discharged'] += 2 - (1 if o['viol'] else 0)
                if not o['wit']: res['inconclusive'].append('literal job without witness: %r' % o['viol']); continue
                w = bytes(o['wit']); nat = F.native_run(binary, w, wd); res['replayed'] += 1
                if nat[0] == o['code'] and nat[1] == o['out'].encode('latin1') and nat[2] == o['err'].encode('latin1'): res['replay_ok'] += 1
                elif not o['viol']: res['inconclusive'].append('engine/native disagreement on %r: %r vs %r' % (w, nat, (o['code'], o['out'], o['err'])))
                if len(res['samples']) < 1: res['samples'].append({'script_bytes': repr(w), 'exit': o['code'], 'stdout': o['out'][:40]})
                if o['viol']:
                    # native confirmation against python's exact integers
                    txt = w.decode('latin1'); mm = re.search(r'-?\s*[0-9_]+', txt[txt.index('(') + 1:] if '(' in txt else txt)
                    res['violations'].append({'aspect': 'literal', 'role': 'literal:%s' % name.split('-')[0], 'what': '%s: %r -> native exit %s %r' % (o['viol'], w, nat[0], (nat[1] + nat[2])[:100]), 'script': w, 'ext': 'sd'})
        return {'name': name, 'path_fn': path_fn, 'post': post}
    J = []
    def sd(n, p='d'): return [('sym', '%s%d' % (p, i), D) for i in range(n)]
    for n in (1, 2, 3):
        J.append(job('plain-%d' % n, [b'print('] + sd(n) + [b')\n'], ['d%d' % i for i in range(n)]))
        J.append(job('neg-%d' % n, [b'print(-'] + sd(n) + [b')\n'], ['d%d' % i for i in range(n)], neg=True))
    J.append(job('underscore-3', [b'print(', ('sym', 'd0', D), b'_', ('sym', 'd1', D), b'__', ('sym', 'd2', D), b'_)\n'], ['d0', 'd1', 'd2']))
    big = [int(ch) for ch in '92233720368547758']
    J.append(job('boundary-19', [b'print(92233720368547758'] + sd(2) + [b')\n'], big + ['d0', 'd1']))
    J.append(job('boundary-19-neg', [b'print(-92233720368547758'] + sd(2) + [b')\n'], big + ['d0', 'd1'], neg=True))
    J.append(job('boundary-19-underscore', [b'print(9_223_372_036_854_775_8'] + sd(2) + [b')\n'], big + ['d0', 'd1']))
    J.append(job('boundary-20', [b'print(1844674407370955161'] + sd(1) + [b')\n'], [int(ch) for ch in '1844674407370955161'] + ['d0']))
    # a literal after a binary minus: `x - L` with x = -1: defined iff L <= 2^63-1, value -1 - L
    J.append(job('after-minus', [b'x := -1\nprint(x - 92233720368547758'] + sd(2) + [b')\n'], big + ['d0', 'd1'], expect_ctx=lambda v: -1 - v))
    J.append(job('after-minus-small', [b'x := 5\nprint(x -'] + sd(2) + [b')\n'], ['d0', 'd1'], expect_ctx=lambda v: 5 - v))
    return J

def run(tier, seed):
    c = common.Check('C06', tier, seed, 'symbolic execution of main (MIR) with unconstrained 64-bit literal holes + z3; lock-step reference semantics; native replay')
    c.functions |= {'main', 'run', 'eval_prog', 'eval_stmt', 'eval_expr', 'apply_binary_operation', 'bind_next', 'bind_next_name', 'binary_operation_assign',
                    'Lexer::next', 'Lexer::next_int', '__parse__Prog::__reduce*', 'builtins::fns::print', 'builtins::fns::render', 'eval_err_to_stacktrace'}
    c.bounds = {'operands': 'all of i64 x i64 (no bound)', 'range_length': '<= 4 elements (quick) / 6 (thorough)', 'literals': 'digit strings of 1-3 symbolic digits (plain, negated, with `_`), 19-digit literals 92233720368547758DD and a 20-digit one with symbolic last digits (plain, negated, with `_`, after a binary minus)'}
    c.outside = ['ranges longer than the stated length', 'integer literals: see the literal sub-check bounds']
    c.run_family('arith', arith.templates(tier), ('exit', 'stdout', 'stderr-empty', 'message', 'panic', 'hang'), arith.role)
    # integer literals: digit strings with symbolic digits through the real lexer / parser, value = sum d_i 10^i, error iff > 2^63-1
    c.run_jobs('literals', literal_jobs(tier), par_jobs=8, par_paths=2)
    if tier == 'thorough':
        # E2: the compiled kernel under Kani/CBMC against an i128 oracle (independent of the std models of E1)
        from . import kani_driver
        kani_driver.run(c)
    return c.finish()
