# C18 -- reported positions are the true line and column of the offending token
#  (a) scanner invariant: at every Scanner::loc() call on every path over N symbolic input bytes, the returned (line, col) is the
#      true position of the current character (a z3 formula over the bytes: tabs, CR, multi-byte characters, comments, strings);
#  (b) lexical / syntax errors are located at the offending character / unexpected token (reference front end on each path witness);
#  (c) shift lemma: a failing tail preceded by a hole of symbolic layout bytes (blank lines, indentation, CR, comments with arbitrary
#      text, a multi-line string literal): every reported position moves by exactly the displacement of the hole.
import re, os, json
import z3
from . import common
from mirsym import harness as H, explore as X, models, srcsym as S, family as F
from mirsym.core import *
from ref import front

POS_RE = re.compile(rb't\.sd:(\d+):(\d+):')

def find_loc_fn(M):
    # by signature: the scanner method that hands out a (line, column) pair; by name as a fallback
    r = [n for n, b in M.bodies.items() if b.kind == 'fn' and re.search(r'\(_1: &(mut )?Scanner<', b.header) and b.header.rstrip(' {').endswith('-> (usize, usize)') and b.nargs == 1]
    if len(r) != 1: r = [n for n in M.bodies if re.search(r'scanner::<impl .*>::loc$', n)]
    return r[0] if len(r) == 1 else None

def scanner_job(N, ascii_only):
    name = 'scanner-N%d%s' % (N, '-ascii' if ascii_only else '')
    def path_fn(M):
        M.symvars = {}
        bs = [S.sym_byte(M, 'b%d' % i) for i in range(N)]
        if ascii_only:
            for b in bs: M.assume(z3.ULT(b.v, 0x80))
        S.stop_after_parse(M)
        loc_fn = find_loc_fn(M); loc_obs = []
        if loc_fn is None: raise Unsupported('Scanner::loc not found')
        def w(Mx, args):
            del Mx.overrides[loc_fn]
            try: r = Mx.call(loc_fn, args)
            finally: Mx.overrides[loc_fn] = w
            sc = args[0].load(); loc_obs.append((sc.fields[2], vcopy(r)))
            return r
        M.overrides[loc_fn] = w
        obs = {'n_loc': 0, 'locviol': None, 'panic': None}
        try:
            code, out, err = H.run_cli(M, 't.sd', list(bs))
        except Panic as e:
            obs['panic'] = str(e)[:200]; code = None; out = []; err = []
        zs = [b.v for b in bs]
        nq = 0
        for idx, loc in loc_obs:
            if idx.sym(): raise Unsupported('symbolic scanner index')
            k = idx.v
            if k >= N: continue          # end of input: no current character
            tl, tc = S.true_loc(zs, k)
            gl, gc = z3.BV2Int(loc.fields[0].z()), z3.BV2Int(loc.fields[1].z())
            is_lf = zs[k] == 10
            good = z3.Or(z3.And(gl == tl, gc == tc), z3.And(is_lf, gl == tl + 1, gc == 0))
            nq += 1
            M.solver.push(); M.solver.add(z3.Not(good)); r = M.solver.check()
            if r == z3.sat:
                mdl = M.solver.model()
                obs['locviol'] = {'k': k, 'got': [mdl.eval(gl).as_long(), mdl.eval(gc).as_long()], 'want': [mdl.eval(tl).as_long(), mdl.eval(tc).as_long()],
                                  'wit': [mdl.eval(z, model_completion=True).as_long() for z in zs]}
                M.solver.pop(); break
            M.solver.pop()
            if r != z3.unsat: raise Unsupported('solver unknown on loc invariant')
        obs['n_loc'] = nq
        r, m = F.sat_model(M.solver)
        if r != z3.sat: raise PathEnd('infeasible')
        obs['wit'] = [m.eval(z, model_completion=True).as_long() for z in zs]
        obs['code'] = code; obs['parsed'] = M.evaluator_entered[0] > 0
        obs['err'] = F.eval_pieces(m, models.pieces(err)).decode('latin1'); obs['out'] = F.eval_pieces(m, models.pieces(out)).decode('latin1')
        return obs
    def post(rows, res, binary, wd):
        for r in rows:
            o = r['obs']; w = bytes(o['wit'])
            res['obligations'] += o['n_loc']; res['discharged'] += o['n_loc'] - (1 if o['locviol'] else 0)
            if o['panic']: res['notes']['panic-paths(C03)'] = res['notes'].get('panic-paths(C03)', 0) + 1; continue
            nat = F.native_run(binary, w, wd); res['replayed'] += 1
            if o.get('parsed'):
                # the symbolic run stops where evaluation begins: the native run must get past the front end too (no syntax diagnostic)
                if nat[0] in (0, 103) and b'unexpected' not in nat[2]: res['replay_ok'] += 1
                else: res['inconclusive'].append('engine/native disagreement on %r: native=%r but the symbolic front end accepted' % (w, nat))
            elif nat[0] == o['code'] and nat[1] == o['out'].encode('latin1') and nat[2] == o['err'].encode('latin1'): res['replay_ok'] += 1
            else: res['inconclusive'].append('engine/native disagreement on %r: native=%r predicted=%r' % (w, nat, (o['code'], o['out'], o['err'])))
            if len(res['samples']) < 2: res['samples'].append({'input_bytes': repr(w), 'exit': o['code'], 'stderr': o['err'][:100], 'loc_obligations': o['n_loc']})
            if o['locviol']:
                v = o['locviol']; wv = bytes(v['wit']); k = v['k']
                conf = None
                for cand in (wv, wv[:k] + b'`\n', wv[:k] + b' `\n'):
                    try: txt = cand.decode('utf-8')
                    except UnicodeDecodeError: continue
                    n2 = F.native_run(binary, cand, wd)
                    mm = POS_RE.search(n2[2])
                    if not mm: continue
                    try: front.lex(txt); exp = None
                    except front.RefSyntaxError as e: exp = e.loc
                    except front.FrontUnspecified: exp = None
                    if exp is not None and (int(mm.group(1)), int(mm.group(2))) != tuple(exp):
                        conf = (cand, (int(mm.group(1)), int(mm.group(2))), exp); break
                if conf: res['violations'].append({'aspect': 'position', 'role': 'scanner-position', 'what': 'scanner reports %s for the character at the true position %s on input %r' % (conf[1], conf[2], conf[0]), 'script': conf[0], 'ext': 'sd'})
                else: res['inconclusive'].append('scanner invariant violated at byte %d of %r (got %s, want %s) but not observable through a CLI diagnostic' % (k, wv, v['got'], v['want']))
            # (b) lexical / syntax error position against the reference front end, on the witness
            if o['code'] == 103:
                mm = POS_RE.match(o['err'].encode('latin1'))
                try: txt = w.decode('utf-8')
                except UnicodeDecodeError: continue
                try: front.parse_prog(txt); ref = 'accepts'
                except front.RefSyntaxError as e: ref = e
                except front.FrontUnspecified: ref = None
                if ref is None: res['silent'] += 1; continue
                res['cases'] += 1
                if ref == 'accepts' or mm is None: continue          # acceptance differences are C03's subject
                got = (int(mm.group(1)), int(mm.group(2)))
                if ref.kind in ('lex', 'parse') and ref.loc is not None and got != tuple(ref.loc):
                    # the newline pseudo-token: both (line, len+1) and (line+1, 0) are accepted
                    lines_ = txt.split('\n')
                    at_lf = ref.loc[0] - 1 < len(lines_) - 1 and ref.loc[1] == len(lines_[ref.loc[0] - 1]) + 1
                    if at_lf and got == (ref.loc[0] + 1, 0): continue
                    res['violations'].append({'aspect': 'position', 'role': 'syntax-error-position', 'what': 'diagnostic at %s, offending %s at %s: %r' % (got, ref.kind, ref.loc, o['err'][:120]), 'script': w, 'ext': 'sd'})
    return {'name': name, 'path_fn': path_fn, 'post': post}

# ------------------------------------------------------------------ (c) shift lemma
TAILS = {
    'undefined': b'print(nope)\n',
    'op-types': b'x := 1\nprint(x + "")\n',
    'overflow': b'print(9223372036854775807 + 1)\n',
    'call-non-func': b'print(5())\n',
    'stack': b'fn f() {\n    return g()\n}\nfn g() {\n    return 1 + ""\n}\nprint(f())\n',
    'lex-char': b'x := 1 ` 2\n',
    'parse': b'x := (1 + )\n',
    'escape': b'x := "a\\qb"\n',
    'arity': b'fn two(a, b) {\n    return a\n}\ntwo(1)\n',
    'index': b'xs := [1]\n  print(xs[3])\n',
}
LAYOUT = [0x20, 0x09, 0x0D, 0x0A]

def hole_parts(kind, k):
    if kind == 'layout': return [('sym', 'g%d' % i, S.in_set(LAYOUT)) for i in range(k)], False
    if kind == 'comment': return [b'#'] + [('sym', 'g%d' % i, S.not_in([10])) for i in range(k)] + [b'\n'], False
    if kind == 'string': return [b'w := "'] + [('sym', 'g%d' % i, S.not_in(['"', '\\', '$'])) for i in range(k)] + [b'"\n'], False
    if kind == 'indent-comment': return [('sym', 'g0', S.in_set([0x20, 0x09]))] + [b'# '] + [('sym', 'g%d' % i, S.not_in([10])) for i in range(1, k)] + [b'\n'] + [('sym', 'g%d' % k, S.in_set(LAYOUT))], False
    if kind == 'same-line-string': return [b'w := "'] + [('sym', 'g%d' % i, S.not_in(['"', '\\', '$', 10])) for i in range(k)] + [b'"; '], False
    if kind == 'same-line-comment-then-code': return [b'u := 1 # '] + [('sym', 'g%d' % i, S.not_in([10])) for i in range(k)] + [b'\nv := "'] + [('sym', 'g%d' % (k + i), S.not_in(['"', '\\', '$', 10])) for i in range(1)] + [b'"; '], False
    if kind == 'continuation': return [b'v := [1,'] + [('sym', 'g%d' % i, S.in_set(LAYOUT)) for i in range(k)] + [b'2]\n'], False
    raise ValueError(kind)

def positions_of(err_bytes):
    return [(int(m.group(1)), int(m.group(2))) for m in POS_RE.finditer(err_bytes)]

def shift_job(tname, kind, k):
    tail = TAILS[tname]
    name = 'shift-%s-%s-%d' % (tname, kind, k)
    def path_fn(M):
        M.symvars = {}
        # base run: the tail alone
        try: bcode, bout, berr = H.run_cli(M, 't.sd', tail)
        except Panic as e: raise Unsupported('tail panics: %s' % e)
        berr = H.conc(berr); bout = H.conc(bout)
        base_pos = positions_of(berr)
        parts, _ = hole_parts(kind, k)
        hole = S.text(M, parts)
        src = hole + models.elems(tail)
        try: code, out, err = H.run_cli(M, 't.sd', src)
        except Panic as e: return {'panic': str(e)[:200]}
        r, m = F.sat_model(M.solver)
        if r != z3.sat: raise PathEnd('infeasible')
        ep = models.pieces(err)
        obs = {'panic': None, 'viol': None, 'nq': 0}
        wit = bytes(m.eval(e.z(), model_completion=True).as_long() for e in src)
        obs['wit'] = list(wit); obs['code'] = code
        obs['err'] = F.eval_pieces(m, ep).decode('latin1'); obs['out'] = F.eval_pieces(m, models.pieces(out)).decode('latin1')
        flat = b''.join(p if isinstance(p, bytes) else b'?' for p in ep)
        got_pos = positions_of(flat)
        mask = lambda b: POS_RE.sub(b't.sd:L:C:', b)
        def viol(what):
            obs['viol'] = {'what': what, 'wit': list(wit)}
        if code != bcode or H.conc(out) != bout if not any(not isinstance(p, bytes) for p in models.pieces(out)) else False:
            viol('exit status / stdout changed by the layout prefix: %s vs %s' % (code, bcode)); return obs
        if any(not isinstance(p, bytes) for p in ep) or mask(flat) != mask(berr) or len(got_pos) != len(base_pos):
            viol('message changed by the layout prefix: %r vs %r' % (flat[:160], berr[:160])); return obs
        # displacement of the hole, as a formula over its bytes
        hz = [e.z() for e in hole]
        nlf = z3.Sum([z3.If(z == 10, 1, 0) for z in hz]) if hz else z3.IntVal(0)
        col = z3.IntVal(0)
        for z in hz: col = z3.If(z == 10, 0, z3.If(z3.Not(S.is_cont(z)), col + 1, col))
        for (gl, gc), (l0, c0) in zip(got_pos, base_pos):
            el = l0 + nlf
            ec = z3.If(l0 == 1, c0 + col, c0) if True else c0
            obs['nq'] += 1
            M.solver.push(); M.solver.add(z3.Not(z3.And(el == gl, ec == gc))); r = M.solver.check()
            if r == z3.sat:
                mdl = M.solver.model()
                w2 = bytes(mdl.eval(e.z(), model_completion=True).as_long() for e in src)
                obs['viol'] = {'what': 'position %d:%d reported; the token moved from %d:%d by the prefix to %s:%s' % (gl, gc, l0, c0, mdl.eval(el), mdl.eval(ec)), 'wit': list(w2)}
                M.solver.pop(); return obs
            M.solver.pop()
            if r != z3.unsat: raise Unsupported('solver unknown (shift lemma)')
        return obs
    def post(rows, res, binary, wd):
        for r in rows:
            o = r['obs']
            if o.get('panic'): res['notes']['panic-paths(C02)'] = res['notes'].get('panic-paths(C02)', 0) + 1; continue
            res['obligations'] += o['nq'] + 1; res['discharged'] += o['nq'] + 1 - (1 if o['viol'] else 0)
            w = bytes(o['wit'])
            nat = F.native_run(binary, w, wd); res['replayed'] += 1
            if nat[0] == o['code'] and nat[1] == o['out'].encode('latin1') and nat[2] == o['err'].encode('latin1'): res['replay_ok'] += 1
            else: res['inconclusive'].append('engine/native disagreement on %r: native=%r predicted=%r' % (w, nat, (o['code'], o['out'], o['err'])))
            if len(res['samples']) < 1: res['samples'].append({'script_bytes': repr(w), 'stderr': o['err'][:120]})
            if o['viol']:
                wv = bytes(o['viol']['wit'])
                # native confirmation: the same comparison, concretely, on the witness
                nb = F.native_run(binary, tail, wd); nw = F.native_run(binary, wv, wd)
                hole = wv[:len(wv) - len(tail)]
                try: htxt = hole.decode('utf-8')
                except UnicodeDecodeError: htxt = None
                ok_conf = False
                if htxt is not None:
                    nl = htxt.count('\n'); lastline = htxt.rsplit('\n', 1)[-1]
                    exp = [(l0 + nl, c0 + len(lastline) if l0 == 1 else c0) for (l0, c0) in positions_of(nb[2])]
                    ok_conf = positions_of(nw[2]) != exp or POS_RE.sub(b'', nw[2]) != POS_RE.sub(b'', nb[2]) or nw[0] != nb[0]
                if ok_conf: res['violations'].append({'aspect': 'position', 'role': 'shift:%s' % tname, 'what': o['viol']['what'] + ' | native stderr %r' % nw[2][:160], 'script': wv, 'ext': 'sd'})
                else: res['inconclusive'].append('shift-lemma violation not reproduced natively: %r' % (o['viol'],))
    return {'name': name, 'path_fn': path_fn, 'post': post, 'timeout': 900}

SEAMS = {'call-open': (b'print(nope', b'\n)\n'), 'paren-open': (b'y := (1', b'\n)\n'), 'after-name': (b'x := 1\ny := x x', b'\nprint(2)\n'), 'arg-list': (b'fn two(a, b) {\n    return a\n}\ntwo(1, 2', b'\n)\n')}
def trailing_comment_job(sname, k):
    """a syntax error whose unexpected token is the line break at the seam: a trailing comment in front of that line break (symbolic bytes)
    leaves the reported position and message as they are"""
    before, after = SEAMS[sname]
    name = 'trailing-comment-%s-%d' % (sname, k)
    def path_fn(M):
        M.symvars = {}
        try: bcode, bout, berr = H.run_cli(M, 't.sd', before + after)
        except Panic as e: raise Unsupported('base panics: %s' % e)
        berr = H.conc(berr)
        hole = S.text(M, [b'  #'] + [('sym', 'g%d' % i, S.not_in([10])) for i in range(k)])
        src = models.elems(before) + hole + models.elems(after)
        try: code, out, err = H.run_cli(M, 't.sd', src)
        except Panic as e: return {'panic': str(e)[:200]}
        r, m = F.sat_model(M.solver)
        if r != z3.sat: raise PathEnd('infeasible')
        ep = models.pieces(err); flat = F.eval_pieces(m, ep)
        wit = bytes(m.eval(e.z(), model_completion=True).as_long() for e in src)
        obs = {'panic': None, 'viol': None, 'nq': 1, 'wit': list(wit), 'code': code, 'err': flat.decode('latin1'), 'out': F.eval_pieces(m, models.pieces(out)).decode('latin1')}
        if code != bcode or flat != berr: obs['viol'] = {'what': 'a trailing comment before the offending line break changes the report: %r, without the comment %r' % (flat[:120], berr[:120]), 'wit': list(wit)}
        return obs
    def post(rows, res, binary, wd):
        for r in rows:
            o = r['obs']
            if o.get('panic'): res['inconclusive'].append('%s: panic %s' % (name, o['panic'])); continue
            res['obligations'] += 1; res['discharged'] += 0 if o['viol'] else 1
            w = bytes(o['wit']); nat = F.native_run(binary, w, wd); res['replayed'] += 1
            if nat[0] == o['code'] and nat[2] == o['err'].encode('latin1'): res['replay_ok'] += 1
            else: res['inconclusive'].append('engine/native disagreement on %r: native=%r predicted=%r' % (w, nat, (o['code'], o['err'])))
            if o['viol']:
                nb = F.native_run(binary, before + after, wd)
                if nat[2] != nb[2] or nat[0] != nb[0]: res['violations'].append({'aspect': 'position', 'role': 'trailing-comment:%s' % sname, 'what': o['viol']['what'], 'script': w, 'ext': 'sd'})
                else: res['inconclusive'].append('trailing-comment violation not reproduced natively: %r' % (o['viol'],))
    return {'name': name, 'path_fn': path_fn, 'post': post, 'timeout': 900}

CONTEXTS = [
    'print(nope)', 'x := nope', 'x := 1 + nope', 'x := nope + 1', 'x := [1, nope]', 'x := {"k": nope}', 'x := {nope}', 'x := lst[nope]', 'x := nope[0]', 'x := lst[nope:]', 'x := lst[:nope]', 'x := 0 .. nope', 'x := nope .. 2',
    'x := 0 ..   nope', 'x := two(1, nope)', 'x := nope(1)', 'x := nope.k', 'x := obj[nope]', 'if nope {\n    print(1)\n}', 'while nope {\n    print(1)\n}', 'for [i, v] in nope {\n    print(1)\n}', 'x := $"a${nope}"' if False else 'x := [lst.., nope..]',
    'x := two(lst..,   nope)', 'nope = 1', 'nope += 1', 'lst[nope] = 1', 'obj.k = nope', '[a1, b1] := [1, nope]', 'x := (1 + 2) * nope', 'x := 1 - 2 - nope', 'x := fn () {\n    return nope\n}()', 'x := -1 + nope',
    # a name in parentheses: still the position of the name
    'print(  (nope))', 'x := 1 + (  nope)', 'x := (  (nope)) * 2', '(  nope) = 1', '( nope) += 1', 'x := {(  nope)}', 'x := two((1), ( nope))', 'x := ( nope)(1)', 'x := ( nope).k', 'x := lst[( nope)]',
    'x := true && nope', 'x := {"a": 1, "b": [2, {"c": nope}]}', 'x := two(two(1, 2), two(3, nope))', 'x := lst[0:1][nope]', 'x := obj.f(nope)', 'return nope',
    # operator errors: the position of the operator
    'x := 1 + ""', 'x := 1 +   ""', 'x := (1 + 2) *  ""', 'x := lst[0] - "s"', 'x := 1 == ""', 'x := 1 < null', 'x := [] === 1', 'y := 1\ny += ""', 'y := 1\ny   -= ""', 'x := 1 + 2 * "" - 3', 'x := two(1, 2 / "")',
    # chains of one operator: the failing application is not the last one (also continued on the next line)
    'x := 1 + "" + 2', 'x := 9223372036854775807 + 1 + 0', 'x := "a" + 1 +\n    "b" +\n    "c"', 'x := 2 * "" * 3', 'x := 1 - "" - 1 - 1', 'x := true && 1 && false', 'x := 4 / 0 / 1', 'x := [1] + 1 + [2]',
    'x := 9223372036854775807 + 1', 'x := 5 % 0', 'x := 0 .. 1 + ""', 'lst[0] += ""', 'lst[1]   -= ""', 'obj.k -= ""', 'obj["k"]  *= ""', 'lst[0] /= 0', 'obj.k += 9223372036854775807',
    # a call whose arguments contain calls: still the position of the outer call (also on the stack trace line)
    'x := two(two(1, 2))', 'x := 1 + two(two(1, 2))', 'print(two(1, 2), 3)', 'x := boom(two(1, 2))', 'x := [0, boom(two(1, two(2, 3)))]', 'x := obj.f(two(1, 2), 3)', 'x := boom(obj.f(1))',
    # call errors: the position of the call expression's first token
    'x := 5()', 'x := two(1)', 'x := 1 + two(1)', 'x := [two()]', 'x := obj.f()', 'x := obj["f"](1, 2)', 'x := lst[0]()', 'x := two(1, 2)(3)', 'x := 0 ..   two(1)', 'print(two(1, two()))',
]
def context_templates():
    from mirsym import family as F2
    def ladder(sel, options):
        out = []
        for i, code in enumerate(options):
            out.append(('if' if i == 0 else '} else if') + ' %s == %d {' % (sel, i))
            out += ['    ' + l for l in code.split('\n')]
        out.append('}')
        return out
    head = ['s := @h0@', 'lst := [1, 2]', 'obj := {"k": 1, "f": fn (v) {', '    return v', '}}', 'fn two(a, b) {', '    return a', '}', 'fn boom(v) {', '    return v + ""', '}']
    n = len(CONTEXTS)
    top = {'name': 'contexts-top', 'src': '\n'.join(head + ladder('s', [c for c in CONTEXTS if not c.startswith('return')]) + ['print(9)']) + '\n', 'assume': lambda v: [v['h0'] >= 0, v['h0'] <= n]}
    infn = {'name': 'contexts-in-fn', 'src': '\n'.join(head + ['fn g(s) {'] + ['    ' + l for l in ladder('s', CONTEXTS)] + ['    return 0', '}', '  print(g(@h1@))']) + '\n', 'assume': lambda v: [v['h1'] >= 0, v['h1'] <= n]}
    infn['src'] = infn['src'].replace('s := @h0@\n', '')
    return [top, infn]

def run(tier, seed):
    c = common.Check('C18', tier, seed, 'symbolic execution of main (MIR) over symbolic source bytes: scanner-position invariant at every Scanner::loc() call and shift lemma for layout prefixes, both as z3 formulas over the input bytes decided per path; reference front end on path witnesses; native replay')
    c.functions |= {'Scanner::new', 'Scanner::next_char', 'Scanner::peek_char', 'Scanner::loc', 'Scanner::range', 'Lexer::next', 'Lexer::next_token', 'Lexer::skip_whitespace_and_comments', 'Lexer::next_str_literal', 'Lexer::next_int',
                    'Lexer::next_symbol_token', 'Lexer::next_multi_symbol_token', 'Lexer::next_keyword_or_ident', 'match_*_symbol_token', '__parse__Prog::* (generated)', 'lalrpop driver (model)', 'run', 'main', 'render_parse_error',
                    'eval_err_to_stacktrace', 'new_loc_err closures'}
    jobs = []
    if tier == 'quick':
        sjobs = [scanner_job(1, False), scanner_job(2, False), scanner_job(3, True)]
        ks = [1, 2]
    else:
        sjobs = [scanner_job(1, False), scanner_job(2, False), scanner_job(3, False), scanner_job(4, True)]
        ks = [1, 2, 3]
    for tname in TAILS:
        for kind in ('layout', 'comment', 'string', 'same-line-string', 'same-line-comment-then-code', 'indent-comment', 'continuation'):
            for k in ks:
                if tier == 'quick' and kind in ('indent-comment', 'continuation') and (k != 2 or tname not in ('undefined', 'stack', 'lex-char', 'parse')): continue
                if tier == 'quick' and k == 2 and kind in ('comment', 'string', 'same-line-string') and tname not in ('undefined', 'op-types', 'stack', 'parse'): continue
                if tier == 'quick' and kind == 'same-line-comment-then-code' and (k != 1 or tname not in ('undefined', 'stack', 'lex-char')): continue
                jobs.append(shift_job(tname, kind, k))
    c.bounds = {'scanner_invariant': 'all valid-UTF-8 inputs of N <= 2 bytes and all ASCII inputs of 3 bytes (quick); N <= 3 UTF-8, 4 ASCII (thorough)',
                'shift_lemma': '%d tails x layout prefixes of <= %d symbolic bytes: {space, tab, CR, LF}*, `#` comment with arbitrary UTF-8 text, multi-line string literal, indented comment, continuation line break' % (len(TAILS), max(ks))}
    c.outside = ['inputs longer than the stated byte counts', 'positions inside interpolation slots (relative to the slot, not stated)', 'column of an end-of-file parse error', 'position of an integer-overflow lexical error within the literal']
    c.assumptions.append('when the current character is a line feed both (line, len+1) and the implementation-chosen (line+1, 0) are accepted (DESIGN.md 3.2)')
    c.run_family('position-contexts', context_templates(), ('position', 'stack', 'panic'), lambda v: 'position:%s:%s' % (v.get('template'), v.get('ref')), par_templates=2, par_paths=8)
    c.run_jobs('scanner-invariant', sjobs[-1:], par_jobs=1, par_paths=16, timeout=3000)
    c.run_jobs('scanner-invariant', sjobs[:-1], par_jobs=len(sjobs) - 1, par_paths=max(2, 16 // max(1, len(sjobs) - 1)), timeout=3000)
    c.run_jobs('shift-lemma', jobs, par_jobs=8, par_paths=2)
    tjobs = [trailing_comment_job(s, k) for s in SEAMS for k in ((1, 2) if tier == 'quick' else (1, 2, 3))]
    c.run_jobs('trailing-comments', tjobs, par_jobs=8, par_paths=2)
    c.bounds['trailing_comments'] = '%d seams where the unexpected token of a syntax error is a line break, with a trailing comment of 1..%d symbolic bytes in front of it' % (len(SEAMS), 2 if tier == 'quick' else 3)
    return c.finish()
