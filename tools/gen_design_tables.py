#!/usr/bin/env python3
# regenerates section 9.7 of DESIGN.md (the table of seeded changes and its totals) from seeded/*/meta.json
import json, glob, os, re
rows = []
for d in sorted(glob.glob('/verif/seeded/*/meta.json')):
    m = json.load(open(d)); k = os.path.basename(os.path.dirname(d)); first = m['checks_run']; low = first.lower()
    if 'NOT KEPT' in first: status = 'outside the statement'
    elif low.startswith('first run: exit 2') or low.startswith('first run: invalid'): status = 'inconclusive'
    elif low.startswith('first run'): status = 'missed'
    else: status = 'caught'
    rows.append((k, m['needs_to_manifest'].replace('|', '\\|'), status, first.replace('|', '\\|')))
def rnd(k):
    m = re.search(r'-r(\d)m', k)
    return int(m.group(1)) if m else (1 if re.search(r'-m[12]$', k) else 2)
tbl = '| seeded | what it needs | first run | what was done / what catches it now |\n|---|---|---|---|\n'
for k, needs, status, first in rows: tbl += '| %s | %s | %s | %s |\n' % (k, needs[:260], status, first[:380])
n = len(rows); c = sum(r[2] == 'caught' for r in rows); i = sum(r[2] == 'inconclusive' for r in rows); mi = sum(r[2] == 'missed' for r in rows); o = sum(r[2].startswith('outside') for r in rows)
per = {}
for r in rows: per.setdefault(rnd(r[0]), []).append(r[2])
perline = '; '.join('%s: %d of %d caught at once' % ('rounds 1-3' if q == 1 else 'round %d' % q, sum(x == 'caught' for x in v), len(v)) for q, v in sorted(per.items()))
tot = 'Totals over %d rounds: %d seeded changes; at the first run %d were caught, %d left the check inconclusive (mostly a std API outside the model library), %d were missed; after strengthening, %d are caught by their property\'s quick check and %d lie outside its statement.  (%s.)' % (max(per), n, c, i, mi, n - o, o, perline)
s = open('/verif/DESIGN.md').read()
a = s.index('Totals over'); b = s.index('\n', a)
s = s[:a] + tot + s[b:]
a = s.index('| seeded | what it needs |'); b = s.index('\n\n', a)
s = s[:a] + tbl.rstrip('\n') + s[b:]
open('/verif/DESIGN.md', 'w').write(s)
print(tot)
