#!/bin/bash
# usage: try_in_wt.sh <worktree> <patch.diff|-> <check ids...>  -- applies the patch in a scratch worktree of /repo (never /repo itself), runs the quick checks with VERIF_REPO, reverts.
wt=$1; patch=$2; shift 2; case "$patch" in -|/*) ;; *) patch="$PWD/$patch";; esac
cd "$wt" && git checkout -q -- . || exit 9
if [ "$patch" != "-" ]; then git apply "$patch" 2>/dev/null || { git apply -3 "$patch" >/dev/null 2>&1; git reset -q; }; fi
git diff --quiet && [ "$patch" != "-" ] && { echo "patch did not apply"; exit 9; }
cd /verif
for i in "$@"; do
  out=$(VERIF_REPO=$wt ./verif check $i --tier ${VERIF_TIER:-quick} 2>&1); rc=$?
  echo "$i exit=$rc $(echo "$out" | grep -c '^VIOLATION') violations, $(echo "$out" | grep -c '^INCONCLUSIVE') inconclusive"
  echo "$out" | grep -A1 '^VIOLATION' | grep 'role=' | head -${SHOW:-3} | cut -c1-300
  [ $rc = 2 ] && echo "$out" | grep '^INCONCLUSIVE' | head -3 | cut -c1-300
done
cd "$wt" && git checkout -q -- .
