#!/usr/bin/env python3
# usage: try_mutation.py <patch.diff> <check ids...>  -- applies the patch to /repo, runs the quick checks, reverts. Prints a summary line per check.
import subprocess, sys, os, re
patch = os.path.abspath(sys.argv[1]); ids = sys.argv[2:]
tier = os.environ.get('VERIF_TIER', 'quick')
assert subprocess.run(['git', '-C', '/repo', 'status', '--porcelain', '--untracked-files=no'], capture_output=True, text=True).stdout.strip() == '', '/repo not clean'
if subprocess.run(['git', '-C', '/repo', 'apply', patch]).returncode != 0:
    # context moved by a later fix: three-way
    r = subprocess.run(['git', '-C', '/repo', 'apply', '-3', patch], capture_output=True, text=True)
    bad = subprocess.run(['git', '-C', '/repo', 'diff', '--name-only', '--diff-filter=U'], capture_output=True, text=True).stdout.strip()
    if r.returncode != 0 or bad:
        subprocess.run(['git', '-C', '/repo', 'reset', '-q', '--hard', 'HEAD']); sys.exit('patch does not apply (even 3-way): ' + patch)
    subprocess.run(['git', '-C', '/repo', 'reset', '-q'])
    print('(applied three-way)')
try:
    for i in ids:
        p = subprocess.run(['/verif/verif', 'check', i, '--tier', tier], capture_output=True, text=True, cwd='/verif')
        v = [l for l in p.stdout.split('\n') if l.startswith('VIOLATION') or l.startswith('  role=')]
        inc = [l for l in p.stdout.split('\n') if l.startswith('INCONCLUSIVE')]
        print('%s exit=%d violations=%d inconclusive=%d' % (i, p.returncode, len(v) // 2, len(inc)))
        for l in v[:4]: print('   ', l[:260])
        if p.returncode == 2:
            for l in inc[:3]: print('   ', l[:300])
finally:
    subprocess.run(['git', '-C', '/repo', 'checkout', '--', '.'], check=True)
