#!/usr/bin/env python3
# Conformance of the model library ("./verif probe"): a scratch copy of /repo (under the cache directory, removed afterwards) gets
# probe/probe.rs -- 61 small functions over the std APIs the models cover -- as an extra module; the native binary prints what each
# returns, the symbolic interpreter runs the same functions from the MIR dump of that copy, and the strings must agree.
# usage: python3-vt tools/stdprobe.py [regex]           (VERIF_PROBE_DIR=<dir> reuses a prepared copy)
import sys, os, re, shutil, subprocess
sys.path.insert(0, os.path.dirname(os.path.dirname(os.path.abspath(__file__))))
VERIF = os.path.dirname(os.path.dirname(os.path.abspath(__file__)))
def prepare():
    d = os.environ.get('VERIF_PROBE_DIR')
    if d and os.path.exists(os.path.join(d, 'expected.txt')): return d, False
    from mirsym import build
    d = os.path.join(build.CACHE, 'stdprobe-%d' % os.getpid()); shutil.rmtree(d, ignore_errors=True)
    shutil.copytree(build.REPO, d, ignore=shutil.ignore_patterns('target', '.git'))
    shutil.copy(os.path.join(VERIF, 'probe', 'probe.rs'), os.path.join(d, 'src', 'probe.rs'))
    m = open(os.path.join(d, 'src', 'main.rs')).read()
    m = re.sub(r'(\nmod \w+;\n)', r'\1mod probe;\n', m, count=1)
    m = re.sub(r'fn main\(\) \{\n', 'fn main() {\n    if std::env::args().nth(1).as_deref() == Some("--probe") {\n        probe::run_all();\n        return;\n    }\n', m, count=1)
    open(os.path.join(d, 'src', 'main.rs'), 'w').write(m)
    env = dict(os.environ, CARGO_NET_OFFLINE='true')
    with build.Lock('native'):
        p = subprocess.run(['cargo', 'build', '--offline', '--bin', 'seed', '--target-dir', os.path.join(build.CACHE, 'native-target')], cwd=d, env=env, capture_output=True, text=True)
        if p.returncode != 0: print(p.stderr[-2000:]); sys.exit(2)
        out = subprocess.run([os.path.join(build.CACHE, 'native-target', 'debug', 'seed'), '--probe'], capture_output=True, text=True).stdout
    open(os.path.join(d, 'expected.txt'), 'w').write(out)
    return d, True
probe_dir, fresh = prepare()
os.environ['VERIF_REPO'] = probe_dir
import importlib
from mirsym import build
build.REPO = probe_dir
from mirsym import harness as H
from mirsym.core import *
from mirsym import models
rx = re.compile(sys.argv[1]) if len(sys.argv) > 1 else None
exp = dict(l.rstrip('\n').split('=', 1) for l in open(os.path.join(build.REPO, 'expected.txt')) if '=' in l)
M = H.make_machine()
ok = bad = uns = 0
for name, want in exp.items():
    if rx and not rx.search(name): continue
    key = [n for n in M.bodies if n in ('p_' + name, 'q_' + name) or n.endswith('::p_' + name) or n.endswith('::q_' + name)]
    if not key: print('MISSING', name); continue
    pid = os.fork()
    if pid == 0:
        try:
            models.OUT['stdout'] = []; models.OUT['stderr'] = []
            M.step_limit = M.steps + 3000000
            r = M.call(key[0], [])
            got = bytes(e.v for e in r.d['b']).decode('utf-8', 'replace').replace('\n', '\\n')
            if got == want: os._exit(0)
            print('MISMATCH %s\n   engine: %s\n   native: %s' % (name, got[:300], want[:300])); os._exit(1)
        except (Unsupported, Panic) as e:
            print('UNSUPPORTED %s: %s' % (name, str(e)[:260])); os._exit(2)
        except BaseException as e:
            print('ERROR %s: %s: %s' % (name, type(e).__name__, str(e)[:260])); os._exit(3)
    _, st = os.waitpid(pid, 0); code = os.WEXITSTATUS(st)
    ok += code == 0; bad += code == 1; uns += code >= 2
print('probes: %d agree, %d MISMATCH, %d unsupported' % (ok, bad, uns))
if fresh: shutil.rmtree(probe_dir, ignore_errors=True)
sys.exit(0 if bad == 0 else 1)
