#!/bin/bash
# usage: confirm_mutation.sh <worktree> <patch.diff> <demo.sd>   -- in a scratch worktree: patch applies, tests pass, demo differs from baseline
set -u
wt=$1; patch=$2; demo=$3
cd "$wt" || exit 9
git checkout -q -- . || exit 9
export CARGO_NET_OFFLINE=true
if [ ! -x "$wt/seed-base" ]; then cargo build --offline -q 2>/dev/null; cp target/debug/seed "$wt/seed-base"; fi
git apply --check "$patch" || { echo "PATCH-DOES-NOT-APPLY"; exit 1; }
git apply "$patch"
res=$(cargo test --offline 2>&1 | grep "^test result" | tr '\n' ' ')
echo "tests: $res"
cargo build --offline -q 2>/dev/null
cp target/debug/seed "$wt/seed-mut"
git checkout -q -- .
b=$("$wt/seed-base" "$demo" 2>&1; echo "exit=$?")
m=$("$wt/seed-mut" "$demo" 2>&1; echo "exit=$?")
if [ "$b" != "$m" ]; then echo "DEMO-DIFFERS"; else echo "DEMO-SAME"; fi
echo "--- base:"; echo "$b" | head -8; echo "--- mutant:"; echo "$m" | head -8
