#!/usr/bin/env python3
# regenerates /verif/MANIFEST.json from the table below (kept in one place so that claimed / not-applicable stay in sync)
import json, os
V = os.path.dirname(os.path.dirname(os.path.abspath(__file__)))
props = [json.loads(l) for l in open(os.path.join(V, 'properties.jsonl'))]
TRUST = ('rustc nightly MIR of the working tree is a faithful lowering (dev profile, overflow checks on); std/hashbrown/snafu-context/lalrpop driver are '
         'Python models of their documented contracts, validated by the 336-script self-test and by replaying every path witness on the native binary; '
         'z3 is trusted for unsat; bounds as stated in the evidence file; inputs are valid UTF-8')
CLAIMED = {
    'C06': dict(technique='bounded symbolic execution of the MIR of main with unconstrained i64 literal holes, decided by z3; lock-step reference semantics; native replay of every witness',
                text='Every path of the real pipeline (lexer, generated parser, evaluator, print, diagnostics) through the arithmetic templates is decided by z3 for ALL pairs of 64-bit operands '
                     '(operands are solver variables, not samples): result exact or the documented error naming op and operands; op-assign forms on variable / element / property targets; comparisons; ranges up to a stated length; integer literals with symbolic digits (1-3 digits, 19- and 20-digit literals at the 2^63 boundary, negated, with `_`, after a binary minus) against their exact 128-bit value. Thorough tier adds Kani/CBMC on the compiled kernel (+ - * and comparisons against an i128 oracle, / % error domain).',
                design='§4 C06'),
    'C07': dict(technique='bounded symbolic execution of the MIR of main: free boolean conditions and jump-placement selectors, decided by z3; lock-step reference semantics; native replay of every witness',
                text='All nestings (to the stated depth) of bare block / if / else-if / while / for over list, string, object / call, with break, continue, return or nothing placed by a symbolic selector and every condition a free boolean, are explored path-wise; on each path z3 decides that stdout, exit status and the error class equal the reference semantics for ALL assignments in the path condition.',
                design='§4 C07'),
    'C10': dict(technique='bounded symbolic execution of the MIR of main: operand pairs chosen by symbolic selectors over a pool of heap graphs with symbolic leaves, decided by z3; lock-step reference; native replay',
                text='All ordered pairs from a pool of small heap graphs (shared children, container inside its comparand, insertion-order variants, mismatching leaves) with symbolic int/bool leaves: ==, !=, ===, !== in both orders equal the reference structural equivalence / identity, type mismatches are reported naming both types, nothing panics, and all pool values print unchanged afterwards. Added: `!=` evaluated first on every pair (an error exactly where `==` is one); byte pieces of multi-byte characters compared alone and inside containers.',
                design='§4 C10'),
    'C11': dict(technique='bounded symbolic execution of the MIR of main: unconstrained i64 indices/bounds and symbolic elements over concrete lengths, decided by z3; lock-step reference; native replay',
                text='For every sequence length up to the bound, index and both range bounds are unconstrained 64-bit solver variables (omitted bounds included): reads, slices, concatenation, element and range assignment are decided against the sequence laws of the statement on every path, including the error domain.',
                design='§4 C11'),
    'C16': dict(technique='bounded symbolic execution of the MIR of main: operand kinds chosen by symbolic selectors (8x8 matrix per operator in one run), leaves symbolic, decided by z3; lock-step reference acceptance table; native replay',
                text='Exhaustive over kinds: 15 binary operators x 8 x 8 operand kinds in plain form, 5 in op-assign form on variable and element targets, and 27 typed contexts x 8 kinds; accepted exactly per the documented table, otherwise exit 103 with a diagnostic naming operator and both type names in order; int and bool leaves are solver variables.',
                design='§4 C16'),
    'C04': dict(technique='bounded symbolic execution of the MIR of main on generated scope-operation programs (symbolic values and conditions), decided by z3; lock-step reference; consistently renamed twins; native replay',
                text='Curated and generated programs over declare / assign / read / block / if / loop / define / call / return-a-closure operations on three names: every value and if-condition is a solver variable; on each path z3 decides stdout and the error class against lexical-scoping reference semantics; each program is also run consistently renamed.',
                design='§4 C04'),
    'C05': dict(technique='bounded symbolic execution of the MIR of main: enumerated alias set-ups, mutation per step chosen by a symbolic selector, values symbolic, decided by z3; lock-step reference heap with cell identities; native replay',
                text='12 list and 5 object alias / fresh-copy set-ups (alias, argument, return, capture, stored, +, slice, spread, collect, +=, range) followed by 1-3 mutations chosen by symbolic selectors: visibility of every write through every name and === between them equal the reference heap on every path.',
                design='§4 C05'),
    'C12': dict(technique='bounded symbolic execution of the MIR of main: operation and key of every history step chosen by symbolic selectors, values symbolic, hash iteration order demonic, decided by z3; lock-step reference; native replay',
                text='Histories of insert / overwrite / op-assign / read through .k and ["k"] over a key alphabet incl. non-identifier, empty and case-variant keys, all insertion orders, literal evaluation order / later-wins / shorthand / spread / computed names: print, for-order and == equal the reference map semantics on every path.',
                design='§4 C12'),
    'C13': dict(technique='bounded symbolic execution of the MIR of main: source value per pattern chosen by a symbolic selector, elements symbolic, hash iteration order demonic, decided by z3; lock-step reference; inverse laws in Seed; native replay',
                text='18 list and 19 object patterns (names, _, nested, renames, collect) against sources of every length 0..4/5 and ill-shaped sources, in declaration / assignment / for-target / parameter position; spread and rest-parameter laws; misplaced spread/collect: bindings, errors and inverse laws equal the reference on every path.',
                design='§4 C13'),
    'C14': dict(technique='bounded symbolic execution of the MIR of main: route of a function value chosen by symbolic selectors, decided by z3; lock-step reference with explicit provenance; native replay',
                text='25 single and 4x6x6 two-move routes of a function value read from objects and moved through variables, arguments, lists, returns, destructuring; arities 0..4 with/without rest x 0..5 arguments; argument evaluation order; fresh parameters: `this`, results and errors equal the reference on every path.',
                design='§4 C14'),
    'C17': dict(technique='bounded symbolic execution of the MIR of main: error kind, syntactic position and call depth chosen by symbolic selectors, decided by z3; diagnostic grammar and stack trace against the lock-step reference call stack; native replay',
                text='67 failing constructs x top level / in function / in method, and 7 representative kinds x 29 syntactic positions x call depths: stdout = output so far, exit 103, first stderr line `<path>:<line>:<col>: [in f: ]<message>` without internal identifiers, Stacktrace lines = the reference call stack, innermost first, ending at <root>. Added: failing iterable / condition expressions; the message must not itself start with a position or function prefix (errors inside interpolation slots excepted); failures the reference does not predict (strings that are not UTF-8 used as slot values / keys) must still be one located diagnostic.',
                design='§4 C17'),
    'C20': dict(technique='bounded symbolic execution of the MIR of main on generated declare/redeclare/assign/read/destructure programs, decided by z3; lock-step reference incl. error position and cited earlier position; native replay',
                text='Same program space as C04 plus 4x5 redeclaration kind pairs and 12 non-bindable target kinds x 10 binding positions (exhaustive): undefined names are reported at the name, redeclarations cite the earlier position, `_` never binds, non-bindable targets are reported errors.',
                design='§4 C04/C20'),
    'C03': dict(technique='bounded symbolic execution of the MIR of main over symbolic source bytes (evaluation stubbed at eval_prog), panic-freedom / diagnostic form / line bound decided by z3 per path; reference front end on path witnesses; native replay',
                text='All valid-UTF-8 inputs up to 2 bytes, all 3-byte strings over a 31-character punctuation alphabet, and sampled truncations of the repository scripts followed by one symbolic byte go through the real scanner, lexer, LR driver model and generated actions: no path panics or hangs, every rejection is one `<path>:<line>:<col>:` diagnostic with line <= lines+1 and empty stdout, and acceptance equals the reference front end on every path witness. Added: every 4-byte run over {CR, LF, space, tab, #} before an offending token (line bound); a 2- / 3-byte character at every length constant found in the current source (+-2) inside the unexpected token; inputs that are not UTF-8 (<= 2 arbitrary bytes; bytes >= 0x80 on the first / a middle / the last line): a read error, exit 103, nothing run; the call depth of the front end on 12 kinds of flat input at 40 / 80 / 160 repetitions must be constant (a growth is confirmed natively with 200000 repetitions).',
                design='§4 C03'),
    'C15': dict(technique='bounded symbolic execution of the MIR of main over source text with symbolic bytes inside string literals; byte-level specification as z3 terms decided per path; native replay',
                text='Literal bodies, escapes, hex digits, bare `$`, and interpolated strings with symbolic UTF-8 text before / between / after two slots drawn from a pool of slot expressions: output equals the byte-level specification (concatenation of pieces and slot values, ->len() = byte count), lexical errors are located at the offending character, nothing panics -- for all byte values on each path. Added: slot sources whose string literals contain escaped backslashes / quotes / dollars; slots whose value is the empty string.',
                design='§4 C15'),
    'C18': dict(technique='bounded symbolic execution of the MIR of main over symbolic source bytes: scanner-position invariant at every Scanner::loc() call and shift lemma for layout prefixes as z3 formulas decided per path; reference front end on witnesses; native replay',
                text='(a) For every input up to the byte bound, each (line, col) the scanner hands out equals the true position of the current character (formula over the symbolic bytes: LF, CR, tab, multi-byte characters); (b) syntax errors are located at the offending character / token (reference front end per path witness); (c) a failing tail preceded by symbolic layout bytes, a comment with arbitrary text, a multi-line string or a continuation break reports every position (diagnostic and stack trace) moved by exactly the displacement of the prefix; (d) 68 expression / statement contexts for undefined names, operator errors and call errors, at top level and inside a function, report the position the statement prescribes (lock-step reference). Added: calls inside the arguments of a failing call; chains of one operator; names in parentheses; a syntax error whose unexpected token is a line break, with a symbolic trailing comment in front of it (the report must not change).',
                design='§4 C18'),
    'C08': dict(technique='bounded symbolic execution of the real front end (Lexer MIR, LR driver model, generated parser actions MIR) on operator sequences with symbolic operator selectors; AST compared with the tier-rule reference parser; parenthesisation laws; native evaluation',
                text='For operand (op operand)^k with every operator position ranging over all 16 binary-operator tokens (k <= 2 exhaustive, k = 3 over a tier-covering subset in quick / all in thorough) and four operand sets incl. negative literals and every postfix form: the AST the generated parser builds (grouping, operator variant, operand order, operator position) equals the tree of the tier rule; wrapping any group in parentheses and re-parsing the minimal print-out give the same tree. Added: an operand set with adjacent literals after a name; a parenthesised variant that parses differently is run natively beside the original.',
                design='§4 C08'),
    'C09': dict(technique='bounded symbolic execution of the real Lexer (MIR) on pairs of texts that differ only in symbolic layout bytes; token-stream equality decided by z3 per path; native comparison of both texts as scripts',
                text='A line break (with symbolic spaces / tabs / CRs and comments around it) after each of the 25 continuation tokens lexes as no break, after each of 27 other tokens as `;`; symbolic whitespace, comment and terminator holes at token gaps of repository scripts leave the token stream unchanged; digit strings with and without `_` and an ASCII character vs its \\xHH escape give equal payloads (solver-checked terms). Added: six spellings of one whole program through main (LF / CRLF line ends, raw CR / LF / CRLF inside a string literal against its \\xHH spelling, blank and comment lines), each in lock-step with the reference.',
                design='§4 C09'),
    'C01': dict(technique='bounded symbolic execution of the MIR of main on compositions of every ordered pair of documented constructs with a symbolic integer routed across the boundary, decided by z3; lock-step complete reference semantics; native replay',
                text='Bounded compositional claim: 14 documented constructs (operators, block, if, while, for, function, closure, list, object, string/interpolation, destructuring, spread, this, type functions) singly, in sampled (quick) / all (thorough) ordered pairs and sampled triples, each routing one unconstrained symbolic i64 inwards and outwards (values, overflow errors with stack traces, break/continue), plus generated programs over the whole feature set (kind-tracking grammar, tracing calls, identity observations; symbolic leaves; at most 2^7 paths each): stdout, exit status and error class equal the complete reference semantics on every path. Depth beyond the bound is outside the claim. Added: a cross-feature family of 55 programs picked from every construct family (this / calls, scopes, control, heap, objects, destructuring, sequences, equality, rendering, diagnostics).',
                design='§4 C01'),
    'C02': dict(technique='bounded symbolic execution of the MIR of main: every reachable MIR assert / modelled std panic / step-budget exhaustion on a satisfiable path is a violation (replayed natively, exit 101); union over template families plus alias shapes',
                text='Panic-freedom and termination of every path of the alias family (same cell on both sides of operators and op-assign, containers inside themselves or their comparand, printed / compared / iterated / spread / destructured), extreme integers in every position, non-ASCII text, and of the arithmetic, sequence, equality, heap and object families (thorough: all families). One open known finding: printing a self-containing value. Added to the quick tier: the binary-operator x operand-kind matrix, built-in functions called with too few / too many arguments, and the cross-feature family (one or two programs of every other family); pieces of multi-byte characters as slot values, keys and operands.',
                design='§4 C02'),
    'C19': dict(technique='bounded symbolic execution of the MIR of main with demonic HashMap/HashSet iteration order and stubbed environment, decided by z3; lock-step reference rendering; structural closure of environment calls over the MIR; native replays under varied environment',
                text='(a) hash iteration order is a demonic choice: all orders of 3-4 collected keys give the same output; (b) the MIR calls no environment-dependent std function outside {args, current_dir, read_to_string, print, eprint, exit}, the working directory reaches no output, three spellings of the script path differ only in the diagnostic prefix; (c) one depth-4 structure built along 6 histories, aliased vs copied children (lists and objects), scalars and empties print identically in the stated format; (d) ten scripts whose outcome could depend on an iteration order give byte-identical outcomes over all explored hash orders (decided across paths; confirmed by repeated native runs). Added: keys and strings with quotes, backslashes, control and non-ASCII characters; empty strings in containers; 2 KiB outputs with `Write::write` modelled by its short-write contract; a memory address formatted into a string is an environment value (confirmed by repeated native runs of a script that prints function values).',
                design='§4 C19'),
}
NA_REASON = 'check not built yet in this round (DESIGN.md §7 gates); no claim is made'
checks = []
for p in props:
    if p['id'] in CLAIMED:
        c = CLAIMED[p['id']]
        checks.append({
            'property_id': p['id'],
            'quick_cmd': './verif check %s --tier quick' % p['id'],
            'thorough_cmd': './verif check %s --tier thorough' % p['id'],
            'evidence_file': 'evidence/%s.json' % p['id'],
            'replay_cmd_template': './verif replay {path}',
            'engine': 'mirsym',
            'level_claimed': {'category': 'model_checking', 'text': c['text'], 'design_ref': c['design']},
            'level_note': TRUST,
            'technique': c['technique'],
        })
m = {
    'version': 1,
    'setup_cmd': './verif setup',
    'hooks': {'guard': 'seed_verif', 'enable': 'none needed: the checks read the MIR of the unmodified crate (cargo +nightly rustc -- -Zunpretty=mir) and drive the ordinary CLI binary',
              'baseline_off_cmd': 'cd /repo && cargo test --workspace --no-fail-fast --offline', 'source_commits': [], 'add_only': True},
    'engines': [
        {'name': 'mirsym', 'path': 'mirsym/', 'serves_properties': sorted(CLAIMED), 'kind_free_text': 'path-wise symbolic interpreter over rustc MIR text (concrete structure, symbolic scalars as z3 bit-vectors, fork at undecided branches), std modelled in Python'},
        {'name': 'ref', 'path': 'ref/', 'serves_properties': sorted(CLAIMED), 'kind_free_text': 'reference front end + semantics written from docs/features.md and the property statements, run in lock-step under each path condition'},
    ],
    'checks': checks,
    'not_applicable': [{'property_id': p['id'], 'reason': NA.get(p['id'], NA_REASON) if (NA := globals().get('NA_OVERRIDES', {})) is not None else NA_REASON} for p in props if p['id'] not in CLAIMED],
    'notes': 'Solver-based checking of the real code: see DESIGN.md. Exit codes: 0 held, 1 VIOLATION (replayed on the native binary first), 2 inconclusive (unsupported path / solver unknown / engine-native disagreement).',
}
json.dump(m, open(os.path.join(V, 'MANIFEST.json'), 'w'), indent=1)
print('claimed', sorted(CLAIMED), 'n/a', len(m['not_applicable']))
