#!/usr/bin/env python3
# regenerates /verif/MANIFEST.json from the table below (kept in one place so that claimed / not-applicable stay in sync)
import json, os
V = os.path.dirname(os.path.dirname(os.path.abspath(__file__)))
props = [json.loads(l) for l in open(os.path.join(V, 'properties.jsonl'))]
TRUST = ('rustc nightly MIR of the working tree is a faithful lowering (dev profile, overflow checks on); std/hashbrown/snafu-context/lalrpop driver are '
         'Python models of their documented contracts, validated by the 336-script self-test and by replaying every path witness on the native binary; '
         'z3 is trusted for unsat; bounds as stated in the evidence file; inputs are valid UTF-8')
CLAIMED = {
    'C06': dict(technique='bounded symbolic execution of the MIR of main with unconstrained i64 literal holes, decided by z3; lock-step reference semantics; native replay of every witness',
                text='Every path of the real pipeline (lexer, generated parser, evaluator, print, diagnostics) through the arithmetic templates is decided by z3 for ALL pairs of 64-bit operands '
                     '(operands are solver variables, not samples): result exact or the documented error naming op and operands; op-assign forms on variable / element / property targets; comparisons; ranges up to a stated length.',
                design='§4 C06'),
}
NA_REASON = 'check not built yet in this round (DESIGN.md §7 gates); no claim is made'
checks = []
for p in props:
    if p['id'] in CLAIMED:
        c = CLAIMED[p['id']]
        checks.append({
            'property_id': p['id'],
            'quick_cmd': './verif check %s --tier quick' % p['id'],
            'thorough_cmd': './verif check %s --tier thorough' % p['id'],
            'evidence_file': 'evidence/%s.json' % p['id'],
            'replay_cmd_template': './verif replay {path}',
            'engine': 'mirsym',
            'level_claimed': {'category': 'model_checking', 'text': c['text'], 'design_ref': c['design']},
            'level_note': TRUST,
            'technique': c['technique'],
        })
m = {
    'version': 1,
    'setup_cmd': './verif setup',
    'hooks': {'guard': 'seed_verif', 'enable': 'none needed: the checks read the MIR of the unmodified crate (cargo +nightly rustc -- -Zunpretty=mir) and drive the ordinary CLI binary',
              'baseline_off_cmd': 'cd /repo && cargo test --workspace --no-fail-fast --offline', 'source_commits': [], 'add_only': True},
    'engines': [
        {'name': 'mirsym', 'path': 'mirsym/', 'serves_properties': sorted(CLAIMED), 'kind_free_text': 'path-wise symbolic interpreter over rustc MIR text (concrete structure, symbolic scalars as z3 bit-vectors, fork at undecided branches), std modelled in Python'},
        {'name': 'ref', 'path': 'ref/', 'serves_properties': sorted(CLAIMED), 'kind_free_text': 'reference front end + semantics written from docs/features.md and the property statements, run in lock-step under each path condition'},
    ],
    'checks': checks,
    'not_applicable': [{'property_id': p['id'], 'reason': NA.get(p['id'], NA_REASON) if (NA := globals().get('NA_OVERRIDES', {})) is not None else NA_REASON} for p in props if p['id'] not in CLAIMED],
    'notes': 'Solver-based checking of the real code: see DESIGN.md. Exit codes: 0 held, 1 VIOLATION (replayed on the native binary first), 2 inconclusive (unsupported path / solver unknown / engine-native disagreement).',
}
json.dump(m, open(os.path.join(V, 'MANIFEST.json'), 'w'), indent=1)
print('claimed', sorted(CLAIMED), 'n/a', len(m['not_applicable']))
