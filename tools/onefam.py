import sys, os; sys.path.insert(0, '/verif')
# usage: onefam.py <family module> <template-name-regex> [prop]   (VERIF_REPO honoured)
import importlib, re
from checks import common
fam = importlib.import_module('families.' + sys.argv[1]); rx = re.compile(sys.argv[2]); prop = sys.argv[3] if len(sys.argv) > 3 else 'C01'
c = common.Check(prop, 'quick', 0, 'dev run')
ts = [t for t in fam.templates('quick', 0) if rx.search(t['name'])]
print('templates:', [t['name'] for t in ts])
c.run_family('dev', ts, ('exit', 'stdout', 'stderr-empty', 'format', 'position', 'message', 'stack', 'panic', 'hang'), getattr(fam, 'role', lambda v: 'dev:%s' % v.get('template')))
for v in c.violations[:8]: print('VIOL', {k: (str(x)[:300]) for k, x in v.items() if k in ('role', 'what', 'template')})
for i in c.inconclusive[:5]: print('INC', str(i)[:300])
print('paths', c.states, 'silent', c.silent, 'violations', len(c.violations), 'inconclusive', len(c.inconclusive))
