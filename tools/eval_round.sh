#!/bin/bash
# usage: eval_round.sh <suffix> <prop> [<prop>...]  -- confirm each /tmp/mut-<prop>/out/mN, store under seeded/<prop>-<suffix>N, run the property's quick check against it
suf=$1; shift
cd /verif
for p in "$@"; do for m in m1 m2; do
  d=seeded/$p-$suf${m#m}; mkdir -p $d
  r=$(tools/confirm_mutation.sh /tmp/mut-$p /tmp/mut-$p/out/$m/patch.diff /tmp/mut-$p/out/$m/demo.sd 2>&1 | grep -E "tests:|DEMO-|PATCH" | tr '\n' ' ')
  case "$r" in *"3 passed"*"336 passed"*DEMO-DIFFERS*) ok=confirmed;; *) ok="NOT-CONFIRMED: $r";; esac
  cp /tmp/mut-$p/out/$m/patch.diff /tmp/mut-$p/out/$m/demo.sd /tmp/mut-$p/out/$m/notes.txt $d/ 2>/dev/null
  echo "=== $p-$suf${m#m} [$ok]"
  timeout 1500 tools/try_mutation.py $d/patch.diff $p 2>&1 | tail -4 | cut -c1-240
done; done
