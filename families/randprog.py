# C01: random larger programs over the whole documented feature set (values, operators, variables and blocks, if/while/for,
# functions and closures, lists, objects, strings and interpolation, indexing, destructuring, spread, `this`, type functions),
# generated from a kind-tracking grammar so that most programs run to completion; integer and boolean leaves are solver variables.
import random

class G:
    def __init__(self, rng, size):
        self.r = rng; self.size = size; self.h = 0; self.b = 0; self.n = 0
        self.scopes = [{}]            # name -> kind
        self.in_fn = 0; self.in_loop = 0
    def fresh(self, p):
        self.n += 1; return '%s%d' % (p, self.n)
    def hole(self): self.h += 1; return '@h%d@' % self.h
    def bhole(self): self.b += 1; return '@b%d@' % self.b
    def vars_of(self, kind):
        out = []
        for sc in self.scopes:
            out += [n for n, k in sc.items() if k == kind]
        return out
    def declare(self, name, kind): self.scopes[-1][name] = kind
    @property
    def fns(self):
        out = []
        for sc in self.scopes:
            out += [(n, list(k[1]), 'int') for n, k in sc.items() if isinstance(k, tuple) and k[0] == 'fn']
        return out
    def pick(self, xs): return self.r.choice(xs)

    # ---------------------------------------------------------- expressions
    def expr(self, kind, d=0):
        r = self.r; vs = self.vars_of(kind)
        if d > 2 or r.random() < 0.25:
            if vs and r.random() < 0.7: return r.choice(vs)
            return self.leaf(kind)
        if kind == 'int':
            c = r.random()
            if c < 0.25: return '%s %s %s' % (self.expr('int', d + 1), r.choice(['+', '-']), self.expr('int', d + 1))
            if c < 0.35: return '%s * %d' % (self.expr('int', d + 1), r.randint(0, 3))
            if c < 0.45: return '(%s) %s %d' % (self.expr('int', d + 1), r.choice(['/', '%']), r.randint(1, 5))
            if c < 0.55: return '%s->len()' % self.atom('str', d + 1)
            if c < 0.65 and self.vars_of('list'): return '%s[0]' % r.choice(self.vars_of('list'))
            if c < 0.75 and self.vars_of('obj'): return '%s.a' % r.choice(self.vars_of('obj'))
            if c < 0.9:
                fs = [f for f in self.fns if f[2] == 'int']
                if fs:
                    f = r.choice(fs); return '%s(%s)' % (f[0], ', '.join(self.expr(k, d + 1) for k in f[1]))
            return self.leaf('int')
        if kind == 'bool':
            c = r.random()
            if c < 0.4: return '%s %s %s' % (self.atom('int', d + 1), r.choice(['<', '<=', '>', '>=', '==', '!=']), self.atom('int', d + 1))
            if c < 0.6: return '%s %s %s' % (self.atom('bool', d + 1), r.choice(['&&', '||']), self.atom('bool', d + 1))
            if c < 0.7: return '%s == %s' % (self.atom('str', d + 1), self.atom('str', d + 1))
            if c < 0.8 and self.vars_of('list'): return '%s %s %s' % (r.choice(self.vars_of('list')), r.choice(['==', '===', '!=']), self.atom('list', d + 1))
            return self.leaf('bool')
        if kind == 'str':
            c = r.random()
            if c < 0.3: return '%s + %s' % (self.atom('str', d + 1), self.atom('str', d + 1))
            if c < 0.55:
                sv = self.vars_of('str')
                return '$"<${%s}|${%s}>"' % (r.choice(sv) if sv else '"q"', self.atom('int', 3) + '->type()')
            if c < 0.7: return '%s->type()' % self.atom(r.choice(['int', 'bool', 'list', 'obj', 'str']), d + 1)
            if c < 0.8: return '%s[0:1]' % self.atom('str', d + 1)
            return self.leaf('str')
        if kind == 'list':
            c = r.random()
            if c < 0.3: return '[%s]' % ', '.join(self.expr('int', d + 1) for _ in range(r.randint(1, 3)))
            if c < 0.45: return '%s + %s' % (self.atom('list', d + 1), self.atom('list', d + 1))
            if c < 0.6: return '[%s.., %s]' % (self.atom('list', d + 1), self.expr('int', d + 1))
            if c < 0.7: return '%s[0:1]' % self.atom('list', d + 1)
            if c < 0.8: return '%d .. %d' % (r.randint(0, 2), r.randint(2, 4))
            return self.leaf('list')
        if kind == 'obj':
            c = r.random()
            if c < 0.5: return '{"a": %s, "b": %s}' % (self.expr('int', d + 1), self.expr('list', d + 1))
            if c < 0.7 and vs: return '{%s.., "c": %s}' % (r.choice(vs), self.expr('int', d + 1))
            return self.leaf('obj')
        raise ValueError(kind)
    def atom(self, kind, d):
        e = self.expr(kind, max(d, 2))
        return e if (' ' not in e or e.startswith(('[', '{', '$"', '"'))) else '(' + e + ')'
    def leaf(self, kind):
        r = self.r
        if kind == 'int': return self.hole() if r.random() < 0.4 else str(r.randint(0, 9))
        if kind == 'bool': return self.bhole() if r.random() < 0.5 else r.choice(['true', 'false'])
        if kind == 'str': return r.choice(['"s"', '"ab"', '"é"', '"x y"'])
        if kind == 'list': return '[%s, %d]' % (self.hole() if r.random() < 0.3 else str(r.randint(0, 9)), r.randint(0, 9))
        if kind == 'obj': return '{"a": %d, "b": [%d]}' % (r.randint(0, 9), r.randint(0, 9))

    # ---------------------------------------------------------- statements
    def block(self, n, d, extra=None):
        self.scopes.append(dict(extra or {}))
        out = []
        for _ in range(n):
            if self.size <= 0: break
            out += self.stmt(d)
        self.scopes.pop()
        return ['    ' + l for l in (out or ['print(0)'])]
    def stmt(self, d):
        r = self.r; self.size -= 1
        kinds = ['decl'] * 4 + ['print'] * 4 + ['assign', 'assign', 'opassign', 'destruct', 'setidx', 'setprop']
        if d < 3: kinds += ['if', 'if', 'while', 'forlist', 'forobj', 'forstr', 'fn', 'closure', 'method', 'block']
        if self.fns: kinds += ['callstmt']
        if self.in_fn: kinds += ['return']
        if self.in_loop: kinds += ['jump']
        k = r.choice(kinds)
        K = ['int', 'int', 'bool', 'str', 'list', 'obj']
        if k == 'decl':
            kind = r.choice(K); e = self.expr(kind); n = self.fresh('v'); self.declare(n, kind); return ['%s := %s' % (n, e)]
        if k == 'print': return ['print(%s)' % self.expr(r.choice(K))]
        if k == 'assign':
            kind = r.choice(K); vs = self.vars_of(kind)
            if not vs: return ['print(%s)' % self.expr(kind)]
            return ['%s = %s' % (r.choice(vs), self.expr(kind))]
        if k == 'opassign':
            kind = r.choice(['int', 'str', 'list']); vs = self.vars_of(kind)
            if not vs: return ['print(1)']
            return ['%s %s= %s' % (r.choice(vs), '+' if kind != 'int' else r.choice(['+', '-', '*']), self.expr(kind, 2))]
        if k == 'destruct':
            c = r.random(); a, b = self.fresh('v'), self.fresh('v')
            if c < 0.4:
                e = '[%s, %s]' % (self.expr('int', 1), self.expr('str', 1)); self.declare(a, 'int'); self.declare(b, 'str'); return ['[%s, %s] := %s' % (a, b, e)]
            if c < 0.7:
                e = self.atom('list', 1); self.declare(a, 'int'); self.declare(b, 'list'); return ['[%s, ..%s] := %s + [1]' % (a, b, e)]
            e = self.atom('obj', 1); self.declare(a, 'int'); self.declare(b, 'obj'); return ['{"a": %s, ..%s} := %s' % (a, b, e)]
        if k == 'setidx':
            vs = self.vars_of('list')
            if not vs: return ['print(2)']
            return ['%s[0] = %s' % (r.choice(vs), self.expr('int', 1))]
        if k == 'setprop':
            vs = self.vars_of('obj')
            if not vs: return ['print(3)']
            return [r.choice(['%s.a = %s', '%s["a"] = %s', '%s.a += %s']) % (r.choice(vs), self.expr('int', 1))]
        if k == 'block': return ['{'] + self.block(r.randint(1, 3), d + 1) + ['}']
        if k == 'if':
            out = ['if %s {' % self.expr('bool')] + self.block(r.randint(1, 3), d + 1)
            if r.random() < 0.5: out += ['} else if %s {' % self.expr('bool')] + self.block(r.randint(1, 2), d + 1)
            if r.random() < 0.6: out += ['} else {'] + self.block(r.randint(1, 2), d + 1)
            return out + ['}']
        if k == 'while':
            i = self.fresh('i'); self.declare(i, 'int'); self.in_loop += 1
            body = self.block(r.randint(1, 3), d + 1); self.in_loop -= 1
            return ['%s := 0' % i, 'while %s < %d {' % (i, r.randint(1, 3)), '    %s += 1' % i] + body + ['}']
        if k in ('forlist', 'forobj', 'forstr'):
            a, b = self.fresh('k'), self.fresh('e'); self.in_loop += 1
            if k == 'forlist': it = self.atom('list', 1); ex = {a: 'int', b: 'int'}
            elif k == 'forstr': it = self.atom('str', 1); ex = {a: 'int', b: 'str'}
            else: it = '{"p": %s, "q": %s}' % (self.expr('int', 2), self.expr('int', 2)); ex = {a: 'str', b: 'int'}
            body = self.block(r.randint(1, 3), d + 1, ex); self.in_loop -= 1
            return ['for [%s, %s] in %s {' % (a, b, it)] + body + ['}']
        if k == 'fn':
            f = self.fresh('f'); pk = [r.choice(['int', 'list', 'str']) for _ in range(r.randint(0, 2))]; ps = [self.fresh('p') for _ in pk]
            self.in_fn += 1; loop = self.in_loop; self.in_loop = 0
            body = self.block(r.randint(1, 3), d + 1, dict(zip(ps, pk)))
            self.scopes.append(dict(zip(ps, pk))); ret = self.expr('int', 1); self.scopes.pop()
            self.in_fn -= 1; self.in_loop = loop
            self.declare(f, ('fn', tuple(pk)))
            return ['fn %s(%s) {' % (f, ', '.join(ps))] + body + ['    return %s' % ret, '}']
        if k == 'closure':
            c = self.fresh('c'); g = self.fresh('g'); self.declare(c, 'int')
            self.declare(g, ('fn', ()))
            return ['%s := %s' % (c, self.expr('int', 2)), '%s := fn () {' % g, '    %s += 1' % c, '    return %s' % c, '}', 'print(%s() + %s())' % (g, g)]
        if k == 'method':
            o = self.fresh('m'); self.declare(o, 'objm')
            return ['%s := {"v": %s, "get": fn (k) {' % (o, self.expr('int', 2)), '    this.v += k', '    return this.v', '}}', 'print(%s.get(%s))' % (o, self.expr('int', 2)), 'h%s := null' % o, 'h%s = %s["get"]' % (o, o), 'print(h%s(1))' % o, 'g%s := %s.get' % (o, o), 'print(g%s(2))' % o, 'print(%s.v)' % o]
        if k == 'callstmt':
            f = r.choice(self.fns); return ['print(%s(%s))' % (f[0], ', '.join(self.expr(kk, 1) for kk in f[1]))]
        if k == 'return': return ['if %s {' % self.expr('bool', 1), '    return %s' % self.expr('int', 1), '}']
        if k == 'jump': return ['if %s {' % self.expr('bool', 1), '    %s' % r.choice(['break', 'continue']), '}']
        raise ValueError(k)

def gen(seed, size):
    rng = random.Random(seed)
    g = G(rng, size)
    lines = []
    while g.size > 0: lines += g.stmt(0)
    for kind in ('int', 'str', 'list', 'obj'):
        for v in g.vars_of(kind)[:3]: lines.append('print(%s)' % v)
    return '\n'.join(lines) + '\n'

def templates(tier, seed=0):
    n = 60 if tier == 'quick' else 500
    return [{'name': 'rand-%d' % i, 'src': gen(seed * 1000003 + i, 8 + i % 13)} for i in range(n)]

def role(v):
    return 'randprog:%s:%s:%s' % (v.get('template', ''), v['aspect'], v['ref'])
