# C01: random larger programs over the whole documented feature set (values, operators, variables and blocks, if/while/for,
# functions and closures, lists, objects, strings and interpolation, indexing, destructuring, spread, `this`, type functions),
# generated from a kind-tracking grammar so that most programs run to completion; integer and boolean leaves are solver variables.
import random

class G:
    def __init__(self, rng, size, emph=()):
        self.r = rng; self.size = size; self.h = 0; self.b = 0; self.n = 0; self.emph = list(emph)
        self.scopes = [{}]            # name -> kind
        self.in_fn = 0; self.in_loop = 0
    def fresh(self, p):
        self.n += 1; return '%s%d' % (p, self.n)
    def hole(self): self.h += 1; return '@h%d@' % self.h
    def bhole(self): self.b += 1; return '@b%d@' % self.b
    def vars_of(self, kind):
        out = []
        for sc in self.scopes:
            out += [n for n, k in sc.items() if k == kind]
        return out
    def declare(self, name, kind): self.scopes[-1][name] = kind
    @property
    def fns(self):
        out = []
        for sc in self.scopes:
            out += [(n, list(k[1]), 'int') for n, k in sc.items() if isinstance(k, tuple) and k[0] == 'fn']
        return out
    def pick(self, xs): return self.r.choice(xs)

    # ---------------------------------------------------------- expressions
    def expr(self, kind, d=0):
        r = self.r; vs = self.vars_of(kind)
        if d > 2 or r.random() < 0.25:
            if vs and r.random() < 0.7: return r.choice(vs)
            return self.leaf(kind)
        if kind == 'int':
            c = r.random()
            if c < 0.08: return 'tr(%s)' % self.expr('int', d + 1)          # tracing identity: makes evaluation order and count observable
            if c < 0.25: return '%s %s %s' % (self.expr('int', d + 1), r.choice(['+', '-']), self.expr('int', d + 1))
            if c < 0.35: return '%s * %d' % (self.expr('int', d + 1), r.randint(0, 3))
            if c < 0.45: return '(%s) %s %d' % (self.expr('int', d + 1), r.choice(['/', '%']), r.randint(1, 5))
            if c < 0.55: return '%s->len()' % self.atom('str', d + 1)
            if c < 0.65 and self.vars_of('list'): return '%s[0]' % r.choice(self.vars_of('list'))
            if c < 0.75 and self.vars_of('obj'): return '%s.a' % r.choice(self.vars_of('obj'))
            if c < 0.9:
                fs = [f for f in self.fns if f[2] == 'int']
                if fs:
                    f = r.choice(fs); return '%s(%s)' % (f[0], ', '.join(self.expr(k, d + 1) for k in f[1]))
            return self.leaf('int')
        if kind == 'bool':
            c = r.random()
            if c < 0.4: return '%s %s %s' % (self.atom('int', d + 1), r.choice(['<', '<=', '>', '>=', '==', '!=']), self.atom('int', d + 1))
            if c < 0.6: return '%s %s %s' % (self.atom('bool', d + 1), r.choice(['&&', '||']), self.atom('bool', d + 1))
            if c < 0.7: return '%s == %s' % (self.atom('str', d + 1), self.atom('str', d + 1))
            if c < 0.8 and self.vars_of('list'): return '%s %s %s' % (r.choice(self.vars_of('list')), r.choice(['==', '===', '!=']), self.atom('list', d + 1))
            return self.leaf('bool')
        if kind == 'str':
            c = r.random()
            if c < 0.3: return '%s + %s' % (self.atom('str', d + 1), self.atom('str', d + 1))
            if c < 0.55:
                sv = self.vars_of('str')
                return '$"<${%s}|${%s}>"' % (r.choice(sv) if sv else '"q"', self.atom('int', 3) + '->type()')
            if c < 0.7: return '%s->type()' % self.atom(r.choice(['int', 'bool', 'list', 'obj', 'str']), d + 1)
            if c < 0.8: return '%s[0:1]' % self.atom('str', d + 1)
            return self.leaf('str')
        if kind == 'list':
            c = r.random()
            if c < 0.3: return '[%s]' % ', '.join(self.expr('int', d + 1) for _ in range(r.randint(1, 3)))
            if c < 0.45: return '%s + %s' % (self.atom('list', d + 1), self.atom('list', d + 1))
            if c < 0.6: return '[%s.., %s]' % (self.atom('list', d + 1), self.expr('int', d + 1))
            if c < 0.7: return '%s[0:1]' % self.atom('list', d + 1)
            if c < 0.8: return '%d .. %d' % (r.randint(0, 2), r.randint(2, 4))
            return self.leaf('list')
        if kind == 'obj':
            c = r.random()
            if c < 0.5: return '{"a": %s, "b": %s}' % (self.expr('int', d + 1), self.expr('list', d + 1))
            if c < 0.7 and vs: return '{%s.., "c": %s}' % (r.choice(vs), self.expr('int', d + 1))
            return self.leaf('obj')
        raise ValueError(kind)
    def atom(self, kind, d):
        e = self.expr(kind, max(d, 2))
        return e if (' ' not in e or e.startswith(('[', '{', '$"', '"'))) else '(' + e + ')'
    def leaf(self, kind):
        r = self.r
        if kind == 'int': return self.hole() if r.random() < 0.4 else str(r.randint(0, 9))
        if kind == 'bool': return self.bhole() if r.random() < 0.5 else r.choice(['true', 'false'])
        if kind == 'str': return r.choice(['"s"', '"ab"', '"é"', '"x y"'])
        if kind == 'list': return '[%s, %d]' % (self.hole() if r.random() < 0.3 else str(r.randint(0, 9)), r.randint(0, 9))
        if kind == 'obj': return '{"a": %d, "b": [%d]}' % (r.randint(0, 9), r.randint(0, 9))

    # ---------------------------------------------------------- statements
    def block(self, n, d, extra=None):
        self.scopes.append(dict(extra or {}))
        out = []
        for _ in range(n):
            if self.size <= 0: break
            out += self.stmt(d)
        self.scopes.pop()
        return ['    ' + l for l in (out or ['print(0)'])]
    def stmt(self, d):
        r = self.r; self.size -= 1
        kinds = ['decl'] * 4 + ['print'] * 4 + ['assign', 'assign', 'opassign', 'destruct', 'setidx', 'setprop', 'alias', 'eq', 'opelem', 'rangeassign', 'spreadcall', 'objkey', 'strops']
        kinds += [k for k in self.emph for _ in range(3)]
        if d < 3: kinds += ['if', 'if', 'while', 'forlist', 'forobj', 'forstr', 'fn', 'closure', 'method', 'block', 'forpat', 'fnpat', 'loopclosure']
        kinds = [k for k in kinds if d < 3 or k not in ('forpat', 'fnpat', 'loopclosure', 'if', 'while', 'forlist', 'forobj', 'forstr', 'fn', 'closure', 'method', 'block')]
        if self.fns: kinds += ['callstmt']
        if self.in_fn: kinds += ['return']
        if self.in_loop: kinds += ['jump']
        k = r.choice(kinds)
        K = ['int', 'int', 'bool', 'str', 'list', 'obj']
        if k == 'decl':
            kind = r.choice(K); e = self.expr(kind); n = self.fresh('v'); self.declare(n, kind); return ['%s := %s' % (n, e)]
        if k == 'print': return ['print(%s)' % self.expr(r.choice(K))]
        if k == 'assign':
            kind = r.choice(K); vs = self.vars_of(kind)
            if not vs: return ['print(%s)' % self.expr(kind)]
            return ['%s = %s' % (r.choice(vs), self.expr(kind))]
        if k == 'opassign':
            kind = r.choice(['int', 'str', 'list']); vs = self.vars_of(kind)
            if not vs: return ['print(1)']
            return ['%s %s= %s' % (r.choice(vs), '+' if kind != 'int' else r.choice(['+', '-', '*']), self.expr(kind, 2))]
        if k == 'destruct' and r.random() < 0.35:
            iv = self.vars_of('int'); lv = self.vars_of('list')
            if len(iv) >= 2:
                x, y = r.sample(iv, 2)
                return [r.choice(['[%s, %s] = [%s, %s]' % (x, y, y, x), '[%s, %s] = [%s, %s + %s]' % (x, y, y, x, y), '[%s, %s] = [%s + 1, %s]' % (x, y, x, x)]), 'print(%s)' % x, 'print(%s)' % y]
            if lv:
                l = r.choice(lv); return ['%s += [5, 6]' % l, '[%s[0], %s[1]] = [%s[1], %s[0]]' % (l, l, l, l), 'print(%s)' % l]
        if k == 'destruct':
            c = r.random(); a, b = self.fresh('v'), self.fresh('v')
            if c < 0.4:
                e = '[%s, %s]' % (self.expr('int', 1), self.expr('str', 1)); self.declare(a, 'int'); self.declare(b, 'str'); return ['[%s, %s] := %s' % (a, b, e)]
            if c < 0.7:
                e = self.atom('list', 1); self.declare(a, 'int'); self.declare(b, 'list'); return ['[%s, ..%s] := %s + [1]' % (a, b, e)]
            e = self.atom('obj', 1); self.declare(a, 'int'); self.declare(b, 'obj'); return ['{"a": %s, ..%s} := %s' % (a, b, e)]
        if k == 'alias':
            kind = r.choice(['list', 'obj']); vs = self.vars_of(kind)
            if not vs: return ['print(4)']
            n = self.fresh('v'); self.declare(n, kind)
            return [r.choice(['%s := %s', '%s := [%s][0]', '%s := (fn (q) {\n    return q\n})(%s)']) % (n, r.choice(vs))]
        if k == 'eq':
            kind = r.choice(['list', 'obj']); vs = self.vars_of(kind)
            if len(vs) < 1: return ['print(5)']
            a, b = r.choice(vs), r.choice(vs)
            if kind == 'list' and r.random() < 0.5:
                return ['print([%s, %s] == [%s, %s])' % (a, a, self.atom('list', 2), self.atom('list', 2)), 'print([%s + [], %s + [1]] == [%s, %s])' % (a, a, b, b)]
            if kind == 'obj' and r.random() < 0.5:
                return ['print({"p": %s, "q": %s} == {"p": %s, "q": %s})' % (a, a, self.atom('obj', 2), self.atom('obj', 2))]
            return ['print(%s == %s)' % (a, b), 'print(%s === %s)' % (a, b), 'print(%s != %s)' % (a, self.atom(kind, 2))]
        if k == 'opelem':
            lv, ov = self.vars_of('list'), self.vars_of('obj')
            c = r.random()
            if c < 0.4 and lv: return ['%s[0] %s= %s' % (r.choice(lv), r.choice(['+', '-', '*']), self.expr('int', 2))]
            if c < 0.7 and ov: return [r.choice(['%s.a %s= %s', '%s["a"] %s= %s']) % (r.choice(ov), r.choice(['+', '-']), self.expr('int', 2))]
            if ov: return ['%s.b += %s' % (r.choice(ov), self.atom('list', 2))]
            return ['print(6)']
        if k == 'rangeassign':
            lv = self.vars_of('list')
            if not lv: return ['print(7)']
            return [r.choice(['%s[0:1] = [%s]', '%s[:1] = [%s]', '%s[0:1] = [%s]']) % (r.choice(lv), self.expr('int', 2) if r.random() < 2 else 'z')][:1] if r.random() < 0.7 else ['%s[0:1] = "z"' % r.choice(lv)]
        if k == 'spreadcall':
            fs = [f for f in self.fns if f[1] and all(kk == 'int' for kk in f[1])]
            if not fs: return ['print(8)']
            f = r.choice(fs); args = '[%s]' % ', '.join(self.expr('int', 2) for _ in f[1])
            return ['print(%s(%s..))' % (f[0], args)]
        if k == 'objkey':
            ov = self.vars_of('obj')
            if not ov: return ['print(9)']
            o = r.choice(ov); key = r.choice(['"a"', '"zz"', '"b"', '"" + "a"'])
            return [r.choice(['%s[%s] = %s' % (o, key, self.expr('int', 2)), 'print(%s)' % o, 'for [kk, vv] in %s {\n    print(kk)\n}' % o, 'print({%s.., "a": 0} == {"a": 0, %s..})' % (o, o)])]
        if k == 'strops':
            sv = self.vars_of('str')
            if not sv: return ['print("")']
            x = r.choice(sv)
            return [r.choice(['print(%s[0:1] + %s[1:])' % (x, x), 'for [si, sc] in %s {\n    print(sc == %s[si])\n}' % (x, x), 'print($"${%s}-${%s + "é"}")' % (x, x), 'print((%s + %s)->len())' % (x, x)])]
        if k == 'forpat':
            a, b, c2 = self.fresh('k'), self.fresh('e'), self.fresh('e'); self.in_loop += 1
            body = self.block(r.randint(1, 2), d + 1, {a: 'int', b: 'int', c2: 'list'}); self.in_loop -= 1
            return ['for [%s, [%s, ..%s]] in [[%s, 1], [%s, 2, 3]] {' % (a, b, c2, self.expr('int', 2), self.expr('int', 2))] + body + ['}']
        if k == 'fnpat':
            f = self.fresh('f'); a, b, c2 = self.fresh('p'), self.fresh('p'), self.fresh('p')
            self.in_fn += 1; loop = self.in_loop; self.in_loop = 0
            body = self.block(r.randint(1, 2), d + 1, {a: 'int', b: 'list', c2: 'int'})
            self.in_fn -= 1; self.in_loop = loop
            return ['fn %s([%s, ..%s], {"a": %s}) {' % (f, a, b, c2)] + body + ['    return %s + %s' % (a, c2), '}', 'print(%s(%s + [1], %s))' % (f, self.atom('list', 2), self.atom('obj', 2))]
        if k == 'loopclosure':
            acc = self.fresh('acc'); w = self.fresh('w'); i = self.fresh('i')
            kind = r.choice(['while', 'for'])
            head = ['%s := []' % acc] + (['%s := 0' % i, 'while %s < 2 {' % i, '    %s += 1' % i, '    %s := %s * 10' % (w, i)] if kind == 'while' else ['for [%s, %s] in [%s, 5] {' % (i, w, self.expr('int', 2))])
            return head + ['    %s += [fn () {' % acc, '        %s += 1' % w, '        return %s' % w, '    }]', '}', 'print(%s[0]())' % acc, 'print(%s[1]())' % acc, 'print(%s[0]())' % acc]
        if k == 'setidx':
            vs = self.vars_of('list')
            if not vs: return ['print(2)']
            return ['%s[0] = %s' % (r.choice(vs), self.expr('int', 1))]
        if k == 'setprop':
            vs = self.vars_of('obj')
            if not vs: return ['print(3)']
            return [r.choice(['%s.a = %s', '%s["a"] = %s', '%s.a += %s']) % (r.choice(vs), self.expr('int', 1))]
        if k == 'block': return ['{'] + self.block(r.randint(1, 3), d + 1) + ['}']
        if k == 'if':
            out = ['if %s {' % self.expr('bool')] + self.block(r.randint(1, 3), d + 1)
            if r.random() < 0.5: out += ['} else if %s {' % self.expr('bool')] + self.block(r.randint(1, 2), d + 1)
            if r.random() < 0.6: out += ['} else {'] + self.block(r.randint(1, 2), d + 1)
            return out + ['}']
        if k == 'while':
            i = self.fresh('i'); self.declare(i, 'ctr'); self.in_loop += 1          # loop counters are never assignment targets: every generated loop terminates
            body = self.block(r.randint(1, 3), d + 1); self.in_loop -= 1
            return ['%s := 0' % i, 'while %s < %d {' % (i, r.randint(1, 3)), '    %s += 1' % i] + body + ['}']
        if k in ('forlist', 'forobj', 'forstr'):
            a, b = self.fresh('k'), self.fresh('e'); self.in_loop += 1
            if k == 'forlist': it = self.atom('list', 1); ex = {a: 'int', b: 'int'}
            elif k == 'forstr': it = self.atom('str', 1); ex = {a: 'int', b: 'str'}
            else: it = '{"p": %s, "q": %s}' % (self.expr('int', 2), self.expr('int', 2)); ex = {a: 'str', b: 'int'}
            body = self.block(r.randint(1, 3), d + 1, ex); self.in_loop -= 1
            return ['for [%s, %s] in %s {' % (a, b, it)] + body + ['}']
        if k == 'fn':
            f = self.fresh('f'); pk = [r.choice(['int', 'list', 'str']) for _ in range(r.randint(0, 2))]; ps = [self.fresh('p') for _ in pk]
            self.in_fn += 1; loop = self.in_loop; self.in_loop = 0
            body = self.block(r.randint(1, 3), d + 1, dict(zip(ps, pk)))
            self.scopes.append(dict(zip(ps, pk))); ret = self.expr('int', 1); self.scopes.pop()
            self.in_fn -= 1; self.in_loop = loop
            self.declare(f, ('fn', tuple(pk)))
            return ['fn %s(%s) {' % (f, ', '.join(ps))] + body + ['    return %s' % ret, '}']
        if k == 'closure':
            init = self.expr('int', 2)
            c = self.fresh('c'); g = self.fresh('g'); self.declare(c, 'int')
            self.declare(g, ('fn', ()))
            return ['%s := %s' % (c, init), '%s := fn () {' % g, '    %s += 1' % c, '    return %s' % c, '}', 'print(%s() + %s())' % (g, g)]
        if k == 'method':
            o = self.fresh('m'); self.declare(o, 'objm')
            return ['%s := {"v": %s, "get": fn (k) {' % (o, self.expr('int', 2)), '    this.v += k', '    return this.v', '}}', 'print(%s.get(%s))' % (o, self.expr('int', 2)), 'h%s := null' % o, 'h%s = %s["get"]' % (o, o), 'print(h%s(1))' % o, 'g%s := %s.get' % (o, o), 'print(g%s(2))' % o, 'print(%s.v)' % o]
        if k == 'callstmt':
            f = r.choice(self.fns); return ['print(%s(%s))' % (f[0], ', '.join(self.expr(kk, 1) for kk in f[1]))]
        if k == 'return': return ['if %s {' % self.expr('bool', 1), '    return %s' % self.expr('int', 1), '}']
        if k == 'jump': return ['if %s {' % self.expr('bool', 1), '    %s' % r.choice(['break', 'continue']), '}']
        raise ValueError(k)

def gen(seed, size, emph=()):
    rng = random.Random(seed)
    g = G(rng, size, emph)
    lines = ['fn tr(x) {', '    print("tr")', '    print(x)', '    return x', '}']
    while g.size > 0: lines += g.stmt(0)
    for kind in ('int', 'str', 'list', 'obj'):
        for v in g.vars_of(kind)[:3]: lines.append('print(%s)' % v)
    for kind in ('list', 'obj'):
        vs = g.vars_of(kind)[:4]
        for i in range(len(vs)):
            for j in range(i + 1, len(vs)): lines.append('print(%s === %s)' % (vs[i], vs[j]))
    return '\n'.join(lines) + '\n'

EMPH = {
    'C04': ['fn', 'closure', 'loopclosure', 'block', 'decl', 'assign'], 'C20': ['decl', 'assign', 'destruct', 'block', 'fn'], 'C05': ['alias', 'opelem', 'setidx', 'setprop', 'rangeassign', 'eq'],
    'C07': ['while', 'forlist', 'forobj', 'forstr', 'if', 'fn', 'block'], 'C12': ['objkey', 'setprop', 'opelem', 'alias'], 'C13': ['destruct', 'forpat', 'fnpat', 'spreadcall'], 'C14': ['fn', 'method', 'spreadcall', 'closure', 'fnpat'],
    'C10': ['eq', 'alias'], 'C11': ['rangeassign', 'setidx', 'strops'], 'C15': ['strops'], 'C17': ['fn', 'method', 'callstmt'], 'C19': ['print', 'objkey'], 'C06': ['opassign', 'opelem'], 'C16': ['eq', 'opelem'],
}
def templates(tier, seed=0, n=None, prop=None):
    if n is None: n = 60 if tier == 'quick' else 500
    off = (int(prop[1:]) * 7919) if prop else 0
    return [{'name': 'rand-%d' % i, 'src': gen(seed * 1000003 + off + i, 8 + i % 13, EMPH.get(prop, ()))} for i in range(n)]

def role(v):
    return 'randprog:%s:%s:%s' % (v.get('template', ''), v['aspect'], v['ref'])
