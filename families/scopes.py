# C04 / C20 (riders C01, C02, C05, C17, C18): lexical scoping, closures, declare-before-use, `_`.
# Programs over a small alphabet of scope operations (declare, redeclare, assign, op-assign, read, block, if, loop, define function,
# call, return a closure, destructure-declare, `_` targets) over the names x, y, z are generated to a bound; the structure of each
# program is concrete, every value and every if-condition is a solver variable.  Each program is also run consistently renamed.
import random, re, itertools

NAMES = ['x', 'y', 'z']

class Gen:
    def __init__(self, rng, maxdepth, budget):
        self.rng = rng; self.maxdepth = maxdepth; self.h = 0; self.b = 0; self.k = 0; self.budget = budget
        self.scopes = [set()]
    def visible(self):
        s = set()
        for sc in self.scopes: s |= sc
        return sorted(s)
    def pick_read(self):
        v = self.visible()
        if v and self.rng.random() < 0.9: return self.rng.choice(v)
        return self.rng.choice(NAMES)
    def pick_decl(self):
        free = [n for n in NAMES if n not in self.scopes[-1]]
        if free and self.rng.random() < 0.9: n = self.rng.choice(free)
        else: n = self.rng.choice(NAMES)
        return n
    def scoped(self, f, pre=()):
        self.scopes.append(set(pre))
        try: return f()
        finally: self.scopes.pop()
    def hole(self): self.h += 1; return '@h%d@' % self.h
    def cond(self): self.b += 1; return '@b%d@' % self.b
    def fresh(self): self.k += 1; return self.k
    def expr(self):
        r = self.rng.random()
        n = self.pick_read()
        if not self.visible() and r >= 0.6: r = 0.5
        if r < 0.35: return self.hole()
        if r < 0.6: return str(self.rng.randint(1, 9))
        if r < 0.85: return n
        return '%s + %d' % (n, self.rng.randint(1, 3))
    def stmts(self, depth, n, fns, in_fn):
        out = []
        for _ in range(n):
            if self.budget <= 0: break
            out += self.stmt(depth, fns, in_fn)
        return out or ['print(0)']
    def stmt(self, depth, fns, in_fn):
        self.budget -= 1
        rng = self.rng; n = self.pick_read()
        kinds = ['decl', 'decl', 'decl', 'assign', 'assign', 'opassign', 'read', 'read', 'read', 'destruct', 'underscore']
        if depth < self.maxdepth: kinds += ['block', 'if', 'while', 'for', 'fn', 'anon', 'mk']
        if fns: kinds += ['call', 'call']
        if in_fn: kinds += ['return']
        k = rng.choice(kinds)
        if not self.visible() and k in ('assign', 'opassign', 'read', 'call') and rng.random() < 0.92: k = 'decl'
        ind = lambda ls: ['    ' + l for l in ls]
        if k == 'decl':
            e = self.expr(); n = self.pick_decl(); self.scopes[-1].add(n)
            return ['%s := %s' % (n, e)]
        if k == 'assign': return ['%s = %s' % (n, self.expr())]
        if k == 'opassign': return ['%s += %d' % (n, rng.randint(1, 3))]
        if k == 'read': return ['print(%s)' % n]
        if k == 'destruct':
            e1, e2 = self.expr(), self.expr()
            if rng.random() < 0.5:
                free = [q for q in NAMES if q not in self.scopes[-1]]
                if len(free) >= 2:
                    a, b = rng.sample(free, 2); self.scopes[-1] |= {a, b}
                    return ['[%s, %s] := [%s, %s]' % (a, b, e1, e2)]
            vis = self.visible()
            if len(vis) >= 2:
                a, b = rng.sample(vis, 2); return ['[%s, %s] = [%s, %s]' % (a, b, e1, e2)]
            return ['[%s, %s] := [%s, %s]' % (n, rng.choice(NAMES), e1, e2)]
        if k == 'underscore':
            return [rng.choice(['_ := %s' % self.expr(), '[_, %s] := [1, %s]' % (n, self.expr()), '[_, _] := [1, 2]', '_ = %s' % self.expr(), 'print(_)', '_ += 1'])]
        if k == 'block': return ['{'] + ind(self.scoped(lambda: self.stmts(depth + 1, rng.randint(1, 3), fns, in_fn))) + ['}']
        if k == 'if':
            return ['if %s {' % self.cond()] + ind(self.scoped(lambda: self.stmts(depth + 1, rng.randint(1, 2), fns, in_fn))) + ['} else {'] + ind(self.scoped(lambda: self.stmts(depth + 1, rng.randint(1, 2), fns, in_fn))) + ['}']
        if k == 'while':
            i = 'i%d' % self.fresh()
            return ['%s := 0' % i, 'while %s < 2 {' % i, '    %s += 1' % i] + ind(self.scoped(lambda: self.stmts(depth + 1, rng.randint(1, 3), fns, in_fn))) + ['}']
        if k == 'for':
            e1, e2 = self.expr(), self.expr(); n = rng.choice(NAMES)
            return ['for [_, %s] in [%s, %s] {' % (n, e1, e2)] + ind(self.scoped(lambda: self.stmts(depth + 1, rng.randint(1, 3), fns, in_fn), [n])) + ['}']
        if k == 'fn':
            f = 'f%d' % self.fresh(); p1, p2 = rng.sample(NAMES, 2); p = rng.choice(['', p1, '%s, %s' % (p1, p2)])
            body = self.scoped(lambda: self.stmts(depth + 1, rng.randint(1, 3), fns, True), [q.strip() for q in p.split(',') if q.strip()])
            fns.append((f, len([q for q in p.split(',') if q.strip()])))
            return ['fn %s(%s) {' % (f, p)] + ind(body) + ['}']
        if k == 'anon':
            f = 'g%d' % self.fresh()
            body = self.scoped(lambda: self.stmts(depth + 1, rng.randint(1, 3), fns, True))
            fns.append((f, 0))
            return ['%s := fn () {' % f] + ind(body) + ['}']
        if k == 'mk':
            # a function returning a closure over its own local: the local outlives the call, each call gets a fresh one
            m = 'mk%d' % self.fresh(); c = 'c%d' % self.k; n = rng.choice(NAMES)
            fns.append((m + '()', 0))
            return ['fn %s() {' % m, '    %s := %s' % (n, self.expr()), '    return fn () {', '        %s += 1' % n, '        return %s' % n, '    }', '}', '%s := %s()' % (c, m), 'print(%s())' % c, 'print(%s())' % c]
        if k == 'call':
            f, ar = rng.choice(fns)
            args = ', '.join(self.expr() for _ in range(ar))
            return ['print(%s(%s))' % (f, args)]
        if k == 'return': return ['return %s' % self.expr()]
        raise ValueError(k)

def gen_program(seed, maxdepth, budget):
    rng = random.Random(seed)
    g = Gen(rng, maxdepth, budget)
    lines = g.stmts(0, 99, [], False)
    lines += ['print(%s)' % n for n in NAMES if (n in g.scopes[0]) == (rng.random() < 0.93)]
    return '\n'.join(lines) + '\n'

def rename(src):
    m = {'x': 'q_1', 'y': 'ww', 'z': 'Zed9'}
    def f(mo):
        w = mo.group(0)
        return m.get(w, w)
    # identifiers only outside placeholders (placeholders contain no bare x/y/z words)
    return re.sub(r'\b[xyz]\b', f, src)

CURATED = [
    ('shadow', 'x := @h1@\n{\n    print(x)\n    x = @h2@\n    print(x)\n    x := @h3@\n    print(x)\n    x = @h4@\n    print(x)\n}\nprint(x)\n'),
    ('closure-live', 'v := @h1@\nfn inc() {\n    v = v + 1\n}\nprint(v)\ninc()\nprint(v)\nfn get() {\n    return v\n}\nv = @h2@\nprint(get())\n'),
    ('closure-not-caller', 'x := @h1@\nfn f() {\n    return x\n}\nfn g() {\n    x := @h2@\n    return f()\n}\nprint(g())\n{\n    x := @h3@\n    print(f())\n}\n'),
    ('later-decl-visible', 'fn f() {\n    return y\n}\nif @b1@ {\n    print(f())\n}\ny := @h1@\nprint(f())\n'),
    ('fresh-per-iteration', 'fs := []\nfor [i, v] in [@h1@, @h2@, @h3@] {\n    w := v\n    fs += [fn () {\n        w += 1\n        return w\n    }]\n}\nprint(fs[0]())\nprint(fs[0]())\nprint(fs[1]())\nprint(fs[2]())\n'),
    ('fresh-per-call', 'fn mk(a) {\n    n := a\n    return fn () {\n        n += 1\n        return n\n    }\n}\nc1 := mk(@h1@)\nc2 := mk(@h2@)\nprint(c1())\nprint(c1())\nprint(c2())\nprint(c1())\n'),
    ('block-vanishes', '{\n    t := @h1@\n    print(t)\n}\nif @b1@ {\n    print(t)\n}\nt := @h2@\nprint(t)\n'),
    ('loop-body-scope', 'i := 0\nwhile i < 2 {\n    i += 1\n    u := i\n    print(u)\n}\nif @b1@ {\n    print(u)\n}\nprint(i)\n'),
    ('call-scope', 'fn f(a) {\n    l := a\n    a = a + 1\n    return a + l\n}\na := @h1@\nprint(f(a))\nprint(a)\nif @b1@ {\n    print(l)\n}\n'),
    ('redeclare', 'x := @h1@\nif @b1@ {\n    x := @h2@\n    print(x)\n}\nif @b2@ {\n    fn x() {\n        return 1\n    }\n    print(2)\n}\nprint(x)\nx := @h3@\nprint(x)\n'),
    ('redeclare-kinds', 's := @h0@\nfn f() {\n    return 1\n}\n[a, b] := [1, 2]\nif s == 0 {\n    print(1)\n}\n' + ''.join('%s\n' % l for l in []) ),
    ('capture-then-shadow', 'x := @h1@\nfn mk() {\n    print(x)\n    f := fn () {\n        return x\n    }\n    g := fn (v) {\n        x = v\n    }\n    print(f())\n    x := @h2@\n    print(f())\n    g(@h3@)\n    print(x)\n    return f\n}\nh := mk()\nprint(h())\nprint(x)\n{\n    print(x)\n    k := fn () {\n        return x\n    }\n    print(k())\n    x := @h4@\n    print(k())\n}\nprint(x)\n'),
    ('pattern-names-see-outer', 'field := "name"\nrows := [{"name": @h1@, "born": 1815}, {"name": @h2@, "born": 1912}]\nfn who({field: w}) {\n    return w\n}\nprint(who(rows[0]))\nfor [i, {field: w}] in rows {\n    print(w)\n}\npick := fn (k, {k: v}) {\n    return v\n}\nprint(pick("born", rows[1]))\n{field: a} := rows[1]\nprint(a)\nfn outer() {\n    col := "born"\n    return fn ({col: c, field: n}) {\n        return [c, n]\n    }\n}\nprint(outer()(rows[0]))\nb := 0\n{field: b} = rows[0]\nprint(b)\n'),
    ('shadow-init-reads-outer', 'x := @h1@\n{\n    x := x + 1\n    print(x)\n}\nprint(x)\nfn f() {\n    x := x * 2\n    return x\n}\nprint(f())\nfor [i, v] in [1] {\n    x := [x, v]\n    print(x)\n}\nif @b1@ {\n    total := total\n    print(total)\n}\nif @b2@ {\n    cnt := cnt + 1\n}\nprint(x)\n'),
    ('escaped-closure-calls-sibling', 'fn helper(v) {\n    return v - 1\n}\nfn mk() {\n    fn helper(v) {\n        return v + 1\n    }\n    return fn (v) {\n        return helper(v)\n    }\n}\nprint(mk()(@h1@))\ng := null\n{\n    fn down(n) {\n        if n == 0 {\n            return 0\n        }\n        return 1 + down(n - 1)\n    }\n    g = down\n}\nprint(g(3))\nfs := []\nfor [i, v] in [@h2@, 5] {\n    fn addv(w) {\n        return v + w\n    }\n    fs += [fn (w) {\n        return addv(w)\n    }]\n}\nprint(fs[0](1))\nprint(fs[1](1))\n'),
    ('scope-after-early-exit', 'n := @h1@\ni := 0\nwhile i < 3 {\n    i += 1\n    {\n        n := 100 + i\n        if i == 2 {\n            break\n        }\n        if i == 1 {\n            continue\n        }\n    }\n}\nprint(n)\nn = n + 1\nprint(n)\nfor [k, v] in [7, 8] {\n    m := v\n    if k == 0 {\n        continue\n    }\n    break\n}\nm := @h2@\nprint(m)\nfn f() {\n    for [k, v] in [1] {\n        q := v\n        return q\n    }\n}\nprint(f())\nq := @h3@\nprint(q)\n'),
    ('dup-params-in-literals', 'if @b1@ {\n    h := fn (a, a) {\n        return a\n    }\n    print(h(1, 2))\n}\nif @b3@ {\n    o := {"m": fn (p, [p]) {\n        return p\n    }}\n    print(o.m(1, [2]))\n}\nfn ok(_, b, _) {\n    return b\n}\nprint(ok(1, @h1@, 3))\nprint((fn (_, _) {\n    return 4\n})(1, 2))\n'),
    ('shorthand-sees-outer', 'label := @h1@\nfn tagged(x) {\n    if true {\n        for [i, v] in [1] {\n            return {label, x, v}\n        }\n    }\n}\nprint(tagged(@h2@))\n{\n    inner := 3\n    {\n        print({label, inner})\n    }\n}\nmk := fn () {\n    return fn () {\n        return {label}\n    }\n}\nprint(mk()())\nif @b1@ {\n    print({nope})\n}\n'),
    ('pattern-reads-earlier-name', 'xs := [0, 0, 0]\n[i, xs[i]] := [1, 9]\nprint(i)\nprint(xs)\n{"first": k, k: v} := {"first": "second", "second": @h1@}\nprint(k)\nprint(v)\nfn f(n, [ys[n]]) {\n    return n\n}\nys := [5, 6]\nprint(f(1, [@h2@]))\nprint(ys)\nzs := [0]\nfor [j, zs[j]] in [7] {\n    print(j)\n}\nprint(zs)\n'),
    ('paren-names', 'if @b1@ {\n    print(  (w))\n}\nif @b2@ {\n    (  w) = 1\n}\nif @b3@ {\n    ( w) += 1\n}\nif @b4@ {\n    z := {(  w)}\n}\n( w) := @h1@\nprint(w)\nif @b5@ {\n    (   w) := 2\n}\nprint((w) + 1)\n'),
    ('use-before-decl', 'if @b1@ {\n    print(w)\n}\nif @b2@ {\n    w = 1\n}\nif @b3@ {\n    w += 1\n}\nw := @h1@\nprint(w)\n'),
    ('underscore', '_ := @h1@\n_ := @h2@\n[_, _, k] := [1, 2, @h3@]\nprint(k)\nfn f(_, _) {\n    return 1\n}\nprint(f(1, 2))\nfor [_, _] in [1] {\n    print(3)\n}\nif @b1@ {\n    print(_)\n}\n_ = 5\nprint(4)\n'),
    ('fn-recursion', 'fn fact(n) {\n    if n <= 1 {\n        return 1\n    }\n    return n * fact(n - 1)\n}\nprint(fact(@h1@))\n'),
    ('param-shadows', 'x := @h1@\nfn f(x) {\n    x = x + 1\n    return x\n}\nprint(f(@h2@))\nprint(x)\n'),
    ('nested-closures', 'fn outer() {\n    a := @h1@\n    fn mid() {\n        b := @h2@\n        return fn () {\n            a += 1\n            b += 1\n            return a + b\n        }\n    }\n    return mid()\n}\nf := outer()\nprint(f())\nprint(f())\ng := outer()\nprint(g())\n'),
]
CURATED += [
    ('while-fresh-per-iteration', 'fs := []\ni := 0\nwhile i < 3 {\n    j := i * 10 + @h1@\n    cnt := 0\n    fs += [fn () {\n        cnt += 1\n        return j + cnt\n    }]\n    i += 1\n}\nprint(fs[0]())\nprint(fs[1]())\nprint(fs[2]())\nprint(fs[0]())\nprint(fs[2]())\n'),
    ('late-decl-in-enclosing-fn', 'x := @h1@\nh := null\nfn f() {\n    if true {\n        h = fn () {\n            return x\n        }\n    }\n    x := @h2@\n    return h()\n}\nprint(f())\nprint(h())\nprint(x)\n'),
    ('late-decl-in-enclosing-block', 'y := @h1@\ng := null\n{\n    {\n        g = fn () {\n            y = y + 1\n            return y\n        }\n    }\n    y := @h2@\n    print(g())\n    print(y)\n}\nprint(y)\nprint(g())\n'),
    ('late-decl-for', 'z := @h1@\nks := []\nfn mk() {\n    for [i, v] in [1, 2] {\n        ks += [fn () {\n            return z + v\n        }]\n    }\n    z := @h2@\n    return ks[0]() + ks[1]()\n}\nprint(mk())\nprint(z)\n'),
    ('for-closure-escape', 'acc := []\nfor [i, v] in [@h1@, @h2@] {\n    t := v\n    acc += [fn (d) {\n        t += d\n        return t\n    }]\n}\nprint(acc[0](1))\nprint(acc[1](10))\nprint(acc[0](1))\n'),
    ('assign-nearest-3-levels', 'n := @h1@\n{\n    n := @h2@\n    {\n        {\n            n = @h3@\n            n += 1\n        }\n        print(n)\n    }\n    print(n)\n}\nprint(n)\nfn f(n) {\n    for [i, v] in [1, 2] {\n        n += v\n    }\n    return n\n}\nprint(f(@h4@))\nprint(n)\n'),
    ('call-in-loop-fresh', 'fn mk(k) {\n    loc := k\n    return fn () {\n        loc += 1\n        return loc\n    }\n}\ncs := []\ni := 0\nwhile i < 2 {\n    cs += [mk(i * 100)]\n    i += 1\n}\nprint(cs[0]())\nprint(cs[1]())\nprint(cs[0]())\n'),
]
def construct_scopes():
    """every block-introducing construct: a declaration inside does not leak, shadowing an enclosing name is allowed and leaves it
    untouched, a closure created before still sees the outer variable"""
    cons = {
        'block': ('{', '}'), 'if': ('if true {', '}'), 'elif': ('if false {\n    print(0)\n} else if true {', '}'), 'else': ('if false {\n    print(0)\n} else {', '}'),
        'else-after-elif': ('if false {\n    print(0)\n} else if false {\n    print(0)\n} else {', '}'), 'while': ('w := 0\nwhile w < 1 {\n    w += 1', '}'), 'for': ('for [fk, fv] in [1] {', '}'),
        'fn': ('fn body() {', '}\nbody()'), 'anon': ('ab := fn () {', '}\nab()'), 'method': ('mo := {"m": fn () {', '}}\nmo.m()'), 'nested-if-in-while': ('w := 0\nwhile w < 1 {\n    w += 1\n    if true {', '    }\n}'),
    }
    ts = []
    for name, (op, cl) in cons.items():
        body = ['inner := @h2@', 'x := @h3@', 'print(x)', 'print(seex())', 'x = x + 1', 'print(inner)']
        src = ['x := @h1@', 'fn seex() {', '    return x', '}'] + op.split('\n') + ['    ' + l for l in body] + cl.split('\n') + ['print(x)', 'print(seex())', 'if @b1@ {', '    print(inner)', '}', 'inner := @h4@', 'x := 0']
        ts.append({'name': 'construct-scope-' + name, 'src': '\n'.join(src) + '\n'})
    return ts

CURATED += [
    ('own-name-reassigned', 'fn tick(n) {\n    if n == 0 {\n        return "original reached zero"\n    }\n    return tick(n - 1)\n}\nold := tick\nprint(old(@h1@))\ntick = fn (n) {\n    return "replacement called"\n}\nprint(old(1))\nprint(tick(1))\n'),
    ('own-name-assigned-inside', 'fn disable() {\n    disable = null\n    return 1\n}\nprint(disable())\nprint(disable)\nfn counter() {\n    counter = @h1@\n}\ncounter()\nprint(counter)\n'),
    ('own-name-shadow', 'fn f(f) {\n    return f\n}\nprint(f(@h1@))\nfn g() {\n    g := @h2@\n    return g\n}\nprint(g())\nprint(g())\n'),
]
CURATED += [
    ('fn-underscore', 'fn _() {\n    return "a"\n}\nprint(1)\nfn _() {\n    return "b"\n}\nprint(2)\nif @b1@ {\n    print(_())\n}\n{\n    fn _(_, _) {\n        return 1\n    }\n    print(3)\n}\nprint(_)\n'),
    ('this-declared', 'o := {"v": @h1@, "m": fn () {\n    print(this.v)\n    {\n        this := 5\n        print(this)\n    }\n    return this.v\n}, "bad": fn () {\n    print(this.v)\n    this := 100\n    print(this)\n    return this\n}}\nprint(o.m())\nif @b1@ {\n    print(o.bad())\n}\nprint(o.v)\n'),
]
def destructure_assign_kinds():
    pats = [('[a, b]', '[1, 2]'), ('[a, ..r]', '[1, 2, 3]'), ('{a}', '{"a": 1}'), ('{"k": a}', '{"k": 1}'), ('{a, ..r}', '{"a": 1, "b": 2}'), ('[a, [b]]', '[1, [2]]'), ('[a, {b}]', '[1, {"b": 2}]'), ('{"k": [a, ..r]}', '{"k": [1, 2]}')]
    ts = []
    for i, (p, src) in enumerate(pats):
        names = [n for n in re.findall(r'\b([abr])\b', re.sub(r'"[^"]*"', '', p))]
        names = sorted(set(names), key=names.index)
        prints = ''.join('print(%s)\n' % n for n in names)
        # (i) nothing declared: assignment must report the first name as undefined
        ts.append({'name': 'dassign-undeclared-%d' % i, 'src': 'print(0)\n%s = %s\n%s' % (p, src, prints)})
        # (ii) declared in an enclosing scope, assigned from an inner block: the outer variables change, nothing new is declared
        decl = ''.join('%s := @h%d@\n' % (n, k + 1) for k, n in enumerate(names))
        ts.append({'name': 'dassign-enclosing-%d' % i, 'src': decl + '{\n    %s = %s\n    ' % (p, src) + prints.replace('\n', '\n    ').rstrip(' ') + '}\n' + prints})
        # (iii) one of the names missing
        if len(names) > 1:
            decl1 = ''.join('%s := 0\n' % n for n in names[:-1])
            ts.append({'name': 'dassign-partial-%d' % i, 'src': decl1 + '%s = %s\n%s' % (p, src, prints)})
        # (iv) declared in the same scope
        ts.append({'name': 'dassign-same-%d' % i, 'src': decl + '%s = %s\n%s' % (p, src, prints)})
    return ts

def redeclare_kinds():
    later = ['x := 1', 'fn x() {\n    return 1\n}', '[x, q] := [1, 2]', '{x} := {"x": 1}', '[q, [x]] := [1, [2]]']
    first = ['x := 0', 'fn x() {\n    return 0\n}', '[w, x] := [0, 0]', '{"k": x} := {"k": 0}']
    ts = []
    for i, f in enumerate(first):
        for j, l in enumerate(later):
            ts.append({'name': 'redeclare-%d-%d' % (i, j), 'src': '%s\nprint(1)\nif @b1@ {\n    %s\n    print(2)\n}\n%s\nprint(3)\n' % (f, l.replace('\n', '\n    '), l)})
    return ts

NONBINDABLE = ['null', 'true', '1', '"s"', '1 + 2', '1 .. 2', 'fn () {\n    return 1\n}', 'f()', '$"a"', '(x)', 'x->type', '[1][0:1]']
def nonbindable():
    ts = []
    positions = ['%s := 1', '%s = 1', '%s += 1', 'for %s in [[1, 2]] {\n    print(1)\n}', 'for [i, %s] in [5] {\n    print(1)\n}', 'fn g(%s) {\n    return 1\n}\nprint(g(1))',
                 '[%s] := [1]', '{"a": %s} := {"a": 1}', '[%s, ..r] = [1, 2]', 'h := fn (a, %s) {\n    return 1\n}\nprint(h(1, 2))']
    for pi, pos in enumerate(positions):
        lad = []
        for i, t in enumerate(NONBINDABLE):
            code = pos % t
            lad.append(('if' if i == 0 else '} else if') + ' s == %d {' % i); lad += ['    ' + l for l in code.split('\n')]
        lad.append('}')
        src = ['s := @h0@', 'x := [0]', 'fn f() {', '    return 1', '}'] + lad + ['print(9)']
        ts.append({'name': 'nonbindable-%d' % pi, 'src': '\n'.join(src) + '\n', 'assume': lambda v: [v['h0'] >= 0, v['h0'] <= len(NONBINDABLE)]})
    return ts

def templates(tier, seed=0):
    ts = []
    for name, src in CURATED:
        if name == 'redeclare-kinds': continue
        assume = (lambda v: [v['h1'] >= -1, v['h1'] <= 4]) if name == 'fn-recursion' else (lambda v: [v['h1'] >= 0, v['h1'] <= 3]) if name == 'own-name-reassigned' else None
        ts.append({'name': name, 'src': src, 'assume': assume}); ts.append({'name': name + '~renamed', 'src': rename(src), 'assume': assume})
    ts += redeclare_kinds()
    ts += destructure_assign_kinds()
    ts += construct_scopes()
    ts += nonbindable()
    n = 80 if tier == 'quick' else 400
    for i in range(n):
        src = gen_program(seed * 100003 + i, 2 if i % 2 == 0 else 3, 6 + i % 7)
        ts.append({'name': 'gen-%d' % i, 'src': src})
        if tier == 'thorough' or i % 4 == 0: ts.append({'name': 'gen-%d~renamed' % i, 'src': rename(src)})
    return ts

def role(v):
    t = v.get('template', '').replace('~renamed', '')
    return 'scopes:%s:%s:%s' % (t, v['aspect'], v['ref'])
