# C10 (riders C02, C05, C16): == structural, === identity, comparing never mutates.  A pool of small heap graphs (lists / objects,
# shared children, a container inside its comparand, insertion-order variants, mismatching leaves) with symbolic leaves; two
# selectors pick the operands, so one symbolic run covers all ordered pairs of the pool.
def ladder(var, sel, names):
    out = ['%s := %s' % (var, names[0])]
    for i, n in enumerate(names[1:], 1):
        out.append(('if' if i == 1 else '} else if') + ' %s == %d {' % (sel, i))
        out.append('    %s = %s' % (var, n))
    out.append('}')
    return out

LIST_POOL = [
    'c := [@h10@]',
    'w := [[@h10@]]',
    'v0 := [@h10@, @h11@]',
    'v1 := [@h10@, @h11@]',
    'v2 := [@h12@, @h11@]',
    'v3 := [c, c]',
    'v4 := [[@h10@], [@h10@]]',
    'v5 := [c, [@h13@]]',
    'v6 := [@h10@]',
    'v7 := [@h10@, "s"]',
    'v8 := [w]',
    'v9 := w[0]',
    'v10 := [v0, @h11@]',
    'v11 := [[@h10@, @h11@], @h11@]',
    'v12 := []',
    'v13 := [@h10@, null]',
    'v14 := [@b1@, @h11@]',
    'v15 := [[@h10@], [@h13@]]',
    'v16 := [c, c, c]',
    'v17 := [[@h10@], [@h10@], ["x"]]',
]
LIST_NAMES = ['c', 'w'] + ['v%d' % i for i in range(18)]
QUICK_LIST = ['c', 'w', 'v0', 'v1', 'v2', 'v3', 'v4', 'v5', 'v6', 'v7', 'v8', 'v9', 'v15', 'v16', 'v17']
OBJ_POOL = [
    'c := [@h10@]',
    'o0 := {"a": @h10@, "b": @h11@}',
    'o1 := {}',
    'o1.b = @h11@',
    'o1.a = @h10@',
    'o2 := {"a": @h10@, "c": @h11@}',
    'o3 := {"a": @h12@, "b": @h11@}',
    'o4 := {"a": @h10@}',
    'o5 := {"a": c, "b": c}',
    'o6 := {"a": [@h10@], "b": [@h10@]}',
    'o7 := {"a": @h10@, "b": "s"}',
    'o8 := {"a": o0}',
    'o9 := {"a": {"b": @h11@, "a": @h10@}}',
    'o10 := {"A": @h10@, "b": @h11@}',
    'o11 := {"": @h10@, " x": @h11@}',
    'o12 := [o0]',
    'o13 := {"a": o4, "b": o4}',
    'o14 := {"a": {"a": @h10@}, "b": {"a": @h13@}}',
]
OBJ_NAMES = ['o%d' % i for i in range(15)]
QUICK_OBJ = ['o0', 'o1', 'o2', 'o3', 'o4', 'o5', 'o6', 'o7', 'o8', 'o9', 'o13', 'o14']

def pair_template(name, pool, names, tier):
    n = len(names)
    src = ['sa := @h0@', 'sb := @h1@'] + pool + ladder('a', 'sa', names) + ladder('b', 'sb', names)
    src += ['print(a == b)', 'print(b == a)', 'print(a != b)', 'print(a === b)', 'print(a !== b)', 'print(b === a)']
    src += ['print(%s)' % nm for nm in names[:6]]     # comparing leaves all values unchanged
    return {'name': name, 'src': '\n'.join(src) + '\n', 'assume': lambda v: [v['h0'] >= 0, v['h0'] < n, v['h1'] >= 0, v['h1'] < n]}

def ne_template(name, pool, names):
    # `!=` first: it is the negation of `==` also where `==` is an error
    n = len(names)
    src = ['sa := @h0@', 'sb := @h1@'] + pool + ladder('a', 'sa', names) + ladder('b', 'sb', names) + ['print(a != b)', 'print(b != a)', 'print(a == b)']
    return {'name': name, 'src': '\n'.join(src) + '\n', 'assume': lambda v: [v['h0'] >= 0, v['h0'] < n, v['h1'] >= 0, v['h1'] < n]}

def templates(tier, seed=0):
    ts = []
    ts.append(ne_template('list-ne-pairs', LIST_POOL, QUICK_LIST[:7] if tier == 'quick' else LIST_NAMES))
    ts.append(ne_template('obj-ne-pairs', OBJ_POOL, QUICK_OBJ[:7] if tier == 'quick' else OBJ_NAMES))
    if tier == 'quick':
        ts.append(pair_template('list-pairs', LIST_POOL, QUICK_LIST, tier))
        ts.append(pair_template('obj-pairs', OBJ_POOL, QUICK_OBJ, tier))
    else:
        ts.append(pair_template('list-pairs', LIST_POOL, LIST_NAMES, tier))
        ts.append(pair_template('obj-pairs', OBJ_POOL, OBJ_NAMES, tier))
        ts.append(pair_template('mixed-pairs', LIST_POOL + OBJ_POOL[1:], LIST_NAMES[:8] + OBJ_NAMES[:8], tier))
    # scalars: null / bool / int / string against each other are C16's matrix; here symbolic leaves of equal kind
    ts.append({'name': 'scalars', 'src': 'print(@h0@ == @h1@)\nprint(@b0@ == @b1@)\nprint(@b0@ != @b1@)\nprint("ab" == "a" + "b")\nprint("ab" == "ba")\nprint(null == null)\nprint(null != null)\n'})
    # functions: === is identity; == on functions is an error
    ts.append({'name': 'functions', 'src': 'fn f() {\n    return 1\n}\nfn g() {\n    return 1\n}\nh := f\nprint(f === h)\nprint(f === g)\nprint(f !== g)\nxs := [f]\nys := [f]\nif @b0@ {\n    print(xs == ys)\n} else {\n    print(f == f)\n}\n'})
    # long containers: 70 equal records before the only difference
    ts.append({'name': 'long-lists', 'src': 'fn table(n, last) {\n    out := []\n    i := 0\n    while i < n {\n        i += 1\n        v := 0\n        if i == n {\n            v = last\n        }\n        out += [{"id": i, "tags": [i], "v": v}]\n    }\n    return out\n}\na := table(70, @h10@)\nb := table(70, @h11@)\nprint(a == b)\nprint(b != a)\nprint(a == table(70, @h10@))\nprint(a[69] == b[69])\n', 'assume': lambda v: [v['h10'] >= 0, v['h10'] <= 1, v['h11'] >= 0, v['h11'] <= 1]})
    # a list against an object: an error whatever their sizes
    pairs = ['[1, 2] == {"a": 1}', '[] == {"a": 1}', '[1] == {}', '[[1, 2]] == [{"a": 1}]', '{"k": [1]} == {"k": {}}', '{"a": 1} != [1, 2]', '[[], 1] == [{}, 1]']
    lad = []
    for i, pr in enumerate(pairs):
        lad.append(('if' if i == 0 else '} else if') + ' s == %d {' % i); lad.append('    print(%s)' % pr)
    lad.append('}')
    ts.append({'name': 'list-vs-object', 'src': '\n'.join(['s := @h0@'] + lad + ['print(9)']) + '\n', 'assume': lambda v: [v['h0'] >= 0, v['h0'] <= len(pairs)]})
    # a self-containing value compared with itself (identity short-cut), and a container compared with the value it contains
    ts.append({'name': 'self-containing', 'src': 'a := [1]\na[0] = a\nprint(a === a)\nprint(a === a[0])\nb := [[2]]\nprint(b == b[0])\nprint(b[0] == b)\nprint([b] == b)\n'})
    ts.append({'name': 'alias-vs-copy', 'src': 'a := [@h10@, [@h11@]]\nb := a\nc := [@h10@, [@h11@]]\nprint(a == b)\nprint(a === b)\nprint(a == c)\nprint(a === c)\nprint(a[1] === b[1])\nprint(a[1] === c[1])\nprint(a[1] == c[1])\n'})
    return ts

def role(v):
    what = v.get('what', '')
    if v['aspect'] == 'panic' and 'unwrap' in what: return 'eq-lock-reentry-container-in-comparand'
    return 'equality:%s:%s:%s' % (v.get('template', ''), v['aspect'], v['ref'])
