# C19 (riders C05, C12): printing is a canonical function of the value; hash iteration order never shows.
def ladder(sel, options):
    out = []
    for i, code in enumerate(options):
        out.append(('if' if i == 0 else '} else if') + ' %s == %d {' % (sel, i))
        out += ['    ' + l for l in code.split('\n')]
    out.append('}')
    return out

def templates(tier, seed=0):
    ts = []
    # the same structure along different construction histories (selector): depth 4
    builds = [
        'v = {"a": [@h10@, {"x": [@h11@, [@b1@, null]], "y": "s"}], "b": [], "c": {}}',
        'v = {}\nv.c = {}\nv.b = []\ninner := {"y": "s"}\ninner.x = [@h11@, [@b1@, null]]\nv.a = [@h10@, inner]',
        'leaf := [@b1@, null]\nmid := [@h11@, leaf]\nv = {"c": {}, "b": [], "a": [@h10@, {"y": "s", "x": mid}]}',
        'base := {"a": [@h10@, {"x": [@h11@, [@b1@, null]], "y": "s"}]}\nv = {base.., "b": [], "c": {}}',
        'xs := [@h10@]\nxs += [{"x": [@h11@] + [[@b1@] + [null]], "y": "s"}]\nv = {"b": [], "a": xs, "c": {}}',
        'v = {"a": 0, "b": [], "c": {}}\nv["a"] = [0, 0]\nv.a[0] = @h10@\nv.a[1] = {"y": "s", "x": [0, 0]}\nv.a[1].x[0] = @h11@\nv.a[1].x[1] = [@b1@, null]',
    ]
    ts.append({'name': 'histories', 'src': '\n'.join(['s := @h0@', 'v := null'] + ladder('s', builds) + ['print(v)', 'print(v.a)', 'print(v.a[1].x)', 'r := print(v.b)', 'print(r)']) + '\n',
               'assume': lambda v: [v['h0'] >= 0, v['h0'] < len(builds)]})
    # aliased children print like copies
    ts.append({'name': 'aliasing', 'src': 'c := [@h10@, "t"]\na := [c, c, {"k": c}]\nb := [[@h10@, "t"], [@h10@, "t"], {"k": [@h10@, "t"]}]\nprint(a)\nprint(b)\nprint(a == b)\n'})
    ts.append({'name': 'aliasing-objects', 'src': 'shared := {"k": [@h10@]}\naliased := {"a": [shared], "b": [shared], "c": shared}\ncopies := {"a": [{"k": [@h10@]}], "b": [{"k": [@h10@]}], "c": {"k": [@h10@]}}\nprint(aliased)\nprint(copies)\nprint(aliased == copies)\nl := [shared, [shared, shared], {"x": shared}]\nprint(l)\nprint(shared)\nprint(l)\n'})
    # scalars and empties
    ts.append({'name': 'scalars', 'src': 'print(null)\nprint(@b0@)\nprint(@h0@)\nprint("")\nprint("raw \\"q\\" \\\\ text")\nprint([])\nprint({})\nprint([[]])\nprint({"": {}})\nprint([null, true, -1, "s"])\nprint(print(1))\n'})
    # hash iteration order never shows: collect of the remaining keys, duplicate-name bookkeeping
    for n, keys in ((3, 'bcd'), (4, 'bcde')):
        obj = '{"a": 1, ' + ', '.join('"%s": @h%d@' % (k, 10 + i) for i, k in enumerate(keys)) + '}'
        ts.append({'name': 'collect-order-%d' % n, 'src': 'o := %s\n{a, ..rest} := o\nprint(rest)\nfor [k, v] in rest {\n    print(k)\n}\nprint(rest == {%s})\n{..all} := o\nprint(all == o)\n' % (obj, ', '.join('"%s": o.%s' % (k, k) for k in keys))})
    ts.append({'name': 'nested-collect-order', 'src': 'o := {"p": {"x": 1, "y": 2, "z": 3}, "q": 4, "r": 5}\n{"p": {x, ..pr}, ..top} := o\nprint(pr)\nprint(top)\nfn f({q, ..others}) {\n    return others\n}\nprint(f(o))\n'})
    # keys and strings with quotes, backslashes, control and non-ASCII characters are written raw
    from . import objects as _objects
    ts += [dict(x) for x in _objects.templates(tier, seed) if x['name'] == 'special-keys']
    ts.append({'name': 'empty-strings', 'src': 'print(["a", "", "b"])\nprint({"k": [[""]], "e": ""})\nprint([""])\nprint([[], "", {}])\nprint("")\nprint(@h10@)\n'})
    ts.append({'name': 'bracket-strings', 'src': 'print([["}"], 1])\nprint(["]", ["[", "{"], "},", "],"])\nprint({"k": ["}", {"j": "]"}], "m": "{"})\nprint(["["])\nprint(@h10@)\n'})
    ts.append({'name': 'raw-strings', 'src': 'print("q\\"q \\\\ b")\nprint(["q\\"q", "a\\\\b", "t\\x09t", "\u00e9\u20ac", "c\\x7fd", "r\\x0dr", "$\\$"])\nprint({"k": "v\\"v\\\\"})\nprint(@h10@)\n'})
    # large outputs: a string longer than the usual stream buffers, with and without line breaks inside, alone and inside a container
    ts.append({'name': 'large-output', 'src': 's := "x"\ni := 0\nwhile i < 11 {\n    s = s + s\n    i += 1\n}\nprint(s->len())\nprint("head\\n" + s)\nprint(s + "\\n" + s + "\\ntail")\nprint([s[:1030], @h10@])\nprint(s)\nprint("end")\n'})
    return ts

def role(v):
    return 'render:%s:%s:%s' % (v.get('template', ''), v['aspect'], v['ref'])
