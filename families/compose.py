# C01: whole-program behaviour.  Every ordered pair (outer, inner) of the documented constructs is composed: the inner construct is
# nested in the outer one and a value computed from a symbolic integer is routed inwards and outwards across the boundary (errors --
# integer overflow of the symbolic value -- and jumps cross it too).  Thorough: sampled triples.
import itertools, random

def ind(ls): return ['    ' + l for l in ls]

def c_ops(inner, d):
    return ['x%d := x%d + 1' % (d + 1, d)] + inner + ['r%d := r%d * 2 - x%d' % (d, d + 1, d)]
def c_block(inner, d):
    return ['r%d := 0' % d, '{'] + ind(['x%d := x%d' % (d + 1, d)] + inner + ['r%d = r%d' % (d, d + 1)]) + ['}']
def c_if(inner, d):
    return ['r%d := 0 - 1' % d, 'if x%d > 0 {' % d] + ind(['x%d := x%d' % (d + 1, d)] + inner + ['r%d = r%d' % (d, d + 1)]) + ['} else if x%d == 0 {' % d, '    r%d = 100' % d, '} else {', '    r%d = 0 - x%d' % (d, d), '}']
def c_while(inner, d):
    return ['r%d := 0' % d, 'i%d := 0' % d, 'while i%d < 3 {' % d] + ind(['i%d += 1' % d, 'x%d := x%d + i%d' % (d + 1, d, d)] + inner + ['if r%d < 0 {' % (d + 1), '    continue', '}', 'if r%d > 1000 {' % (d + 1), '    break', '}', 'r%d += r%d' % (d, d + 1)]) + ['}']
def c_for(inner, d):
    return ['r%d := 0' % d, 'for [k%d, v%d] in [x%d, 1, 2] {' % (d, d, d)] + ind(['x%d := v%d + k%d' % (d + 1, d, d)] + inner + ['r%d += r%d' % (d, d + 1)]) + ['}']
def c_fn(inner, d):
    return ['fn f%d(p, q) {' % d] + ind(['x%d := p - q' % (d + 1)] + inner + ['if r%d == 7 {' % (d + 1), '    return 0', '}', 'return r%d' % (d + 1)]) + ['}', 'r%d := f%d(x%d, 1)' % (d, d, d)]
def c_closure(inner, d):
    return ['c%d := 0' % d, 'g%d := fn () {' % d] + ind(['x%d := x%d + c%d' % (d + 1, d, d)] + inner + ['c%d += 1' % d, 'return r%d + c%d' % (d + 1, d)]) + ['}', 'r%d := g%d() + g%d()' % (d, d, d)]
def c_list(inner, d):
    return ['l%d := [x%d, x%d + 1]' % (d, d, d), 'x%d := l%d[1]' % (d + 1, d)] + inner + ['l%d += [r%d]' % (d, d + 1), 'm%d := l%d[1:]' % (d, d), 'r%d := m%d[1] + l%d[0]' % (d, d, d)]
def c_object(inner, d):
    return ['o%d := {"a": x%d, "z": [1]}' % (d, d), 'x%d := o%d.a' % (d + 1, d)] + inner + ['o%d.b = r%d' % (d, d + 1), 'o%d["a"] += 1' % d, 'r%d := o%d["b"] + o%d.a' % (d, d, d)]
def c_string(inner, d):
    return ['s%d := "n"' % d, 'x%d := x%d' % (d + 1, d)] + inner + ['t%d := $"<${s%d}${s%d + "é"}>"' % (d, d, d), 'r%d := r%d + t%d->len()' % (d, d + 1, d)]
def c_destructure(inner, d):
    return ['[a%d, ..rest%d] := [x%d, 2, 3]' % (d, d, d), 'x%d := a%d' % (d + 1, d)] + inner + ['{"k": q%d, ..others%d} := {"k": r%d, "j": 5}' % (d, d, d + 1), 'r%d := q%d + rest%d[1] + others%d.j' % (d, d, d, d)]
def c_spread(inner, d):
    return ['fn h%d(u, v, ..w) {' % d, '    return u - v + w[0]', '}', 'x%d := x%d' % (d + 1, d)] + inner + ['args%d := [r%d, 1]' % (d, d + 1), 'r%d := h%d(args%d.., [4, 5]..)' % (d, d, d)]
def c_this(inner, d):
    return ['ob%d := {"v": x%d, "m": fn (k) {' % (d, d)] + ind(['x%d := this.v + k' % (d + 1)] + inner + ['this.v = r%d' % (d + 1), 'return this']) + ['}}', 'mm%d := null' % d, 'mm%d = ob%d.m' % (d, d), 'r%d := mm%d(1).v + ob%d["m"](0).v' % (d, d, d)]
def c_typefn(inner, d):
    return ['x%d := x%d' % (d + 1, d)] + inner + ['ty%d := r%d->type()' % (d, d + 1), 'r%d := r%d + ty%d->len() + [r%d]->type()->len()' % (d, d + 1, d, d + 1)]

def c_eq(inner, d):
    return ['e%d := [x%d]' % (d, d), 'x%d := x%d' % (d + 1, d)] + inner + ['same%d := [e%d, e%d] == [[x%d], [r%d]]' % (d, d, d, d, d + 1), 'ob%de := {"k": e%d}' % (d, d), 'same2%d := {"p": ob%de, "q": ob%de} != {"p": {"k": [x%d]}, "q": {"k": [r%d]}}' % (d, d, d, d, d + 1),
                                                                       'r%d := r%d' % (d, d + 1), 'if same%d {' % d, '    r%d = r%d + 1' % (d, d + 1), '}', 'if same2%d {' % d, '    r%d = r%d - 2' % (d, d), '}']

CONSTRUCTS = {'ops': c_ops, 'block': c_block, 'if': c_if, 'while': c_while, 'for': c_for, 'fn': c_fn, 'closure': c_closure, 'list': c_list, 'object': c_object, 'string': c_string,
              'destructure': c_destructure, 'eq': c_eq, 'spread': c_spread, 'this': c_this, 'typefn': c_typefn}

def build(names):
    d = len(names)
    lines = ['r%d := x%d * 3 - 1' % (d, d)]
    for i in range(d - 1, -1, -1):
        lines = CONSTRUCTS[names[i]](lines, i)
    return '\n'.join(['x0 := @h0@'] + lines + ['print(r0)']) + '\n'

def templates(tier, seed=0):
    ts = []
    names = list(CONSTRUCTS)
    # small magnitudes and the extremes: the selector-free symbolic integer covers all of i64; loops stay bounded by construction
    for a in names: ts.append({'name': a, 'src': build([a])})
    pairs = list(itertools.product(names, repeat=2))
    rng = random.Random(seed * 977 + 3)
    if tier == 'quick':
        rng.shuffle(pairs); pairs = pairs[:42]
    for p in pairs: ts.append({'name': '-'.join(p), 'src': build(list(p))})
    if tier == 'thorough':
        triples = list(itertools.product(names, repeat=3)); rng.shuffle(triples)
        for t in triples[:260]: ts.append({'name': '-'.join(t), 'src': build(list(t))})
    return ts

def role(v):
    return 'compose:%s:%s:%s' % (v.get('template', ''), v['aspect'], v['ref'])
