# C06 (and C16 / C02 / C17 as riders): integer arithmetic, comparisons, ranges, op-assign forms.  Both operands are
# unconstrained 64-bit solver variables.
import z3

ARITH = ['+', '-', '*', '/', '%']
CMP = ['<', '<=', '>', '>=', '==', '!=']

def templates(tier):
    ts = []
    for op in ARITH:
        n = {'+': 'add', '-': 'sub', '*': 'mul', '/': 'div', '%': 'mod'}[op]
        ts.append({'name': 'bin-' + n, 'src': 'print(@h0@ %s @h1@)\n' % op})
        ts.append({'name': 'opassign-var-' + n, 'src': 'x := @h0@\nx %s= @h1@\nprint(x)\n' % op})
        ts.append({'name': 'opassign-elem-' + n, 'src': 'xs := [7, @h0@]\nxs[1] %s= @h1@\nprint(xs[1])\nprint(xs[0])\n' % op})
        ts.append({'name': 'opassign-prop-' + n, 'src': 'o := {"k": @h0@, "j": 7}\no.k %s= @h1@\nprint(o.k)\nprint(o.j)\n' % op})
        ts.append({'name': 'opassign-key-' + n, 'src': 'o := {"k": @h0@}\no["k"] %s= @h1@\nprint(o["k"])\n' % op})
        if tier == 'thorough':
            ts.append({'name': 'fn-' + n, 'src': 'fn f(a, b) {\n    return a %s b\n}\nprint(f(@h0@, @h1@))\n' % op})
            ts.append({'name': 'chain-' + n, 'src': 'print(@h0@ %s @h1@ %s @h2@)\n' % (op, op)})
    for op in CMP:
        n = {'<': 'lt', '<=': 'le', '>': 'gt', '>=': 'ge', '==': 'eq', '!=': 'ne'}[op]
        ts.append({'name': 'cmp-' + n, 'src': 'print(@h0@ %s @h1@)\n' % op})
    def small_range(v):
        a, b = v['h0'], v['h1']
        return [z3.Or(a >= b, z3.And(a < b, z3.ULE(b - a, 4 if tier == 'quick' else 6)))]
    ts.append({'name': 'range', 'src': 'print(@h0@ .. @h1@)\n', 'assume': small_range})
    ts.append({'name': 'range-for', 'src': 'for [i, v] in @h0@ .. @h1@ {\n    print(v)\n}\n', 'assume': small_range})
    # mixed precedence with symbolic operands (also serves C08 at the evaluation level)
    ts.append({'name': 'mixed', 'src': 'print(@h0@ + @h1@ * @h2@)\nprint(@h0@ - @h1@ - @h2@)\n'})
    return ts

def role(v):
    t = v.get('template', ''); what = v.get('what', '')
    if v['aspect'] == 'panic' and 'remainder with a divisor of zero' in what: return 'mod-zero-divisor-panics'
    if v['aspect'] == 'panic' and 'remainder with overflow' in what: return 'mod-min-by-minus-one-panics'
    return 'arith:%s:%s:%s' % (t, v['aspect'], v['ref'])
