# C01: one or two broad programs from every construct family, run against the complete reference with every observable aspect --
# the whole-program check sees each feature area at least through these (the per-property checks carry the depth).
from . import calls, scopes, control, heap, objects, destructure, seq, equality, render, errors
PICK = {
    calls: ['this-not-dynamic', 'this-rest-method', 'this-routes', 'self-call-in-args', 'param-fresh', 'this-enclosing', 'this-through-list', 'arity-after-args', 'callee-kinds', 'this-in-slot-only'],
    scopes: ['capture-then-shadow', 'pattern-names-see-outer', 'closure-live', 'fresh-per-iteration', 'later-decl-visible', 'scope-after-early-exit', 'shadow-init-reads-outer', 'escaped-closure-calls-sibling', 'dup-params-in-literals', 'shorthand-sees-outer', 'pattern-reads-earlier-name'],
    control: ['if-chain-effects', 'for-pair-kept', 'mutate-list-in-for', 'return-or-null', 'empty-branches', 'jumps-in-literals', 'for-over-range', 'fn-forlist', 'top-while', 'fn-call'],
    heap: ['store-self-list', 'spread-then-mutate', 'closure-shares', 'for-pair-fresh', 'slice-shares-elements', 'assign-equal-distinct'],
    objects: ['key-expression-forms', 'literal-order', 'self-key', 'special-keys'],
    destructure: ['swap', 'rest-fresh', 'law-collect', 'law-obj-collect', 'obj-decl-20', 'obj-decl-19', 'param-underscores', 'misplaced'],
    seq: ['list-range-assign-self-2', 'frame-index-assign', 'concat-empty-frame'],
    equality: ['alias-vs-copy', 'functions', 'self-containing', 'long-lists', 'list-vs-object'],
    render: ['aliasing', 'scalars', 'raw-strings', 'empty-strings', 'bracket-strings'],
    errors: ['output-so-far', 'kinds-top'],
}
def templates(tier, seed=0):
    ts = []
    for mod, names in PICK.items():
        have = {t['name']: t for t in mod.templates(tier, seed)}
        for n in names:
            if n in have:
                t = dict(have[n]); t['name'] = mod.__name__.split('.')[-1] + '/' + n; ts.append(t)
    return ts
def role(v): return 'cross:%s:%s:%s' % (v.get('template', ''), v['aspect'], v['ref'])
