# C07 (riders: C01, C02, C17): control flow.  Nestings of {bare block, if/else-if/else, while, for over list/string/object,
# function call}; every condition is a symbolic boolean, a selector (symbolic integer compared in a ladder written in Seed)
# places break / continue / return / nothing at the innermost position (and, thorough, at a second position).
import itertools, z3

KINDS = ['block', 'if', 'elif', 'while', 'forlist', 'forstr', 'forobj', 'call']

def ind(lines, n=1): return ['    ' * n + l for l in lines]

def jump_ladder(sel):
    return ['if %s == 0 {' % sel, '    break', '} else if %s == 1 {' % sel, '    continue', '} else if %s == 2 {' % sel, '    return 7', '}']

def wrap(kind, k, body, bvar):
    """returns lines of construct `kind` (nesting index k) around body lines; bvar: name of a boolean variable usable as condition"""
    p = 100 + 10 * k
    if kind == 'block':
        return ['{'] + ind(body) + ['}']
    if kind == 'if':
        return ['if %s {' % bvar] + ind(body) + ['} else {', '    print(%d)' % (p + 5), '}']
    if kind == 'elif':
        return ['if %s && false {' % bvar, '    print(%d)' % (p + 4), '} else if %s {' % bvar] + ind(body) + ['} else if true {', '    print(%d)' % (p + 5), '} else {', '    print(%d)' % (p + 6), '}']
    if kind == 'while':
        return ['i%d := 0' % k, 'while i%d < 2 {' % k, '    i%d += 1' % k] + ind(body) + ['    print(i%d)' % k, '}']
    if kind == 'forlist':
        return ['for [k%d, v%d] in [10, 20] {' % (k, k), '    print(v%d)' % k] + ind(body) + ['    print(k%d)' % k, '}']
    if kind == 'forstr':
        return ['for [k%d, v%d] in "ab" {' % (k, k), '    print(v%d)' % k] + ind(body) + ['    print(k%d)' % k, '}']
    if kind == 'forobj':
        return ['for [k%d, v%d] in {"b": 1, "a": 2} {' % (k, k), '    print(k%d)' % k] + ind(body) + ['    print(v%d)' % k, '}']
    if kind == 'call':
        return ['fn g%d() {' % k] + ind(body) + ['    print(%d)' % (p + 7), '}', 'print(g%d())' % k]
    raise ValueError(kind)

def nest(kinds, inner, in_fn):
    body = inner
    for k in range(len(kinds) - 1, -1, -1):
        p = 100 + 10 * k
        body = ['print(%d)' % p] + wrap(kinds[k], k, body, 'c%d' % k) + ['print(%d)' % (p + 1)]
    return body

def make(kinds, in_fn, two_jumps=False):
    inner = ['print(190)'] + jump_ladder('s') + ['print(191)']
    body = nest(kinds, inner, in_fn)
    decl = ['s := @h0@'] + ['c%d := @b%d@' % (k, k + 1) for k in range(len(kinds))]
    if in_fn:
        lines = decl + ['fn f() {'] + ind(body) + ['    return 9', '}', 'print(f())', 'print(8)']
    else:
        lines = decl + body + ['print(8)']
    name = ('fn-' if in_fn else 'top-') + '-'.join(kinds)
    def assume(v): return [v['h0'] >= 0, v['h0'] <= 3]
    return {'name': name, 'src': '\n'.join(lines) + '\n', 'assume': assume}

def mutate_templates():
    ts = []
    muts = ['xs[2] = 99', 'xs += [4]', 'xs = []', 'xs[0:2] = [7, 8]', 'ys := xs\nys[1] = 55']
    lad = []
    for i, m in enumerate(muts):
        lad.append(('if' if i == 0 else '} else if') + ' s == %d {' % i)
        lad += ['    ' + l for l in m.split('\n')]
    lad.append('}')
    src = ['s := @h0@', 'xs := [1, 2, 3]', 'for [i, v] in xs {'] + ind(lad) + ['    print(v)', '}', 'print(xs)']
    ts.append({'name': 'mutate-list-in-for', 'src': '\n'.join(src) + '\n', 'assume': lambda v: [v['h0'] >= 0, v['h0'] <= len(muts)]})
    omuts = ['o.c = 3', 'o["a"] = 9', 'o = {}', 'o.b += 1']
    lad = []
    for i, m in enumerate(omuts):
        lad.append(('if' if i == 0 else '} else if') + ' s == %d {' % i); lad.append('    ' + m)
    lad.append('}')
    src = ['s := @h0@', 'o := {"b": 2, "a": 1}', 'for [k, v] in o {'] + ind(lad) + ['    print(k)', '    print(v)', '}', 'print(o)']
    ts.append({'name': 'mutate-object-in-for', 'src': '\n'.join(src) + '\n', 'assume': lambda v: [v['h0'] >= 0, v['h0'] <= len(omuts)]})
    # while re-evaluates its condition before every iteration; symbolic bound
    src = ['n := @h0@', 'i := 0', 'while i < n {', '    print(i)', '    i += 1', '}', 'print(i)']
    ts.append({'name': 'while-bound', 'src': '\n'.join(src) + '\n', 'assume': lambda v: [v['h0'] >= -2, v['h0'] <= 3]})
    # if chain: exactly the first true branch
    src = ['if @b0@ {', '    print(1)', '} else if @b1@ {', '    print(2)', '} else if @b2@ {', '    print(3)', '} else {', '    print(4)', '}', 'if @b0@ {', '    print(5)', '} else if @b1@ {', '    print(6)', '}', 'print(0)']
    ts.append({'name': 'if-chain', 'src': '\n'.join(src) + '\n'})
    # the pair bound by `for` belongs to its iteration (a whole-pair target kept beyond the iteration)
    ts.append({'name': 'for-pair-kept', 'src': 'best := []\nfor kv in [@h10@, @h11@, 1] {\n    if best == [] {\n        best = kv\n    }\n}\nprint(best)\nkept := []\nfor e in {"a": 1, "b": 2, "c": 3} {\n    if e[0] == "b" {\n        continue\n    }\n    kept += [e]\n}\nprint(kept)\nn := 0\nprev := [0, ""]\nfor ch in "aabbb" {\n    if prev[1] == ch[1] {\n        n += 1\n    }\n    prev = ch\n}\nprint(n)\n'})
    # conditions are evaluated in order and only up to the first true one
    src = ['fn t(n, v) {', '    print(n)', '    return v', '}', 'xs := []', 'if t(1, @b0@) {', '    print(10)', '} else if t(2, @b1@) {', '    print(20)', '} else if t(3, @b2@) {', '    print(30)', '} else {', '    print(40)', '}',
           'if xs == [] {', '    print("empty")', '} else if xs[0] == 1 {', '    print("one")', '}', 'i := 0', 'while t(4, i < 2) {', '    i += 1', '}']
    ts.append({'name': 'if-chain-effects', 'src': '\n'.join(src) + '\n'})
    # `for` over a range written in place: positions count from 0 whatever the first item is
    ts.append({'name': 'for-over-range', 'src': 'lo := @h0@\nfor [i, n] in lo .. lo + 3 {\n    print(i * 100 + n)\n}\nfor [i, n] in 5 .. 8 {\n    print(i)\n    print(n)\n}\nr := 2 .. 4\nfor [i, n] in r {\n    print(i + n)\n}\nfor p in 7 .. 9 {\n    print(p)\n}\nfor [i, n] in @h1@ .. 2 {\n    print(n - i)\n}\n', 'assume': lambda v: [v['h0'] >= -3, v['h0'] <= 3, v['h1'] >= 0, v['h1'] <= 3]})
    # an empty branch is still the branch taken
    src = ['fn t(n, v) {', '    print(n)', '    return v', '}', 'if t(1, @b0@) {', '} else if t(2, @b1@) {', '    print(20)', '} else {', '    print(30)', '}', 'if @b2@ {', '    # only a comment', '} else if @b0@ {', '} else {', '    print(40)', '}',
           'for [i, v] in [1, 2, 3] {', '    if v == 2 {', '    } else {', '        continue', '    }', '    print(v)', '}', 'print(0)']
    ts.append({'name': 'empty-branches', 'src': '\n'.join(src) + '\n'})
    # break / continue / return inside function literals and methods (no loop of their own), called from inside a loop
    src = ['s := @h0@', 'lit := fn (s) {', '    print(190)'] + ind(jump_ladder('s')) + ['    print(191)', '}', 'o := {"m": fn (s) {', '    {'] + ind(jump_ladder('s'), 2) + ['    }', '    return 5', '}}',
           'for [i, v] in [1, 2] {', '    print(v)', '    if @b0@ {', '        print(lit(s))', '    } else {', '        print(o.m(s))', '    }', '}', 'print(8)']
    ts.append({'name': 'jumps-in-literals', 'src': '\n'.join(src) + '\n', 'assume': lambda v: [v['h0'] >= 0, v['h0'] <= 3]})
    # call that runs off its end yields null; return value through nested blocks
    src = ['fn f(c) {', '    if c {', '        {', '            return 1', '        }', '    }', '}', 'print(f(@b0@))']
    ts.append({'name': 'return-or-null', 'src': '\n'.join(src) + '\n'})
    return ts

def templates(tier, seed=0):
    ts = []
    depth1 = [[k] for k in KINDS]
    depth2 = [list(p) for p in itertools.product(KINDS, repeat=2)]
    for ks in depth1:
        ts.append(make(ks, True)); ts.append(make(ks, False))
    if tier == 'quick':
        # all ordered pairs inside a function; at top level only pairs that start with a loop or call
        for ks in depth2:
            ts.append(make(ks, True))
        for ks in depth2:
            if ks[0] in ('while', 'forlist', 'call') and ks[1] in ('block', 'if', 'call', 'while'): ts.append(make(ks, False))
    else:
        for ks in depth2:
            ts.append(make(ks, True)); ts.append(make(ks, False))
        import random
        rng = random.Random(seed)
        depth3 = [list(p) for p in itertools.product(KINDS, repeat=3)]
        rng.shuffle(depth3)
        for ks in depth3[:160]: ts.append(make(ks, True))
    ts += mutate_templates()
    return ts

def role(v):
    t = v.get('template', '')
    what = v.get('what', '')
    return 'control:%s:%s:%s' % (t, v['aspect'], v['ref'])
