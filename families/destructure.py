# C13 (riders C02, C05, C12, C20): destructuring, spread and collect.  Per pattern a selector picks the source value among
# sources of every length 0..5 (elements symbolic) and shape variants; the pattern is used in declaration, assignment, for-target
# and parameter position.
import re

def sel_ladder(var, sel, options):
    out = ['%s := %s' % (var, options[0])]
    for i, o in enumerate(options[1:], 1):
        out.append(('if' if i == 1 else '} else if') + ' %s == %d {' % (sel, i))
        out.append('    %s = %s' % (var, o))
    out.append('}')
    return out

def flat_sources(maxn):
    return ['[' + ', '.join('@h%d@' % (10 + i) for i in range(n)) + ']' for n in range(maxn + 1)]

NESTED_SOURCES = ['[@h10@, [@h11@, @h12@]]', '[@h10@, [@h11@]]', '[@h10@, @h11@]', '[@h10@]', '[[@h10@, @h11@, @h12@], @h13@]', '[[@h10@], @h13@]', '[[], @h13@]',
                  '[@h10@, {"k": @h11@}]', '[@h10@, {"k": @h11@, "j": @h12@}]', '[@h10@, {"j": @h12@}]', '[@h10@, null]', '"ab"', 'null', '{"a": 1}']

LIST_PATTERNS = [
    ('[]', 'flat'), ('[a]', 'flat'), ('[a, b]', 'flat'), ('[a, _, c]', 'flat'), ('[_, _]', 'flat'), ('[a, ..r]', 'flat'), ('[a, b, ..r]', 'flat'), ('[..r]', 'flat'),
    ('[a, b, c, d]', 'flat'), ('[a, _, _, ..r]', 'flat'), ('[a, a]', 'flat'), ('[a, .._]', 'flat'), ('[_, ..a]', 'flat'),
    ('[a, [b, c]]', 'nested'), ('[[a, ..r], b]', 'nested'), ('[a, {k}]', 'nested'), ('[a, {"k": b, ..o}]', 'nested'), ('[a, [b, a]]', 'nested'),
]
OBJ_SOURCES = ['{}', '{"a": @h10@}', '{"a": @h10@, "b": @h11@}', '{"a": @h10@, "b": @h11@, "c": @h12@}', '{"b": @h11@, "c": @h12@, "d": @h13@, "a": @h10@}',
               '{"a": [@h10@, @h11@], "b": {"c": @h12@}}', '{"a": {"b": @h11@}, "b": [@h12@]}', '[1, 2]', 'null', '"s"', '{"A": @h10@, "": @h11@, " x": @h12@}', '{"_": @h10@, "a": @h11@}']
OBJ_PATTERNS = ['{a}', '{a, b}', '{"a": x}', '{"a": x, "b": y}', '{"a": b, "b": a}', '{a, ..r}', '{..r}', '{a, "b": _, ..r}', '{"a": [x, y]}', '{"a": [x, ..r], "b": {c}}',
                '{a, "a": x}', '{a, "b": a}', '{"a": {b}}', '{"b": {"c": x}, ..r}', '{a, ..r, b}', '{"A": x, "": y, " x": z}', '{a, ..a}', '{"_": x, ..r}', '{"_": _, a}', '{a, "a": x, ..r}', '{"a": x, "a": [y, z]}', '{"a": x, "a": y, ..r}']

def names_of(pat):
    ns = []
    for m in re.finditer(r'"[^"]*"|([A-Za-z_][A-Za-z0-9_]*)', pat):
        if m.group(1) and m.group(1) != '_' and m.group(1) not in ns: ns.append(m.group(1))
    return ns

def templates(tier, seed=0):
    ts = []
    maxn = 4 if tier == 'quick' else 5
    for idx, (pat, kind) in enumerate(LIST_PATTERNS):
        srcs = flat_sources(maxn) if kind == 'flat' else NESTED_SOURCES
        ns = names_of(pat); prints = ['print(%s)' % n for n in ns]
        n = len(srcs); assume = (lambda n: (lambda v: [v['h0'] >= 0, v['h0'] < n]))(n)
        head = ['s := @h0@'] + sel_ladder('src', 's', srcs)
        ts.append({'name': 'list-decl-%d' % idx, 'src': '\n'.join(head + ['%s := src' % pat] + prints + ['print(src)']) + '\n', 'assume': assume})
        if True:
            pre = ['%s := 0' % x for x in ns]
            ts.append({'name': 'list-assign-%d' % idx, 'src': '\n'.join(head + pre + ['%s = src' % pat] + prints) + '\n', 'assume': assume})
        if tier == 'thorough' or idx % 3 == 0:
            ts.append({'name': 'list-for-%d' % idx, 'src': '\n'.join(head + ['for [i, %s] in [src, src] {' % pat] + ['    ' + p for p in prints] + ['}']) + '\n', 'assume': assume})
        if tier == 'thorough' or idx % 3 == 1:
            ts.append({'name': 'list-param-%d' % idx, 'src': '\n'.join(head + ['fn f(p0, %s) {' % pat] + ['    ' + p for p in prints] + ['    return p0', '}', 'print(f(7, src))']) + '\n', 'assume': assume})
    for idx, pat in enumerate(OBJ_PATTERNS):
        ns = names_of(pat); prints = ['print(%s)' % n for n in ns]
        n = len(OBJ_SOURCES); assume = (lambda n: (lambda v: [v['h0'] >= 0, v['h0'] < n]))(n)
        head = ['s := @h0@'] + sel_ladder('src', 's', OBJ_SOURCES)
        ts.append({'name': 'obj-decl-%d' % idx, 'src': '\n'.join(head + ['%s := src' % pat] + prints + ['print(src)']) + '\n', 'assume': assume})
        if True:
            pre = ['%s := 0' % x for x in ns]
            ts.append({'name': 'obj-assign-%d' % idx, 'src': '\n'.join(head + pre + ['%s = src' % pat] + prints) + '\n', 'assume': assume})
        if tier == 'thorough' or idx % 3 == 0:
            ts.append({'name': 'obj-param-%d' % idx, 'src': '\n'.join(head + ['fn f(%s) {' % pat] + ['    ' + p for p in prints] + ['}', 'print(f(src))']) + '\n', 'assume': assume})
    # for-target patterns at the top level of the target (the target receives the pair [key, value])
    fpats = ['p', '[k, v]', '[k, ..rest]', '[..rest]', '[k, v, ..rest]', '[_, v]', '[k, _]', '[k, [a, b]]', '[k, [a, ..r]]', '[k, {"x": a}]', '[a, a]', '[k]', '[k, v, w]', '{k}', '[k, ..[v]]', '_', '[_, ..r]']
    fsrcs = ['[[@h10@, @h11@], [@h12@, @h13@, 5]]', '{"p": {"x": @h10@}, "q": {"x": @h11@, "y": 2}}', '"ab"', '[@h10@]', '[]']
    for idx, pat in enumerate(fpats):
        ns = names_of(pat); prints = ['    print(%s)' % n for n in ns] or ['    print(1)']
        ts.append({'name': 'for-target-%d' % idx, 'src': '\n'.join(['s := @h0@'] + sel_ladder('src', 's', fsrcs) + ['for %s in src {' % pat] + prints + ['}', 'print(9)']) + '\n', 'assume': lambda v: [v['h0'] >= 0, v['h0'] < len(fsrcs)]})
    # the right-hand side is evaluated completely before anything is bound
    ts.append({'name': 'swap', 'src': 'a := @h10@\nb := @h11@\n[a, b] = [b, a]\nprint(a)\nprint(b)\ncur := 0\nnext := 1\ni := 0\nwhile i < 5 {\n    [cur, next] = [next, cur + next]\n    i += 1\n}\nprint(cur)\nxs := [@h12@, 2, @h13@]\n[xs[0], xs[2]] = [xs[2], xs[0]]\nprint(xs)\nn := @h14@\n{\n    [n, m] := [n + 1, n]\n    print(n)\n    print(m)\n}\no := {"p": 1, "q": 2}\n{"p": o.q, "q": o.p} = o\nprint(o)\n[c, [d, e]] := [1, [2, 3]]\n[c, [d, e]] = [e, [c, d]]\nprint([c, d, e])\n', 'assume': lambda v: [v['h14'] < 100, v['h14'] > -100]})
    # inverse laws, stated in Seed
    flat = flat_sources(maxn); n = len(flat); a_n = (lambda n: (lambda v: [v['h0'] >= 0, v['h0'] < n, v['h1'] >= 0, v['h1'] < n]))(n)
    flat2 = [f.replace('@h1', '@h2') for f in flat]
    ts.append({'name': 'law-collect', 'src': '\n'.join(['s := @h0@'] + sel_ladder('xs', 's', flat) + ['[p, q, ..rest] := xs', 'print(([p, q] + rest) == xs)', 'print(rest === xs)', 'print(rest)']) + '\n',
               'assume': lambda v: [v['h0'] >= 0, v['h0'] < n]})
    ts.append({'name': 'law-spread', 'src': '\n'.join(['s := @h0@', 't := @h1@'] + sel_ladder('xs', 's', flat) + sel_ladder('ys', 't', flat2) +
                                                     ['zs := [xs.., ys..]', 'print(zs == xs + ys)', 'print(zs === xs)', 'print([xs..] === xs)', 'print([xs..] == xs)', 'print(zs)']) + '\n', 'assume': a_n})
    ts.append({'name': 'law-obj-collect', 'src': '\n'.join(['s := @h0@'] + sel_ladder('o', 's', OBJ_SOURCES[:5]) + ['{a, "b": k, ..rest} := o', 'print({"a": a, "b": k, rest..} == o)', 'print(rest)', 'print(rest === o)']) + '\n',
               'assume': lambda v: [v['h0'] >= 0, v['h0'] < 5]})
    ts.append({'name': 'law-obj-spread', 'src': '\n'.join(['s := @h0@', 't := @h1@'] + sel_ladder('o', 's', OBJ_SOURCES[:5]) + sel_ladder('p', 't', [x.replace('@h1', '@h2') for x in OBJ_SOURCES[:5]]) +
                                                         ['q := {o.., p..}', 'print(q)', 'print({o..} == o)', 'print({o..} === o)', 'print({"a": 0, o..})', 'print({o.., "a": 0})']) + '\n',
               'assume': lambda v: [v['h0'] >= 0, v['h0'] < 5, v['h1'] >= 0, v['h1'] < 5]})
    # calls: f(xs..) behaves as f(xs[0], .., xs[n-1]); rest parameter receives exactly the surplus arguments as a fresh list
    for arity, params in enumerate(['', 'a', 'a, b', 'a, b, c', '..r', 'a, ..r', 'a, b, ..r']):
        ns = names_of(params); body = ['    print(%s)' % x for x in ns] or ['    print(0)']
        fresh = ['    r[0] = 99'] if 'r' in ns and False else []
        ts.append({'name': 'call-spread-%d' % arity, 'src': '\n'.join(['s := @h0@'] + sel_ladder('xs', 's', flat) + ['fn f(%s) {' % params] + body + ['    return 1', '}', 'print(f(xs..))', 'print(xs)']) + '\n',
                   'assume': lambda v: [v['h0'] >= 0, v['h0'] < n]})
        ts.append({'name': 'call-split-%d' % arity, 'src': '\n'.join(['s := @h0@', 't := @h1@'] + sel_ladder('xs', 's', flat[:4]) + sel_ladder('ys', 't', flat2[:3]) +
                                                                      ['fn f(%s) {' % params] + body + ['    return 1', '}', 'print(f(xs.., 5, ys..))']) + '\n',
                   'assume': lambda v: [v['h0'] >= 0, v['h0'] < 4, v['h1'] >= 0, v['h1'] < 3]})
    ts.append({'name': 'rest-fresh', 'src': 'xs := [@h10@, @h11@, @h12@]\nfn f(a, ..r) {\n    r[0] = 99\n    return r\n}\nr2 := f(xs..)\nprint(xs)\nprint(r2)\nprint(r2 === xs)\n'})
    # misplaced spread / collect
    bads = ['[a..] := [1]', '[..a] := 5', 'print([..xs])', 'print({..xs})', '{a..} := {"a": 1}', 'fn g(a..) {\n    return a\n}\nprint(g(1))', 'fn g({a..}) {\n    return a\n}\nprint(g({"a": 1}))',
            'print([1, 2] ..)', 'f := fn (..r, a) {\n    return a\n}\nprint(f(1, 2))', '{..r, a} := {"a": 1, "b": 2}\nprint(r)']
    lad = []
    for i, b in enumerate(bads):
        lad.append(('if' if i == 0 else '} else if') + ' s == %d {' % i); lad += ['    ' + l for l in b.split('\n')]
    lad.append('}')
    ts.append({'name': 'misplaced', 'src': '\n'.join(['s := @h0@', 'xs := [1]'] + lad + ['print(9)']) + '\n', 'assume': lambda v: [v['h0'] >= 0, v['h0'] <= len(bads)]})
    ts.append({'name': 'param-underscores', 'src': 'fn f(_, b, _) {\n    return b\n}\nprint(f(1, @h10@, 3))\nfn g([_, _, c], .._) {\n    return c\n}\nprint(g([1, 2, @h11@], 4, 5))\nh := fn (_, _) {\n    return 1\n}\nprint(h(0, 0))\n'})
    # spread / collect in a place where the grammar has no room for it: rejected before anything runs (one program each)
    cands = ['print(g(..xs))', 'print(g(1, ..xs))', '[..a, b] := [1, 2]', 'x := [1, ..xs, 2]', 'x := [..xs, 1]', 'x := {..o, "a": 1}', 'x := {"a": 1, ..o}', 'fn h(..r, a) {\n    return a\n}', 'fn h(a, ..r, ..q) {\n    return a\n}',
             'print(g(xs.. ..))', 'print(g(..xs..))', '[a, ..r..] := xs', 'x := [xs....]', 'for [i, ..v] in xs {\n    print(v)\n}', 'for ..v in xs {\n    print(v)\n}', '..r := xs', 'x := ..xs', 'x := xs..', 'print(xs..)', 'return ..xs',
             '{a, ..r, ..q} := o', 'x := [..]', 'print(g(..))', 'print(g(1, 2, ..xs))', 'x := fn (a, ..) {\n    return a\n}', 'o.f(..xs)', 'print(o["a"](..xs))']
    for i, cnd in enumerate(cands):
        ts.append({'name': 'misplaced-form-%d' % i, 'src': 'xs := [1, 2]\no := {"a": 1}\nfn g(a, b) {\n    return a\n}\nprint(@h10@)\n' + cnd + '\nprint(2)\n'})
    return ts

def role(v):
    t = v.get('template', '')
    return 'destructure:%s:%s:%s' % (t, v['aspect'], v['ref'])
