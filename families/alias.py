# C02 (dedicated): aliasing shapes -- the same container on both sides of an operator or op-assign, a container stored inside
# itself or inside its comparand -- printed, compared, iterated, spread, destructured; extreme integers; non-ASCII text.
def ladder(sel, options):
    out = []
    for i, code in enumerate(options):
        out.append(('if' if i == 0 else '} else if') + ' %s == %d {' % (sel, i))
        out += ['    ' + l for l in code.split('\n')]
    out.append('}')
    return out

SAME_CELL = [
    'print(xs + xs)', 'print(xs == xs)', 'print(xs === xs)', 'print(xs != xs)', 'xs += xs\nprint(xs)', 'xs[0] += xs\nprint(xs[0])', 'xs[1] = xs[0]\nxs[0] += xs[1]\nprint(xs)', 'xs[0:1] = xs[1:2]\nprint(xs)',
    'xs[0:2] = xs\nprint(xs)', 'print([xs.., xs..])', '[a, b] := xs\n[xs[0], xs[1]] = xs\nprint(xs)', 'for [i, v] in xs {\n    xs[i] = xs\n}\nprint(xs[0] === xs)', 'print(xs[0:2] == xs)',
    'o.k += o.k\nprint(o.k)', 'o.k = o\nprint(o.k === o)', 'o["k"] = [o]\nprint(o.k[0] === o)', 'print({o.., o..} == o)', '{k} := o\n{"k": o.k} = o\nprint(k)', 'o.self = o\nprint(o.self.self === o)',
    'print(o == o)', 'o.k[0] += o.k\nprint(o.k)', 'ys := [xs]\nprint(ys == xs)\nprint(xs == ys)', 'ys := [xs]\nprint(ys[0] == xs)', 'p := {"o": o}\nprint(p == o)\nprint(o == p)', 'print([o] == [o])',
    'xs[0] = xs\nprint(xs === xs[0])', 'xs[0] = xs\nprint(xs == xs)', 'xs[0] = xs\nfor [i, v] in xs {\n    print(i)\n}', 'xs[0] = xs\nys := [xs..]\nprint(ys[0] === xs)', 'xs[0] = xs\n[h, ..t] := xs\nprint(h === xs)',
    'xs[0] = xs\nprint(xs[0][0][0] === xs)', 'o.k = o\nfor [k2, v2] in o {\n    print(k2)\n}', 'o.k = o\n{..r} := o\nprint(r.k === o)', 'o.k = o\nq := {o..}\nprint(q.k === o)', 'xs[0] = [xs]\nprint(xs[0][0] === xs)',
    'f := fn () {\n    return xs\n}\nxs[0] = f\nprint(xs[0]() === xs)', 'xs[0] += [xs]\nprint(xs[0][2] === xs)', 'xs[1] += o.k\nprint(xs[1])', 'o.k += xs[0]\nprint(o.k)', 'xs[0][0] += xs[0][0]\nprint(xs)',
]
TYPEFN_ROUTES = [
    'tools := {"measure": "hello"->len}\nprint(tools.measure())', 'tools := {"t": xs->type}\nprint(tools.t())', 'm := "abc"->len\nprint(m())', 'ms := ["abc"->len, o->type]\nprint(ms[0]())\nprint(ms[1]())',
    'fn ap(g) {\n    return g()\n}\nprint(ap("hé"->len))', 'tools := {"measure": "hello"->len}\nh := tools["measure"]\nprint(h())', 'print(("a"->len)->type())', 'print(xs->type->type())', 'tools := {"p": print}\ntools.p(1)',
    # built-in functions called with too few / too many arguments, also through spreads
    'print()', 'none := []\nprint(none..)', 'print(1, 2)', 'print(xs..)', 'p := print\np()', 'print("abc"->len(xs..))', 'print(xs->type(1, 2))', 'print(print())', 'print(o->nosuch())', 'none := []\nprint("ab"->len(none..))',
    'fn wrap(v) {\n    return $"<${v}>"\n}\nzz := wrap("z")\nprint($"a${wrap("q")}b${wrap(zz)}")', 'fn wrap2(v) {\n    return $"[${v}]"\n}\no2 := {"w": wrap2}\nprint($"${o2.w("k")}${o2["w"]("j")}")',
    'tools := {"l": "x"->len}\nprint(tools.l(1))', 'print("abc"->len(1))', 'print(5->len())', 'tools := {"ty": null}\nprint(tools.ty->type())', 'q := {"len": "zz"->len}\nw := {"k": q.len}\nprint(w.k())',
]
CYCLIC_PRINT = ['xs[0] = xs\nprint(xs)', 'o.k = o\nprint(o)', 'xs[0] = [xs]\nprint(xs)', 'o.k = [o]\nprint(o)']

def templates(tier, seed=0):
    ts = []
    head = ['s := @h0@', 'xs := [[@h10@, 2], [3]]', 'o := {"k": [@h11@], "j": 1}']
    n = len(SAME_CELL)
    ts.append({'name': 'same-cell', 'src': '\n'.join(head + ladder('s', SAME_CELL) + ['print(9)']) + '\n', 'assume': lambda v: [v['h0'] >= 0, v['h0'] <= n]})
    ts.append({'name': 'typefn-routes', 'src': '\n'.join(head + ladder('s', TYPEFN_ROUTES) + ['print(9)']) + '\n', 'assume': lambda v: [v['h0'] >= 0, v['h0'] <= len(TYPEFN_ROUTES)]})
    ts.append({'name': 'cyclic-print', 'src': '\n'.join(head + ladder('s', CYCLIC_PRINT) + ['print(9)']) + '\n', 'assume': lambda v: [v['h0'] >= 0, v['h0'] < len(CYCLIC_PRINT)]})
    # extreme integers in every arithmetic / index / range position
    ts.append({'name': 'extreme-ints', 'src': 'a := @h0@\nb := @h1@\nxs := [1, 2, 3]\nif @b0@ {\n    print(xs[a])\n} else if @b1@ {\n    print(xs[a:b])\n} else if @b2@ {\n    xs[a:b] = [0]\n} else if @b3@ {\n    xs[a] = b\n} else if @b4@ {\n    print("abc"[a:b])\n} else if @b5@ {\n    print((a / b) % b)\n} else if @b6@ {\n    print("abc"[a])\n} else {\n    print(a * b - a)\n}\n'})
    # non-ASCII text in literals, interpolation, indexing, iteration, keys
    mb = ['é', '€uro', 'x\U0001F600y', 'ÀÉЀ', 'á']
    for i, s in enumerate(mb):
        ts.append({'name': 'non-ascii-%d' % i, 'src': 's := "%s"\nt := $"<${s}>%s${s}"\nprint(t)\nprint(t->len())\nk := @h0@\nu := s[:k]\nw := s[k:]\nprint((u + w) == s)\nfor [i, c] in s {\n    print(c == s[i])\n}\no := {s: 1, "%s": 2}\nprint(o[s])\nprint($"${s}${s}%s")\nprint($"${s + " €"}|${{"ü": s}["ü"]}|${"日" + s}")\nxs := [0, 0, 0, 0, 0, 0, 0, 0, 0]\nxs[0:k] = s[:k]\nprint(xs[0] == s[0])\n' % (s, s, s + 'z', s)})
    return ts

def role(v):
    t = v.get('template', ''); what = v.get('what', ''); w = v.get('wit', {})
    if t == 'cyclic-print' and v['aspect'] in ('panic', 'hang'): return 'printing-a-self-containing-value-panics'
    if t == 'same-cell' and v['aspect'] == 'panic' and w.get('h0') in (5, 20, 36): return 'list-element-op-assign-with-the-list-itself-panics'
    return 'alias:%s:%s:%s' % (t, v['aspect'], w.get('h0'))
