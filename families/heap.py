# C05 (riders C02, C10): containers are shared by reference; building operations return fresh ones.  Alias shapes are concrete
# (enumerated set-ups); which mutation each history step performs is chosen by a symbolic selector; element values are symbolic.
def ladder(sel, options):
    out = []
    for i, code in enumerate(options):
        out.append(('if' if i == 0 else '} else if') + ' %s == %d {' % (sel, i))
        out += ['    ' + l for l in code.split('\n')]
    out.append('}')
    return out

LIST_SETUPS = {
    'alias': ['a := [@h10@, @h11@]', 'b := a', 'c := [a, 5]'],
    'arg-return': ['a := [@h10@, @h11@]', 'fn id(x) {', '    return x', '}', 'b := id(a)', 'c := [id(a), 5]'],
    'capture': ['a := [@h10@, @h11@]', 'fn cap() {', '    return a', '}', 'b := cap()', 'c := [b, 5]'],
    'concat-fresh': ['a := [@h10@, @h11@]', 'b := a + []', 'c := [a, 5]'],
    'slice-fresh': ['a := [@h10@, @h11@]', 'b := a[0:2]', 'c := [a[:], 5]'],
    'spread-fresh': ['a := [@h10@, @h11@]', 'b := [a..]', 'c := [[a..], 5]'],
    'collect-fresh': ['a := [@h10@, @h11@]', '[..b] := a', '[_, ..r] := [0, a..]', 'c := [r, 5]'],
    'opassign-fresh': ['a := [@h10@, @h11@]', 'b := a', 'b += []', 'c := [a, 5]'],
    'shared-elements': ['e := [@h10@]', 'a := [e, @h11@]', 'b := a + []', 'c := [b[0], 5]'],
    'range-fresh': ['a := 0 .. 2', 'b := 0 .. 2', 'c := [a, 5]'],
    'param-assign': ['a := [@h10@, @h11@]', 'b := [7, 8]', 'fn f(p, q) {', '    p = [1, 1]', '    q[0] = 77', '    return p', '}', 'c := [f(a, b), 5]'],
    'object-field': ['a := [@h10@, @h11@]', 'o := {"k": a}', 'b := o.k', 'c := [o["k"], 5]'],
}
LIST_OPS = ['b = [a[0], a[1]]\nprint(b === a)', 'b = a + []\nprint(@h%d@)', 'b[:] = [0, @h%d@]', 'fn same(l) {\n    return l\n}\nd := same(a) + [@h%d@]\nprint(d === a)\nprint(d)', 'a[0] = @h%d@', 'b[0] = @h%d@', 'c[0][1] = @h%d@', 'a += [@h%d@]', 'b += [@h%d@]', 'a[0:1] = [@h%d@]', 'c[0] = [@h%d@]', 'b = [@h%d@]', 'c[0] += [@h%d@]', 'c[0] += c[0]', 'print(0)']
OBJ_SETUPS = {
    'alias': ['a := {"k": @h10@, "j": @h11@, "lst": [1]}', 'b := a', 'c := {"in": a}', 'l0 := a.lst'],
    'spread-fresh': ['a := {"k": @h10@, "j": @h11@, "lst": [1]}', 'b := {a..}', 'c := {"in": {a..}}', 'l0 := a.lst'],
    'collect-fresh': ['a := {"k": @h10@, "j": @h11@, "lst": [1]}', '{..b} := a', 'c := {"in": a}', 'l0 := a.lst'],
    'nested-shared': ['e := {"z": @h10@}', 'a := {"k": e, "j": @h11@, "lst": [1]}', 'b := {a..}', 'c := {"in": b}', 'l0 := a.lst'],
    'arg-capture': ['a := {"k": @h10@, "j": @h11@, "lst": [1]}', 'l0 := a.lst', 'fn get() {', '    return a', '}', 'fn id(x) {', '    return x', '}', 'b := id(get())', 'c := {"in": get()}'],
}
OBJ_OPS = ['a.k = @h%d@', 'a.lst += [@h%d@]', 'c["in"].lst += b.lst', 'b.k = @h%d@', 'c["in"].j = @h%d@', 'a["new"] = @h%d@', 'b.j += 1', 'c.in = {"k": @h%d@, "j": 0}', 'b = {"k": @h%d@}', 'print(0)']

def mk(name, setup, ops, nsteps, obs):
    src = ['s%d := @h%d@' % (i, i) for i in range(nsteps)] + list(setup)
    for i in range(nsteps):
        src += ladder('s%d' % i, [o % (20 + i) if '%d' in o else o for o in ops])
    src += obs
    n = len(ops)
    return {'name': name, 'src': '\n'.join(src) + '\n', 'assume': lambda v: [c for i in range(nsteps) for c in (v['h%d' % i] >= 0, v['h%d' % i] < n)]}

def templates(tier, seed=0):
    ts = []
    steps = 2 if tier == 'quick' else 3
    lobs = ['print(a)', 'print(b)', 'print(c)', 'print(a === b)', 'print(c[0] === a)', 'print(c[0] === b)', 'print(a == b)']
    for k, setup in LIST_SETUPS.items():
        ts.append(mk('list-' + k, setup, LIST_OPS, steps if k in ('alias', 'arg-return', 'concat-fresh') or tier == 'thorough' else 1, lobs))
    oobs = ['print(a)', 'print(b)', 'print(c)', 'print(l0)', 'print(a === b)', 'print(c["in"] === a)', 'print(a == b)', 'print(l0 === a.lst)']
    for k, setup in OBJ_SETUPS.items():
        ts.append(mk('obj-' + k, setup, OBJ_OPS, steps if k == 'alias' or tier == 'thorough' else 1, oobs))
    # the [key, value] pair of every iteration is a fresh list
    ts.append({'name': 'for-pair-fresh', 'src': 'kept := []\nfor p in [@h10@, @h11@, @h12@] {\n    kept += [p]\n}\nprint(kept)\nprint(kept[0] === kept[1])\nkept[0][1] = 99\nprint(kept[2])\nfs := []\nfor q in {"a": @h13@, "b": 2} {\n    fs += [fn () {\n        return q\n    }]\n}\nprint(fs[0]())\nprint(fs[1]())\nlast := null\nfor r in "xyz" {\n    if r[0] == 1 {\n        last = r\n    }\n}\nprint(last)\n'})
    # items are evaluated (and spreads copied) left to right: a later sibling that mutates the spread operand comes too late
    ts.append({'name': 'spread-then-mutate', 'src': 'xs := [@h10@, 2]\nfn bump() {\n    xs[0] = @h11@\n    return 7\n}\nys := [xs.., bump()]\nprint(ys)\nprint(xs)\nzs := [1]\nfn bump2() {\n    zs[0] = 100\n    return 0\n}\nfn show(a, b) {\n    return a\n}\nprint(show(zs.., bump2()))\no := {"k": 1}\nfn bump3() {\n    o.k = 5\n    return 0\n}\nprint({o.., "z": bump3()})\nprint([bump(), xs..])\n'})
    ts.append({'name': 'concat-empty-fresh', 'src': 'xs := [@h10@, 2, 3]\nys := xs + []\nys[0] = 9\nprint(xs)\nzs := [] + xs\nprint(zs === xs)\nacc := []\nacc = acc + xs\nacc[1:3] = "ab"\nprint(xs)\nes := []\nfs := es + []\nprint(fs === es)\nt := "" + "s"\nprint(t)\n'})
    # a container stored into one of its own slots (directly, through an alias, nested) is stored as itself, not as a copy
    selfops = ['xs[0] = xs', 'ys[0] = xs', 'xs[1] = ys', 'xs += [xs]', 'xs[0] = [xs]\nprint(xs[0][0] === ys)', 'xs[0:1] = [xs]', '[xs[0], xs[1]] = [ys, xs]', 'fn put(l, v) {\n    l[1] = v\n}\nput(xs, ys)']
    obs = ['print(xs === ys)', 'for [i, v] in xs {', '    if v->type() == "list" {', '        print(v === xs)', '        print(v === ys)', '    } else {', '        print(v)', '    }', '}', 'ys[1] = @h12@', 'for [i, v] in xs {', '    if v->type() == "int" {', '        print(v)', '    }', '}']
    ts.append({'name': 'store-self-list', 'src': '\n'.join(['s := @h0@', 'xs := [@h10@, @h11@]', 'ys := xs'] + ladder('s', selfops) + obs) + '\n', 'assume': lambda v: [v['h0'] >= 0, v['h0'] <= len(selfops)]})
    oselfops = ['o.k = o', 'p.k = o', 'o["me"] = p', 'o.k = {"in": o}\nprint(o.k.in === p)', '{"k": o.k} = {"k": p}', 'o.k = [o]\nprint(o.k[0] === p)']
    oobs = ['print(o === p)', 'for [k, v] in o {', '    if v->type() == "object" {', '        print(k)', '        print(v === o)', '        print(v === p)', '    }', '}', 'p.j = @h12@', 'print(o.j)']
    ts.append({'name': 'store-self-object', 'src': '\n'.join(['s := @h0@', 'o := {"k": @h10@, "j": @h11@}', 'p := o'] + ladder('s', oselfops) + oobs) + '\n', 'assume': lambda v: [v['h0'] >= 0, v['h0'] <= len(oselfops)]})
    # a slice is a new list that shares its elements with the original
    ts.append({'name': 'slice-shares-elements', 'src': 'e := [@h10@]\no := {"k": 1}\nxs := [e, o, 3]\ns := xs[0:2]\nprint(s === xs)\nprint(s[0] === e)\nprint(s[1] === o)\ns[0][0] = @h11@\nprint(e)\nt := xs[:]\nt[1].k = @h12@\nprint(o)\nu := xs[1:]\nu[0] = 0\nprint(xs[1] === o)\nfor [i, v] in xs[:2] {\n    print(v === xs[i])\n}\n'})
    # assigning a container that is equal to, but distinct from, the current one replaces it
    ts.append({'name': 'assign-equal-distinct', 'src': 'a := [@h10@, 2]\nb := a\nb = [a[0], a[1]]\nprint(b === a)\nb[0] = @h11@\nprint(a)\no := {"k": [1]}\np := o\np = {"k": o.k}\nprint(p === o)\np.k = 5\nprint(o)\nxs := []\nys := xs\nxs += []\nprint(xs === ys)\n[m, n] := [a, a]\n[m, n] = [[@h10@, 2], n]\nprint(m === a)\n'})
    # immutable kinds: no operation on a copy is visible through the original
    ts.append({'name': 'immutable', 'src': 'n := @h10@\nm := n\nm += 1\nprint(n)\ns := "ab"\nt := s\nt += "c"\nprint(s)\nprint(t)\nxs := [n, s, true, null]\nys := xs + []\nys[0] = 0\nys[1] = "zz"\nprint(xs)\nfn f(p, q) {\n    p += 1\n    q += "x"\n    return p\n}\nf(n, s)\nprint(n)\nprint(s)\no := {"k": s}\nu := o.k\nu += "!"\nprint(o)\n'})
    # a closure and its definer share the captured container
    ts.append({'name': 'closure-shares', 'src': 'fn mk() {\n    box := [@h10@]\n    return [box, fn (v) {\n        box[0] = v\n        return box\n    }]\n}\n[bx, set] := mk()\nr := set(@h11@)\nprint(bx)\nprint(r === bx)\nbx[0] = @h12@\nprint(set(@h13@) === bx)\nprint(bx)\n'})
    return ts

def role(v):
    what = v.get('what', '')
    return 'heap:%s:%s:%s' % (v.get('template', ''), v['aspect'], v['ref'])
