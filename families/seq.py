# C11 (riders C02, C05, C15, C17): indexing, slicing, concatenation on lists and byte-indexed strings.  Indices and bounds are
# unconstrained 64-bit solver variables; list elements are solver variables too; lengths are concrete and enumerated.
STRS = {0: '', 1: 'a', 2: 'ab', 3: 'abc', 4: 'abcd', 5: 'abcde'}
MB = ['éa', 'aé', '€x', 'x\U0001F600']       # multi-byte text: 2-, 3- and 4-byte characters

def lst(n, base=10): return '[' + ', '.join('@h%d@' % (base + i) for i in range(n)) + ']'
def clist(n, start=70): return '[' + ', '.join(str(start + i) for i in range(n)) + ']'

def templates(tier, seed=0):
    N = 3 if tier == 'quick' else 5
    ts = []
    for n in range(N + 1):
        L = lst(n)
        ts.append({'name': 'list-index-%d' % n, 'src': 'xs := %s\nprint(xs[@h0@])\n' % L})
        ts.append({'name': 'list-slice-%d' % n, 'src': 'xs := %s\nprint(xs[@h0@:@h1@])\n' % L})
        ts.append({'name': 'list-slice-open-%d' % n, 'src': 'xs := %s\nif @b0@ {\n    print(xs[:@h0@])\n} else {\n    print(xs[@h0@:])\n}\nprint(xs[:])\n' % L})
        ts.append({'name': 'list-index-assign-%d' % n, 'src': 'xs := %s\nxs[@h0@] = 99\nprint(xs)\n' % L})
        ts.append({'name': 'list-index-opassign-%d' % n, 'src': 'xs := %s\nif @b0@ {\n    xs[@h0@] += 1\n} else {\n    xs[@h0@] -= @h1@\n}\nprint(xs)\n' % clist(n)})
        ts.append({'name': 'list-split-law-%d' % n, 'src': 'xs := %s\nk := @h0@\nprint((xs[:k] + xs[k:]) == xs)\n' % clist(n)})
        S = STRS[n]
        ts.append({'name': 'str-index-%d' % n, 'src': 's := "%s"\nprint(s[@h0@])\n' % S})
        ts.append({'name': 'str-slice-%d' % n, 'src': 's := "%s"\nprint(s[@h0@:@h1@])\n' % S})
        ts.append({'name': 'str-slice-open-%d' % n, 'src': 's := "%s"\nif @b0@ {\n    print(s[:@h0@])\n} else {\n    print(s[@h0@:])\n}\nprint(s[:])\n' % S})
        ts.append({'name': 'str-split-law-%d' % n, 'src': 's := "%s"\nk := @h0@\nprint((s[:k] + s[k:]) == s)\nprint(s[:k]->len() + s[k:]->len())\n' % S})
        for m in range(0, min(n, 3) + 2):
            ts.append({'name': 'list-range-assign-%d-%d' % (n, m), 'src': 'xs := %s\nxs[@h0@:@h1@] = %s\nprint(xs)\n' % (L, clist(m))})
            if tier == 'thorough' or m <= 2:
                ts.append({'name': 'list-range-assign-open-%d-%d' % (n, m),
                           'src': 'xs := %s\nif @b0@ {\n    xs[:@h0@] = %s\n} else {\n    xs[@h0@:] = %s\n}\nprint(xs)\n' % (L, clist(m), clist(m))})
        ts.append({'name': 'list-range-assign-str-%d' % n, 'src': 'xs := %s\nxs[@h0@:@h1@] = "pq"\nprint(xs)\n' % L})
        ts.append({'name': 'list-range-assign-all-%d' % n, 'src': 'xs := %s\nxs[:] = %s\nprint(xs)\n' % (L, clist(n))})
    for n in range(0, N):
        for m in range(0, 3):
            ts.append({'name': 'concat-index-%d-%d' % (n, m), 'src': 'xs := %s\nys := %s\nzs := xs + ys\nprint(zs[@h0@])\nprint(zs == %s)\n' % (clist(n, 10), clist(m, 20), clist(n, 10)[:-1] + (', ' if n and m else '') + clist(m, 20)[1:])})
    # the right-hand side of a range assignment is the list itself, an alias of it, or a slice of it: same rules (length must match)
    for n in (2, 3):
        L = '[' + ', '.join(str(10 * (k + 1)) for k in range(n)) + ']'
        ts.append({'name': 'list-range-assign-self-%d' % n, 'src': 'xs := %s\nys := xs\nif @b0@ {\n    xs[@h0@:@h1@] = xs\n} else if @b1@ {\n    xs[@h0@:@h1@] = ys\n} else if @b2@ {\n    xs[@h0@:] = xs\n} else {\n    xs[:@h1@] = ys[1:]\n}\nprint(xs)\nprint(ys)\n' % L})
    ts.append({'name': 'concat-empty-frame', 'src': 'xs := [1, 2, 3]\nys := xs + []\nys[@h0@] = 9\nprint(xs)\nprint(ys)\nzs := [] + xs\nzs[0:1] = [7]\nprint(xs)\n'})
    ts.append({'name': 'str-concat-index', 'src': 's := "ab" + "cde"\nprint(s[@h0@])\nprint(s[@h0@:])\n'})
    # strings with multi-byte characters: byte-indexed; observations avoid printing partial characters
    for i, s in enumerate(MB):
        ts.append({'name': 'mb-split-law-%d' % i, 'src': 's := "%s"\nk := @h0@\nprint((s[:k] + s[k:]) == s)\nprint(s[:k]->len())\nprint(s->len())\n' % s})
        ts.append({'name': 'mb-index-eq-%d' % i, 'src': 's := "%s"\nprint(s[@h0@] == s[@h1@])\nprint((s[@h0@:@h1@] + s[@h1@:]) == s[@h0@:])\n' % s})
        ts.append({'name': 'mb-for-%d' % i, 'src': 's := "%s"\nn := 0\nfor [i, c] in s {\n    n += 1\n    print(c == s[i])\n}\nprint(n)\n' % s})
    # byte pieces of different characters: equal exactly when their bytes are; pieces used as slot values / keys / accumulated
    ts.append({'name': 'mb-byte-pieces', 'src': 's := "\u00e9\u00e8\u20ac"\nprint(s[1] == s[3])\nprint(s[0] == s[2])\nprint(s[1:2] != s[3:4])\nprint([s[1]] == [s[3]])\nprint({"k": s[4:6]} == {"k": s[4:5] + s[5:6]})\nacc := ""\nfor [i, c] in s {\n    acc += c\n}\nprint(acc == s)\nprint(acc->len())\nk := @h2@\nu := s[:k]\nif @b0@ {\n    print($"<${u}>" == "<" + u + ">")\n}\nif @b1@ {\n    o := {}\n    o[u] = 1\n    print(o[u])\n}\nprint(1)\n'})
    # range assignment from a string with multi-byte characters: one element per byte
    for i, s in enumerate(MB):
        ts.append({'name': 'mb-range-assign-%d' % i, 'src': 's := "%s"\nxs := [1, 2, 3, 4, 5, 6]\nxs[@h0@:@h1@] = s\nn := 0\nfor [j, v] in xs {\n    n += 1\n}\nprint(n)\na := @h0@\nfor [j, c] in s {\n    print(xs[a + j] == c)\n}\nprint(xs[0])\n' % s})
    # the write frame: only position i changes
    ts.append({'name': 'frame-index-assign', 'src': 'xs := [@h10@, @h11@, @h12@]\nys := xs[:]\ni := @h0@\nxs[i] = @h13@\nfor [j, v] in xs {\n    print(v)\n}\nprint(ys)\n'})
    return ts

def role(v):
    t = v.get('template', '')
    if t.startswith('list-range-assign-open') and not v.get('wit', {}).get('b0', True): return 'range-assign-omitted-end-defaults-to-rhs-length'
    return 'seq:%s:%s:%s' % (t, v['aspect'], v['ref'])
