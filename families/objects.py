# C12 (riders C02, C05, C19): objects as string-keyed maps with deterministic key order.  Histories of insert / overwrite /
# op-assign / read through `.k` and `["k"]`; operation and key of every step are chosen by symbolic selectors.
import itertools
KEYS = ['a', 'B', 'A', '', ' x', '_', 'b']

def ladder(sel, options, indent=''):
    out = []
    for i, code in enumerate(options):
        out.append(indent + ('if' if i == 0 else '} else if') + ' %s == %d {' % (sel, i))
        out += [indent + '    ' + l for l in code.split('\n')]
    out.append(indent + '}')
    return out

def step(i, nkeys):
    kk = 'k%d' % i; v = '@h%d@' % (20 + i)
    lines = ['%s := "%s"' % (kk, KEYS[0])]
    for j, k in enumerate(KEYS[1:nkeys], 1):
        lines.append(('if' if j == 1 else '} else if') + ' sk%d == %d {' % (i, j)); lines.append('    %s = "%s"' % (kk, k))
    lines.append('}')
    ops = ['o[%s] = %s' % (kk, v), 'o[%s] += %s' % (kk, v), 'print(o[%s])' % kk, 'o.a = %s' % v, 'o.b += %s' % v, 'print(o.A)', 'o._ = %s' % v]
    lines += ladder('so%d' % i, ops)
    return lines

def history(nsteps, nkeys):
    src = []
    for i in range(nsteps): src += ['so%d := @h%d@' % (i, i), 'sk%d := @h%d@' % (i, 10 + i)]
    src += ['o := {"a": @h30@, "A": @h31@}']
    for i in range(nsteps): src += step(i, nkeys)
    src += ['print(o)', 'for [k, v] in o {', '    print(k)', '    print(v)', '}', 'p := {}', 'for [k, v] in o {', '    p[k] = v', '}', 'print(p == o)', 'print(p === o)']
    def assume(v):
        cs = []
        for i in range(nsteps): cs += [v['h%d' % i] >= 0, v['h%d' % i] <= 6, v['h%d' % (10 + i)] >= 0, v['h%d' % (10 + i)] < nkeys]
        return cs
    return {'name': 'history-%d' % nsteps, 'src': '\n'.join(src) + '\n', 'assume': assume}

def templates(tier, seed=0):
    ts = []
    ts.append(history(1, 6))
    ts.append(history(2, 4 if tier == 'quick' else 6))
    if tier == 'thorough': ts.append(history(3, 3))
    # literal: source order, later entry wins, shorthand, spread, computed names
    ts.append({'name': 'literal-order', 'src': 'fn t(x) {\n    print(x)\n    return x\n}\na := 5\nsrc := {"c": 7, "a": 8}\nn := "b"\no := {"b": t(1), "a": t(2), n: t(3), a, src.., "c": t(4), n + "x": t(6)}\nprint(o)\nfn tk(s) {\n    print("name")\n    return s\n}\nks := ["k0", "k1", "k2"]\nix := 0\nfn bump() {\n    ix += 1\n    return ix\n}\nprint({tk("p"): t(8), ks[ix]: bump(), ks[ix]: bump()})\nc := 9\nprint({"c": 1, c})\nprint({src.., c})\nprint({src.., c, "c": t(7)})\nprint({c, src..})\n'})
    # all insertion orders give indistinguishable objects
    perms = list(itertools.permutations(['o.b = @h11@', 'o["a"] = @h10@', 'o[" x"] = @h12@']))
    ts.append({'name': 'insertion-orders', 'src': '\n'.join(['s := @h0@', 'o := {}'] + ladder('s', ['\n'.join(p) for p in perms]) +
                                                              ['q := {"a": @h10@, "b": @h11@, " x": @h12@}', 'print(o == q)', 'print(o)', 'for [k, v] in o {', '    print(k)', '}']) + '\n',
               'assume': lambda v: [v['h0'] >= 0, v['h0'] < len(perms)]})
    # `.k` and `["k"]` denote the same property
    ts.append({'name': 'dot-vs-bracket', 'src': 'o := {"k": @h10@}\nif @b0@ {\n    o.k = @h11@\n} else {\n    o["k"] = @h11@\n}\nif @b1@ {\n    o.k += 1\n} else {\n    o["k"] += 1\n}\nprint(o.k)\nprint(o["k"])\nif @b2@ {\n    print(o.j)\n} else {\n    print(o["j"])\n}\n'})
    # new key added exactly when absent; other properties unchanged
    ts.append({'name': 'frame', 'src': 'o := {"a": @h10@, "b": @h11@}\nk := "a"\nif @b0@ {\n    k = "c"\n}\no[k] = @h12@\nprint(o)\n'})
    # a lone spread copies; the copy is independent
    ts.append({'name': 'spread-copy', 'src': 'base := {"a": @h10@, "b": @h11@}\ncopy := {base..}\nprint(copy === base)\ncopy["c"] = @h12@\ncopy.a += 10\nprint(base)\nprint(copy)\nc2 := {base.., "a": 0}\nc2.b = 1\nprint(base)\nempty := {}\ne2 := {empty..}\ne2.x = 1\nprint(empty)\nprint(e2 === empty)\n'})
    # key and value expressions that read the object being written
    ts.append({'name': 'self-key', 'src': 'o := {"cur": "a", "a": @h10@, "b": 2}\nif @b0@ {\n    o[o.cur] = @h11@\n} else {\n    o[o["cur"]] += 1\n}\no[o.cur + "2"] = o.a\nfn key() {\n    return o.cur\n}\no[key()] += 1\no.b = o.a + o["b"]\no[o.cur] = o\nprint(o.b)\nprint(o.a2)\nprint(o.a === o)\n'})
    # a property whose value is null is present
    ts.append({'name': 'null-valued', 'src': 'o := {"gap": null, "B": 1, "a": 2, "C": 3, "b": 4}\nprint(o.gap)\nprint(o["gap"])\nk := "gap"\nprint(o[k])\no["n2"] = null\nprint(o["n2"])\nprint(o.n2)\nfor [k2, v2] in o {\n    print(k2)\n}\nprint(o)\n{gap, "n2": z} := o\nprint(gap)\nprint(z)\nprint(o == {"gap": null, "B": 1, "a": 2, "C": 3, "b": 4, "n2": null})\nif @b0@ {\n    print(o["missing"])\n}\n'})
    # every syntactic form of a key expression denotes its value, in reads, writes, op-assigns, literals and patterns
    ts.append({'name': 'key-expression-forms', 'src': 's := "1"\nfn kf() {\n    return "k" + s\n}\nks := ["k1"]\no := {"k1": @h10@, "k2": @h11@}\nr := @h0@\nif r == 0 {\n    print(o["k1"])\n    o["k1"] += 1\n    o["k1"] = o["k1"] + 1\n    q := {"k1": 5, "z": 0}\n    print(q)\n    {"k1": x} := o\n    print(x)\n    {"k1": o["k2"]} = q\n    print(o)\n} else if r == 1 {\n    print(o["k" + s])\n    o["k" + s] += 1\n    o["k" + s] = o["k" + s] + 1\n    q := {"k" + s: 5, "z": 0}\n    print(q)\n    {"k" + s: x} := o\n    print(x)\n    {"k" + s: o["k2"]} = q\n    print(o)\n} else if r == 2 {\n    print(o[$"k${s}"])\n    o[$"k${s}"] += 1\n    o[$"k${s}"] = o[$"k${s}"] + 1\n    q := {$"k${s}": 5, "z": 0}\n    print(q)\n    {$"k${s}": x} := o\n    print(x)\n    {$"k${s}": o["k2"]} = q\n    print(o)\n} else if r == 3 {\n    print(o[kf()])\n    o[kf()] += 1\n    o[kf()] = o[kf()] + 1\n    q := {kf(): 5, "z": 0}\n    print(q)\n    {kf(): x} := o\n    print(x)\n    {kf(): o["k2"]} = q\n    print(o)\n} else if r == 4 {\n    print(o[ks[0]])\n    o[ks[0]] += 1\n    o[ks[0]] = o[ks[0]] + 1\n    q := {ks[0]: 5, "z": 0}\n    print(q)\n    {ks[0]: x} := o\n    print(x)\n    {ks[0]: o["k2"]} = q\n    print(o)\n} else if r == 5 {\n    print(o[("k1")])\n    o[("k1")] += 1\n    o[("k1")] = o[("k1")] + 1\n    q := {("k1"): 5, "z": 0}\n    print(q)\n    {("k1"): x} := o\n    print(x)\n    {("k1"): o["k2"]} = q\n    print(o)\n} else if r == 6 {\n    print(o[$"${"k"}${s}"])\n    o[$"${"k"}${s}"] += 1\n    o[$"${"k"}${s}"] = o[$"${"k"}${s}"] + 1\n    q := {$"${"k"}${s}": 5, "z": 0}\n    print(q)\n    {$"${"k"}${s}": x} := o\n    print(x)\n    {$"${"k"}${s}": o["k2"]} = q\n    print(o)\n} else if r == 7 {\n    print(o[$"k1"])\n    o[$"k1"] += 1\n    o[$"k1"] = o[$"k1"] + 1\n    q := {$"k1": 5, "z": 0}\n    print(q)\n    {$"k1": x} := o\n    print(x)\n    {$"k1": o["k2"]} = q\n    print(o)\n}\nprint(o.k1)\n', 'assume': lambda v: [v['h0'] >= 0, v['h0'] < 8, v['h10'] >= -1000, v['h10'] <= 1000]})
    # keys with spaces, punctuation, quotes, backslashes, control and non-ASCII characters: printed raw, ordered by their bytes
    ts.append({'name': 'special-keys', 'src': 'o := {"a": 1, "a b": 2, "a!": 3, "": 4, " ": 5, "a\\"q": 6, "a\\\\b": 7, "a\\x09b": 8, "\u00e9": 9, "a\\x7f": 10, "a\\x0dz": 11, "Z": @h10@, "a#": 12}\nprint(o)\nfor [k, v] in o {\n    print(k)\n    print(v)\n}\nprint({"k": {"k 2": 1, "k": 2, "k!": {"": 0, " ": 1}}})\n'})
    # computed names must be strings
    ts.append({'name': 'computed-name', 'src': 'n := "x"\nif @b0@ {\n    n = 1\n}\nprint({n: 2})\n'})
    return ts

def role(v):
    return 'objects:%s:%s:%s' % (v.get('template', ''), v['aspect'], v['ref'])
