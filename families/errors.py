# C17 (riders C02, C18, C20): a failure is one well-formed located diagnostic after the output so far.
# `KINDS` are failing constructs (one per leaf error kind reachable from Seed source); a selector picks the kind, a second selector
# the syntactic position from which the failing function is reached (condition, return expression, argument, index, iterable, ...),
# a third the call depth.
def ladder(sel, options, indent=''):
    out = []
    for i, code in enumerate(options):
        out.append(indent + ('if' if i == 0 else '} else if') + ' %s == %d {' % (sel, i))
        out += [indent + '    ' + l for l in code.split('\n')]
    out.append(indent + '}')
    return out

KINDS = [
    'print(1 + "")', 'print(9223372036854775807 + 1)', 'print(nope)', 'print([1][5])', 'print([1][0 - 1])', 'print({"a": 1}.b)', 'print(null.x)', 'print(5())',
    'print(two(1))', 'print([1, 2][0:9])', 'print("s"[9])', 'print(1 / 0)', 'print(null->type())', 'print("s"->nope())', 'print([..lst])', 'print({..obj})',
    'lst := 1\nlst := 2', 'nope = 1', '[p, q] := [1]', '{zz} := {}', 'for q in 1 {\n    print(q)\n}', '1 = 2', 'if 1 {\n    print(1)\n}', 'print([1, nope..])',
    'print(print(1, 2))', 'print($"a${1}")', 'print($"a${nope}b")', 'print([1] == [""])', 'print(1 === 1)', 'nope += 1', 'lst[7] = 1', 'obj.zz += 1', 'lst[0:1] = [1, 2]',
    'print(1 .. "")', 'print({1: 2})', 'print({lst..})', 'print([obj..])', '[p, p] := [1, 2]', 'fn dup(a, a) {\n    return 1\n}', 'print(rest1())', 'while null {\n    print(1)\n}',
    'print("s"->len(1))', 'print(lst[""])', 'print(obj[1])', 'obj->type = 1', 'lst[0:1] += [1]', '[p] += [1]', '{"a": p} := 5', '[p] := 5', 'print(1 % 0)', 'print(lst == obj)',
    'print(1 < "")', 'print(true && 1)', 'print($"${"}")', 'x := [1 + ""]', 'x := {"k": nope}', 'print(two(nope, 1))', 'print(obj.f(1 + ""))', '_ = nope', 'print(-9223372036854775807 - 2)', 'print(3037000500 * 3037000500)',
    'fn brk() {\n    break\n}\nbrk()', 'fn cnt() {\n    if true {\n        continue\n    }\n}\nwhile true {\n    cnt()\n}', 'break', 'continue', 'return 1',
    'for [i, v] in [1] {\n    (fn () {\n        break\n    })()\n}',
    'fn area([w, h]) {\n    return w * h\n}\nprint(area([1, 2, 3]))', 'fn show({name}) {\n    return name\n}\nprint(show({}))', 'fn pair(a, [b, ..r]) {\n    return a\n}\nprint(pair(1, 2))',
    'fn wrap(v) {\n    return area2(v)\n}\nfn area2([w, h]) {\n    return w\n}\nprint(wrap([1]))', 'n2 := 1\nn2 += nope', 'lst[0] += nope', 'obj.a -= two(1)', 'n3 := 1\nn3 *= [1][3]',
    'fn down(n) {\n    if n == 0 {\n        return 1 + ""\n    }\n    return down(n - 1)\n}\nprint(down(3))', 'fn ping(n) {\n    if n == 0 {\n        return nope\n    }\n    return pong(n - 1)\n}\nfn pong(n) {\n    return ping(n)\n}\nprint(ping(2))',
    'print(1)\nprint([1, "two", "\xc3\xa9"[0], 4])', 'print(2)\nprint({"a": [1], "b": "\xc3\xa9"[1]})',
    'print($"a${1 +}b")', 'print($"${)}")', 'print($"${1 ` 2}")',
    'print($"a${}b")', 'print($"a${ }b")', 'print($"x${1 +\n}y")', 'print($"x${two(1,\n2)\n}y")', 'print($"${# c\n}")',
    'for [i, v] in nope {\n    print(v)\n}', 'for e in obj.zz {\n    print(e)\n}', 'for e in two(1) {\n    print(e)\n}', 'for e in lst[7] {\n    print(e)\n}', 'while nope {\n    print(1)\n}', 'if lst[9] {\n    print(1)\n}',
]
HEAD = ['lst := [1, 2]', 'obj := {"a": 1, "f": fn (v) {', '    return v', '}}', 'fn two(a, b) {', '    return a', '}', 'fn rest1(a, ..r) {', '    return a', '}']

def templates(tier, seed=0):
    ts = []
    n = len(KINDS)
    ts.append({'name': 'kinds-top', 'src': '\n'.join(['k := @h0@'] + HEAD + ['print(100)'] + ladder('k', KINDS) + ['print(101)']) + '\n', 'assume': lambda v: [v['h0'] >= 0, v['h0'] <= n]})
    fail = ['fn fail(k) {', '    print(200)'] + ladder('k', KINDS, '    ') + ['    return 0', '}']
    ts.append({'name': 'kinds-in-fn', 'src': '\n'.join(HEAD + fail + ['print(100)', 'print(fail(@h0@))', 'print(101)']) + '\n', 'assume': lambda v: [v['h0'] >= 0, v['h0'] <= n]})
    ts.append({'name': 'kinds-in-method', 'src': '\n'.join(HEAD + fail + ['o2 := {"m": fn (k) {', '    return fail(k)', '}}', 'print(o2.m(@h0@))', 'print(101)']) + '\n', 'assume': lambda v: [v['h0'] >= 0, v['h0'] <= n]})
    # positions: the failing call `d(k)` sits in every syntactic position; `d` is a chain of `depth` user functions down to `fail`
    rep = [0, 2, 1, 3, 16, 20, 8]     # representative kinds: op-types, undefined, overflow, index, redeclare, for-iterable, arity
    fail2 = ['fn fail(k) {'] + ladder('k', [KINDS[i] for i in rep], '    ') + ['    return 0', '}']
    chain = ['fn d1(k) {', '    return fail(k)', '}', 'fn d2(k) {', '    x := d1(k)', '    return x', '}', 'd3 := fn (k) {', '    if d2(k) == 0 {', '        return 0', '    }', '    return 1', '}',
             'fn d4(k) {', '    for [i, v] in [d3(k)] {', '        return v', '    }', '}', 'o5 := {"d5": fn (k) {', '    return [d4(k)][0]', '}}']
    dsel = ['fail', 'd1', 'd2', 'd3', 'd4', 'o5.d5']
    positions = [
        'print(D(k))', 'if D(k) == 0 {\n    print(1)\n}', 'while D(k) == 1 {\n    print(1)\n}', 'fn w() {\n    return D(k)\n}\nprint(w())', 'print(two(0, D(k)))', 'print(lst[D(k)])',
        'for [i, v] in [D(k)] {\n    print(v)\n}', '{\n    {\n        y := D(k)\n    }\n}', 'i := 0\nwhile i < 1 {\n    i += 1\n    D(k)\n}', 'y := 0\ny = D(k)', 'y := 1\ny += D(k)',
        'print({"v": D(k)})', 'print([0, D(k)])', 'print(lst[D(k):])', 'print(1 + D(k))', 'print(D(k) .. 1)', 'print([D(k)]..)', 'lst[D(k)] = 1', 'obj.a = D(k)', 'obj[$"a"] = D(k)',
        '[y, z] := [D(k), 1]', 'print($"${obj.f($"a")}${D(k)}")', 'if true {\n    print(0)\n} else if D(k) == 0 {\n    print(1)\n}', 'if false {\n    print(0)\n} else {\n    D(k)\n}',
        'fn w2() {\n    return $"a${D(k)}"\n}\nprint(w2())', 'o7 := {"m": fn () {\n    s7 := $"${"x"}${D(k)}b"\n    return s7\n}}\nprint(o7.m())',
        'print(obj.f(D(k)))', 'print((fn () {\n    return D(k)\n})())', 'fn ww(a, ..r) {\n    return r\n}\nprint(ww(1, [D(k)]..))', 'print(D(k)->type())', 'print({"a": 1}[D(k)])',
    ]
    for di, d in enumerate(dsel):
        if tier == 'quick' and di not in (0, 2, 5): continue
        src = ['k := @h0@', 'p := @h1@'] + HEAD + fail2 + chain + ['print(100)'] + ladder('p', [p.replace('D(k)', d + '(k)') for p in positions]) + ['print(101)']
        ts.append({'name': 'positions-depth%d' % di, 'src': '\n'.join(src) + '\n', 'assume': lambda v: [v['h0'] >= 0, v['h0'] <= len(rep), v['h1'] >= 0, v['h1'] <= len(positions)]})
    # a successful script writes nothing to stderr; output so far is kept on failure
    ts.append({'name': 'output-so-far', 'src': 'print(1)\nprint([2])\nif @b0@ {\n    print(nope)\n}\nprint(3)\nfn f() {\n    print(4)\n    if @b1@ {\n        return 1 + ""\n    }\n    return 5\n}\nprint(f())\n'})
    return ts

def role(v):
    t = v.get('template', ''); what = v.get('what', ''); asp = v['aspect']
    if asp == 'format' and 'EvalReturnExprFailed' in what: return 'return-expression-error-shows-internal-wrapper-names'
    if asp == 'format' and v.get('ref') == 'error:slot-parse' and 'internal identifier' in what: return 'interpolation-slot-parse-error-shows-debug-structure'
    return 'errors:%s:%s:%s' % (t, asp, v['ref'])
