# C16 (riders C02, C10, C17): no implicit conversions.  The operand kinds are chosen by two selectors (symbolic integers compared
# in a ladder written in Seed), so one symbolic run per operator covers the 8 x 8 matrix; int and bool leaves are symbolic.
KINDS = ['null', 'bool', 'int', 'string', 'list', 'object', 'func', 'builtin']
EXPRS = {'null': 'null', 'bool': '@b%d@', 'int': '@h%d@', 'string': '"s"', 'list': '[1]', 'object': '{"k": 1}', 'func': 'uf', 'builtin': 'print'}
BINOPS = ['+', '-', '*', '/', '%', '&&', '||', '==', '!=', '<', '<=', '>', '>=', '===', '!==']
OPASSIGN = ['+', '-', '*', '/', '%']
NAMES = {'+': 'add', '-': 'sub', '*': 'mul', '/': 'div', '%': 'mod', '&&': 'and', '||': 'or', '==': 'eq', '!=': 'ne', '<': 'lt', '<=': 'le', '>': 'gt', '>=': 'ge', '===': 'refeq', '!==': 'refne'}

def chooser(var, sel, hole_base):
    """lines that set `var` to a value of the kind selected by `sel` (0..7)"""
    out = ['%s := null' % var]
    for i, k in enumerate(KINDS):
        if i == 0: continue
        e = EXPRS[k]
        if '%d' in e: e = e % (hole_base + i)
        out.append(('if' if i == 1 else '} else if') + ' %s == %d {' % (sel, i))
        out.append('    %s = %s' % (var, e))
    out.append('}')
    return out

HEAD = ['fn uf() {', '    return 1', '}', 'sl := @h0@', 'sr := @h1@']
def sel_assume(*names):
    def f(v): return [c for n in names for c in (v[n] >= 0, v[n] <= 7)]
    return f

EMPTY = {'null': 'null', 'bool': 'false', 'int': '0', 'string': '""', 'list': '[]', 'object': '{}', 'func': 'uf', 'builtin': 'print'}
def chooser_empty(var, sel):
    out = ['%s := null' % var]
    for i, k in enumerate(KINDS):
        if i == 0: continue
        out.append(('if' if i == 1 else '} else if') + ' %s == %d {' % (sel, i)); out.append('    %s = %s' % (var, EMPTY[k]))
    out.append('}')
    return out

def templates(tier, seed=0):
    ts = []
    for op in BINOPS:
        src = HEAD + chooser_empty('a', 'sl') + chooser_empty('b', 'sr') + ['print(a %s b)' % op]
        ts.append({'name': 'bin-empty-' + NAMES[op], 'src': '\n'.join(src) + '\n', 'assume': sel_assume('h0', 'h1')})
    for op in OPASSIGN:
        src = HEAD + chooser_empty('a', 'sl') + chooser_empty('b', 'sr') + ['a %s= b' % op, 'print(a)']
        ts.append({'name': 'opassign-empty-' + NAMES[op], 'src': '\n'.join(src) + '\n', 'assume': sel_assume('h0', 'h1')})
    for op in BINOPS:
        src = HEAD + chooser('a', 'sl', 10) + chooser('b', 'sr', 20) + ['print(a %s b)' % op]
        ts.append({'name': 'bin-' + NAMES[op], 'src': '\n'.join(src) + '\n', 'assume': sel_assume('h0', 'h1')})
    for op in OPASSIGN:
        src = HEAD + chooser('a', 'sl', 10) + chooser('b', 'sr', 20) + ['a %s= b' % op, 'print(a)']
        ts.append({'name': 'opassign-' + NAMES[op], 'src': '\n'.join(src) + '\n', 'assume': sel_assume('h0', 'h1')})
        src = HEAD + chooser('a', 'sl', 10) + chooser('b', 'sr', 20) + ['xs := [a]', 'xs[0] %s= b' % op, 'print(xs[0])']
        ts.append({'name': 'opassign-elem-' + NAMES[op], 'src': '\n'.join(src) + '\n', 'assume': sel_assume('h0', 'h1')})
    ctxs = {
        'if-cond': ['if v {', '    print(1)', '}'],
        'while-cond': ['while v {', '    print(1)', '    break', '}'],
        'list-index': ['print([5, 6][v])'],
        'str-index': ['print("ab"[v])'],
        'obj-index': ['print({"s": 1}[v])'],
        'range-lo': ['print([5, 6][v:])'],
        'range-hi': ['print("ab"[:v])'],
        'prop-name': ['print({v: 1})'],
        'slot': ['print($"x${v}y")'],
        'list-spread': ['print([0, v..])'],
        'arg-spread': ['fn one(x) {', '    return x', '}', 'print(one(v..))'],
        'obj-spread': ['print({v.., "z": 0})'],
        'list-destructure': ['[p] := v', 'print(p)'],
        'obj-destructure': ['{k} := v', 'print(k)'],
        'obj-destructure-empty': ['{} := v', 'print(1)'], 'list-destructure-empty': ['[] := v', 'print(1)'], 'obj-param-empty': ['fn e0(p, {}) {', '    return p', '}', 'print(e0(1, v))'],
        'nested-empty-patterns': ['[p, {}, []] := [1, v, v]', 'print(p)'], 'obj-assign-empty': ['{} = v', 'print(1)'], 'for-target-empty': ['for [i, {}] in [v] {', '    print(i)', '}'],
        'for-iter': ['for [i, x] in v {', '    print(x)', '}'],
        'callee': ['print(v())'],
        'range-start': ['print(v .. 1)'],
        'range-end': ['print(0 .. v)'],
        'prop-read': ['print(v.k)'],
        'prop-write': ['v.k = 2', 'print(v.k)'],
        'index-write': ['v[0] = 2', 'print(v[0])'],
        'range-write': ['v[0:1] = [2]', 'print(v)'],
        'range-write-rhs': ['ys := [5, 6]', 'ys[0:1] = v', 'print(ys)'],
        'type-fn': ['print(v->type())'],
        'while-cond-later': ['c := true', 'n := 0', 'while c {', '    n += 1', '    if n == 2 {', '        c = v', '    }', '    if n == 3 {', '        c = false', '    }', '}', 'print(n)'],
        'elif-cond': ['if false {', '    print(0)', '} else if v {', '    print(1)', '}'],
        'slot-second': ['print($"${"a"}${v}")'],
        'len-fn': ['print(v->len())'],
        'index-assign-key': ['o := {"s": 1}', 'o[v] = 2', 'print(o)'],
        'list-index-assign-idx': ['ys := [5, 6]', 'ys[v] = 2', 'print(ys)'],
    }
    for name, body in ctxs.items():
        src = ['fn uf() {', '    return 1', '}', 'sl := @h0@'] + chooser('v', 'sl', 10) + body
        def assume(v, name=name):
            cs = [v['h0'] >= 0, v['h0'] <= 7]
            if name in ('range-end', 'range-start'): cs += [v['h12'] >= -3, v['h12'] <= 3]
            return cs
        ts.append({'name': 'ctx-' + name, 'src': '\n'.join(src) + '\n', 'assume': assume})
    return ts

def role(v):
    return 'types:%s:%s:%s' % (v.get('template', ''), v['aspect'], v['ref'])
