# C14 (riders C02, C04, C17): calls bind arguments to fresh parameters; `this` follows the access path.
def ladder(sel, options):
    out = []
    for i, code in enumerate(options):
        out.append(('if' if i == 0 else '} else if') + ' %s == %d {' % (sel, i))
        out += ['    ' + l for l in code.split('\n')]
    out.append('}')
    return out

THIS_ROUTES = [
    'print(a.f())', 'print(a["f"]())', 'print(b.g())', 'print(b["g"]())',
    'h := a.f\nprint(h())', 'h := b["g"]\nprint(h())', 'xs := [a.f, b.f]\nprint(xs[0]())\nprint(xs[1]())',
    'fn call(fx) {\n    return fx()\n}\nprint(call(b.f))', 'fn get() {\n    return a.f\n}\nprint(get()())', 'print(who())',
    'h := b.g\nc := {"name": "C", "k": h}\nprint(c.k())', 'h := a.f\nh2 := h\nprint(h2())',
    'o := {"name": "O", "inner": {"name": "I", "f": who}}\nprint(o.inner.f())\nprint(o["inner"]["f"]())',
    'o := {"name": "O", "m": fn () {\n    return who()\n}}\nprint(o.m())',
    'o := {"name": "O", "m": fn () {\n    inner := fn () {\n        return this.name\n    }\n    return inner()\n}}\nprint(o.m())',
    'o := {"name": "O", "m": fn () {\n    return a.f()\n}}\nprint(o.m())',
    'h := a.f\na.name = "A2"\nprint(h())',
    'h := a.f\na = {"name": "A3"}\nprint(h())',
    '[h] := [b.f]\nprint(h())', '{f} := a\nprint(f())', 'for [k, fx] in [a.f, b.g] {\n    print(fx())\n}',
    'xs := [a.f]\nys := xs + []\nprint(ys[0]())', 'print((a.f)())', 'a.f2 = b.f\nprint(a.f2())',
    'xs := [a.f]\nxs[0] = b.f\nprint(xs[0]())', 'xs := [a.f]\nxs[0] = who\nprint(xs[0]())', 'c := {"name": "C", "k": a.f}\nc.k = b.f\nh := c.k\nprint(h())', 'xs := [a.f, b.f]\nxs[0:1] = [b.f]\nprint(xs[0]())',
    'xs := [who]\nxs[0] = a.f\nprint(xs[0]())', 'c := {"name": "C", "lst": [a.f]}\nc.lst[0] = who\nprint(c.lst[0]())',
    'h := null\nh = a.f\nprint(h())', 'h := who\nif true {\n    h = b.g\n}\nprint(h())', 'f1 := null\nf2 := null\n[f1, f2] = [b.f, a.f]\nprint(f1())\nprint(f2())', 'h := null\nfor [i, o2] in [a, b] {\n    h = o2.f\n}\nprint(h())',
    'h := a.f\nh = who\nprint(h())', 'q := {"name": "Q", "m": fn () {\n    h := null\n    h = a.f\n    return h()\n}}\nprint(q.m())',
    'o := {"name": "O", "set": fn (v) {\n    this.name = v\n    return this\n}}\nprint(o.set("N") === o)\nprint(o.name)',
]

def templates(tier, seed=0):
    ts = []
    head = ['fn who() {', '    return this.name', '}', 'a := {"name": "A", "f": who}', 'b := {"name": "B", "g": a.f, "f": who}', 'r := @h0@']
    n = len(THIS_ROUTES)
    ts.append({'name': 'this-routes', 'src': '\n'.join(head + ladder('r', THIS_ROUTES) + ['print(a.name)']) + '\n', 'assume': lambda v: [v['h0'] >= 0, v['h0'] <= n]})
    # two-step routes: move the value twice
    moves = ['v2 := v', 'v2 := [v][0]', 'fn idf(q) {\n    return q\n}\nv2 := idf(v)', 'c := {"name": "C", "k": v}\nv2 := c.k', 'c := {"name": "C", "k": v}\nv2 := c["k"]', '[v2, _] := [v, 0]']
    srcs = ['a.f', 'b.g', 'b["f"]', 'who']
    src = head + ['s := @h1@', 't := @h2@', 'v := who'] + ladder('r', ['v = ' + s for s in srcs])
    src += ['v2 := null'] + ladder('s', [m.replace('v2 :=', 'v2 =').replace('[v2, _] :=', '[v2, _] =') for m in moves])
    src += ['v3 := null'] + ladder('t', [m.replace('v2 :=', 'v3 =').replace('[v2, _] :=', '[v3, _] =').replace('(v)', '(v2)').replace('": v}', '": v2}').replace('[v]', '[v2]').replace('[v, 0]', '[v2, 0]').replace('= v', '= v2') for m in moves])
    src += ['print(v3())']
    ts.append({'name': 'this-two-moves', 'src': '\n'.join(src) + '\n', 'assume': lambda v: [v['h0'] >= 0, v['h0'] < len(srcs), v['h1'] >= 0, v['h1'] < len(moves), v['h2'] >= 0, v['h2'] < len(moves)]})
    # arguments: once, left to right; count check; fresh parameters
    ts.append({'name': 'arg-order', 'src': 'fn t(x) {\n    print(x)\n    return x\n}\nfn f(a, b, c) {\n    return a + b + c\n}\nprint(f(t(@h10@), t(@h11@), t(@h12@)))\nxs := [t(1), t(2)]\nfn g(a, ..r) {\n    return r\n}\nprint(g(t(3), xs.., t(4)))\n'})
    for params, nm in [('', 0), ('a', 1), ('a, b', 2), ('a, b, c', 3), ('a, b, c, d', 4), ('..r', 'r0'), ('a, ..r', 'r1'), ('a, b, ..r', 'r2'), ('a, b, c, ..r', 'r3')]:
        names = [p.strip().lstrip('.') for p in params.split(',') if p.strip()]
        body = ['    print(%s)' % x for x in names] or ['    print(0)']
        calls = ['print(f(%s))' % ', '.join(str(10 + j) for j in range(k)) for k in range(6)]
        ts.append({'name': 'arity-%s' % nm, 'src': '\n'.join(['n := @h0@', 'fn f(%s) {' % params] + body + ['    return 1', '}'] + ladder('n', calls) + ['print(9)']) + '\n', 'assume': lambda v: [v['h0'] >= 0, v['h0'] <= 6]})
    flat = ['[' + ', '.join(str(20 + j) for j in range(k)) + ']' for k in range(5)]
    for params, nm in [('..r', 'r0'), ('a, ..r', 'r1'), ('a, b, ..r', 'r2'), ('a, b, c', 3), ('', 0)]:
        names = [p.strip().lstrip('.') for p in params.split(',') if p.strip()]
        body = ['    print(%s)' % x for x in names] or ['    print(0)']
        calls2 = ['print(f(xs..))', 'print(f(xs.., ys..))', 'print(f(1, xs..))', 'print(f(xs.., 2))', 'print(f(none.., none..))', 'print(f(none.., 1, none..))']
        src = ['n := @h0@', 'm := @h1@', 'none := []', 'ys := [7]', 'xs := []'] + ladder('n', ['xs = ' + l for l in flat]) + ['fn f(%s) {' % params] + body + ['    return 1', '}'] + ladder('m', calls2) + ['print(9)']
        ts.append({'name': 'arity-spread-%s' % nm, 'src': '\n'.join(src) + '\n', 'assume': lambda v: [v['h0'] >= 0, v['h0'] < 5, v['h1'] >= 0, v['h1'] < 6]})
    ts.append({'name': 'self-call-in-args', 'src': 'fn add(x, y) {\n    return x + y\n}\nprint(add(add(@h10@, 2), 3))\nprint(add(1, add(2, add(3, 4))))\no := {"n": 0, "bump": fn (k) {\n    this.n += k\n    return this.n\n}}\nprint(o.bump(o.bump(1)))\nfn idf(v) {\n    return v\n}\nprint(idf(idf)(5))\nfn twice(g, v) {\n    return g(g(v))\n}\nprint(twice(idf, twice(idf, 6)))\nfn t(x) {\n    print(x)\n    return x\n}\nfn pick() {\n    print("callee")\n    return add\n}\n'})
    ts.append({'name': 'param-fresh', 'src': 'x := @h10@\nys := [@h11@]\nfn f(x, ys) {\n    x = x + 1\n    ys[0] = x\n    ys = [0]\n    return x\n}\nprint(f(x, ys))\nprint(x)\nprint(ys)\nfn rec(n, acc) {\n    if n == 0 {\n        return acc\n    }\n    acc2 := acc + [n]\n    return rec(n - 1, acc2)\n}\nprint(rec(3, []))\n'})
    ts.append({'name': 'runs-off-end', 'src': 'fn f(c) {\n    if c {\n        return 5\n    }\n}\nprint(f(@b0@))\ng := fn () {\n    x := 1\n}\nprint(g())\n'})
    # a function never reached through an object has no `this` of its own, unless an enclosing function's `this` is in scope
    ts.append({'name': 'this-enclosing', 'src': 'o := {"name": "O", "m": fn () {\n    helper := fn () {\n        return this.name\n    }\n    return helper()\n}}\nprint(o.m())\nf := fn () {\n    return this\n}\nif @b0@ {\n    print(f())\n}\nprint(1)\n'})
    # `this` is lexical: a plain call made from inside a method does not hand the caller's `this` to the callee
    ts.append({'name': 'this-not-dynamic', 'src': 'A := {"name": "A", "mk": fn () {\n    return fn () {\n        return this.name\n    }\n}}\nfn free() {\n    return this.name\n}\nB := {"name": "B", "run": fn (cb) {\n    return cb()\n}, "run2": fn () {\n    return free()\n}, "run3": fn () {\n    h := fn () {\n        return this.name\n    }\n    return A.mk()() + h()\n}}\ng := A.mk()\nprint(g())\nprint(B.run(g))\nprint(B.run3())\nprint([g][0]())\nif @b0@ {\n    print(B.run2())\n}\nif @b1@ {\n    print(B.run(free))\n}\nif @b2@ {\n    print(free())\n}\nprint(1)\n'})
    # a method with a rest parameter has its `this` like any other
    ts.append({'name': 'this-rest-method', 'src': 'acc := {"base": @h10@, "add": fn (..xs) {\n    t := this.base\n    for [i, x] in xs {\n        t += x\n    }\n    return t\n}, "add2": fn (a, ..r) {\n    return [this.base, a, r]\n}}\nprint(acc.add(1, 2))\nprint(acc.add())\nprint(acc["add2"](5))\nf := acc.add2\nprint(f(1, 2))\nxs := [3, 4]\nprint(acc.add(xs..))\n',
               'assume': lambda v: [v['h10'] >= -100, v['h10'] <= 100]})
    # a function read from a list has no `this`, also when the list was read from an object; only an enclosing `this` shows through
    ts.append({'name': 'this-through-list', 'src': 'o := {"name": "O", "hs": [fn () {\n    return this.name\n}], "mk": fn () {\n    return [fn () {\n        return this.name\n    }]\n}}\nb := {"name": "B", "hs": o.mk()}\nprint(b.hs[0]())\nhs := b.hs\nprint(hs[0]())\nprint(o.mk()[0]())\nif @b0@ {\n    print(o.hs[0]())\n}\nif @b1@ {\n    l2 := o.hs\n    print(l2[0]())\n}\nprint(1)\n'})
    # the arguments are evaluated (once, left to right) before the count is checked
    ts.append({'name': 'arity-after-args', 'src': 'fn t(x) {\n    print(x)\n    return x\n}\nfn f(a, b) {\n    return a + b\n}\nfn r(a, ..more) {\n    return more\n}\nn := @h0@\nif n == 0 {\n    print(f(t(1), t(2), t(3)))\n} else if n == 1 {\n    print(f(t(4)))\n} else if n == 2 {\n    print(r())\n} else if n == 3 {\n    print(f(nope, 1, 2))\n} else if n == 4 {\n    o := {"m": f}\n    print(o.m(t(5), t(6), t(7)))\n}\nprint(9)\n', 'assume': lambda v: [v['h0'] >= 0, v['h0'] <= 5]})
    ts.append({'name': 'this-in-slot-only', 'src': 'reg := {"name": "registry", "mk": fn () {\n    return {"name": "widget", "show": fn () {\n        return $"<${this.name}>"\n    }}\n}}\nw := reg.mk()\nprint(w.show())\ng := {"name": "gadget", "show": w.show}\nprint(g.show())\nprint(g["show"]())\nplain := fn () {\n    return $"${this.name}"\n}\nif @b0@ {\n    print(plain())\n}\nprint(1)\n'})
    ts.append({'name': 'callee-kinds', 'src': 'r := @h0@\nxs := [fn () {\n    return 1\n}]\no := {"f": fn (a) {\n    return a\n}}\n' + '\n'.join(ladder('r', ['print(xs[0]())', 'print(o.f(2))', 'print(o["f"](3))', 'print((fn () {\n    return 4\n})())', 'print(5())', 'print("s"())', 'print(o())', 'print(xs())', 'print(null())', 'print(o.f())', 'print(xs[0](1))', 'print(print(6))', 'print(print())', 'print(print(1, 2))'])) + '\nprint(9)\n',
               'assume': lambda v: [v['h0'] >= 0, v['h0'] <= 14]})
    return ts

def role(v):
    return 'calls:%s:%s:%s' % (v.get('template', ''), v['aspect'], v['ref'])
