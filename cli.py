#!/usr/bin/env python3
# entry point:  ./verif check <id> [--tier quick|thorough]  |  setup  |  selftest [regex]
import sys, os, argparse, importlib, time
sys.path.insert(0, os.path.dirname(os.path.abspath(__file__)))
sys.setrecursionlimit(20000)

def main():
    ap = argparse.ArgumentParser()
    ap.add_argument('cmd'); ap.add_argument('arg', nargs='?')
    ap.add_argument('--tier', default=os.environ.get('VERIF_TIER', 'quick'))
    a = ap.parse_args()
    seed = int(os.environ.get('VERIF_SEED', '0') or 0)
    if a.cmd == 'check':
        mod = importlib.import_module('checks.' + a.arg.lower())
        from mirsym import build
        try:
            rc = mod.run(a.tier, seed)
        except build.BuildError as e:
            print('INCONCLUSIVE: build failed: %s' % e); rc = 2
        except BaseException as e:
            # an internal failure of the checker is never a verdict about the code: exit 2, not 1
            import traceback
            traceback.print_exc()
            print('INCONCLUSIVE: internal error in the check (%s: %s)' % (type(e).__name__, str(e)[:300])); rc = 2
        sys.stdout.flush(); os._exit(rc)
    elif a.cmd == 'setup':
        from checks import selftest
        os._exit(selftest.setup())
    elif a.cmd == 'probe':
        import subprocess
        os._exit(subprocess.call([sys.executable, os.path.join(os.path.dirname(os.path.abspath(__file__)), 'tools', 'stdprobe.py')] + ([a.arg] if a.arg else [])))
    elif a.cmd == 'selftest':
        from checks import selftest
        os._exit(selftest.run(a.arg or ''))
    else:
        print('unknown command'); sys.exit(64)
main()
