# Reference semantics for Seed, written from docs/features.md and the property statements (C01..C20), not from src/.
# Integers / booleans / string bytes may be z3 terms; every branch the reference itself takes on such a term is resolved
# by asking the solver under the current path condition (lock-step), and split when undecided.
# Where the documentation and the property statements are silent, `Unspecified` is raised and the comparison is skipped.
import z3
from .front import N, parse_prog, parse_expr, RefSyntaxError, FrontUnspecified

MIN64 = -(1 << 63); MAX64 = (1 << 63) - 1

class RefError(Exception):
    """a *reported* error of the documented semantics. kind: short class name; info: what the statement prescribes about it"""
    def __init__(self, kind, loc=None, **info):
        Exception.__init__(self, kind); self.kind = kind; self.loc = loc; self.info = info; self.stack = []
class Unspecified(Exception):
    """atomic_out: when set, the construct that is not specified is a single print -- whatever it does, a failure of it must leave
    stdout equal to the output of the prints completed before (C17)"""
    def __init__(self, msg, atomic_out=None):
        Exception.__init__(self, msg); self.atomic_out = atomic_out
class Split(Exception):
    def __init__(self, cond): self.cond = cond
class Ctl(Exception):
    def __init__(self, kind, loc, value=None): self.kind = kind; self.loc = loc; self.value = value
class Budget(Exception): pass

class ListCell:
    __slots__ = ('items',)
    def __init__(self, items): self.items = items
class ObjCell:
    __slots__ = ('props',)
    def __init__(self, props): self.props = props        # dict: bytes key -> SV
class Fn:
    __slots__ = ('name', 'params', 'collect', 'body', 'env')
    def __init__(self, name, params, collect, body, env): self.name = name; self.params = params; self.collect = collect; self.body = body; self.env = env
class Scope:
    __slots__ = ('vars',)
    def __init__(self): self.vars = {}                    # name -> [SV, decl_loc]

NULL = ('null',)
def sv(v, src=None): return (v, src)
def tname(v):
    return {'null': 'null', 'bool': 'bool', 'int': 'int', 'str': 'string', 'list': 'list', 'obj': 'object', 'fn': 'func', 'builtin': 'func'}[v[0]]
def is_sym(x): return not isinstance(x, (int, bool))
def bv(x): return z3.BitVecVal(x, 64) if isinstance(x, int) else x
def zb(x): return z3.BoolVal(x) if isinstance(x, bool) else x
def simp(x):
    if isinstance(x, (int, bool)): return x
    x = z3.simplify(x)
    if z3.is_bv_value(x): return x.as_signed_long()
    if z3.is_true(x): return True
    if z3.is_false(x): return False
    return x

OPSYM = {'Sum': '+', 'Sub': '-', 'Mul': '*', 'Div': '/', 'Mod': '%', 'And': '&&', 'Or': '||', 'Eq': '==', 'Ne': '!=', 'Gt': '>', 'Gte': '>=',
         'Lt': '<', 'Lte': '<=', 'RefEq': '===', 'RefNe': '!=='}

class Interp:
    def __init__(self, solver=None, decisions=(), holes=None, step_budget=200000):
        self.s = solver; self.decisions = list(decisions); self.made = []
        self.holes = holes or {}
        self.out = []                 # pieces: bytes | ('dec', term) | ('byte', term)
        self.steps = 0; self.budget = step_budget
        self.calls = []               # active calls: (call_loc, name of the function containing the call)
        self.silent = []              # notes about oracle-silent points passed (informational)

    # ---------------------------------------------------------------- solver interface
    def branch(self, c):
        if isinstance(c, bool): return c
        c = z3.simplify(c)
        if z3.is_true(c): return True
        if z3.is_false(c): return False
        if self.s is None: raise Unspecified('symbolic branch without solver')
        self.s.push(); self.s.add(c); t = self.s.check(); self.s.pop()
        self.s.push(); self.s.add(z3.Not(c)); f = self.s.check(); self.s.pop()
        if t == z3.unknown or f == z3.unknown: raise Unspecified('solver unknown')
        t = t == z3.sat; f = f == z3.sat
        if t and not f: return True
        if f and not t: return False
        if not t and not f: raise Unspecified('infeasible')
        if self.decisions:
            d = self.decisions.pop(0); self.made.append(d)
            self.s.add(c if d else z3.Not(c)); return d
        raise Split(c)
    def tick(self):
        self.steps += 1
        if self.steps > self.budget: raise Budget()

    # ---------------------------------------------------------------- program
    def run(self, prog):
        # the global `print` lives in the outermost scope together with the program's own top-level declarations
        # (redeclaring `print` at top level is oracle-silent)
        g = Scope(); g.vars['print'] = [sv(('builtin', 'print')), (0, 0)]
        env = [g]
        self.top_scope = g
        try:
            self.exec_block(prog, env, new_scope=False)
        except Ctl as c:
            raise RefError({'break': 'break-outside-loop', 'continue': 'continue-outside-loop', 'return': 'return-outside-fn'}[c.kind], c.loc)

    def exec_block(self, stmts, env, new_scope=True):
        e = env + [Scope()] if new_scope else env
        for st in stmts: self.exec_stmt(st, e)

    def exec_stmt(self, st, env):
        self.tick()
        k = st.kind
        if k == 'expr': self.eval(st.expr, env)
        elif k == 'declare':
            v = self.eval(st.rhs, env); self.bind(st.lhs, v, env, 'declare', set())
        elif k == 'assign':
            v = self.eval(st.rhs, env); self.bind(st.lhs, v, env, 'assign', set())
        elif k == 'opassign':
            self.op_assign(st, env)
        elif k == 'block': self.exec_block(st.body, env)
        elif k == 'if':
            for cond, body in st.branches:
                if self.truth(self.eval(cond, env), 'condition', cond):
                    self.exec_block(body, env); return
            if st.els is not None: self.exec_block(st.els, env)
        elif k == 'while':
            while self.truth(self.eval(st.cond, env), 'condition', st.cond):
                self.tick()
                try: self.exec_block(st.body, env)
                except Ctl as c:
                    if c.kind == 'break': break
                    if c.kind == 'continue': continue
                    raise
        elif k == 'for':
            it = self.eval(st.iter, env)[0]
            pairs = self.pairs_of(it, st.iter)
            for key, val in pairs:
                self.tick()
                sc = Scope(); e = env + [sc]
                pair = sv(('list', ListCell([key, val])))
                self.bind(st.lhs, pair, e, 'declare', set())
                try: self.exec_block(st.body, e, new_scope=False)
                except Ctl as c:
                    if c.kind == 'break': break
                    if c.kind == 'continue': continue
                    raise
        elif k == 'break': raise Ctl('break', st.loc)
        elif k == 'continue': raise Ctl('continue', st.loc)
        elif k == 'return':
            v = self.eval(st.expr, env); raise Ctl('return', st.loc, v)
        elif k == 'fndecl':
            self.check_params(st.params)
            f = Fn(st.name, st.params, st.collect, st.body, list(env))
            self.declare(env, st.name, sv(('fn', f)), st.name_loc)
        else: raise Unspecified('stmt ' + k)

    def pairs_of(self, it, node):
        if it[0] == 'list':
            return [(sv(('int', i)), x) for i, x in enumerate(list(it[1].items))]
        if it[0] == 'str':
            return [(sv(('int', i)), sv(('str', (b,)))) for i, b in enumerate(it[1])]
        if it[0] == 'obj':
            return [(sv(('str', tuple(k))), it[1].props[k]) for k in sorted(it[1].props)]
        raise RefError('type-context', None, context='for', got=tname(it))

    def truth(self, v, what, node):
        v = v[0]
        if v[0] != 'bool': raise RefError('type-context', None, context=what, exp='bool', got=tname(v))
        return self.branch(v[1])

    # ---------------------------------------------------------------- scopes
    def lookup(self, env, name):
        for sc in reversed(env):
            if name in sc.vars: return sc.vars[name]
        return None
    def declare(self, env, name, val, loc):
        if name == '_': return
        sc = env[-1]
        if name in sc.vars:
            if sc is self.top_scope and name == 'print': raise Unspecified('redeclaring the global `print`')
            raise RefError('redeclare', loc, name=name, prev=sc.vars[name][1])
        sc.vars[name] = [val, loc]
    def assign_var(self, env, name, val, loc):
        if name == '_': return
        slot = self.lookup(env, name)
        if slot is None: raise RefError('undefined', loc, name=name)
        slot[0] = val

    # ---------------------------------------------------------------- binding (declaration / assignment / destructuring)
    def bind(self, lhs, val, env, mode, names):
        k = lhs.kind
        if k == 'var':
            if lhs.name == '_': return
            if lhs.name in names: raise RefError('bound-twice', lhs.loc, name=lhs.name)
            names.add(lhs.name)
            if mode == 'declare': self.declare(env, lhs.name, val, lhs.loc)
            else: self.assign_var(env, lhs.name, val, lhs.loc)
        elif k == 'index':
            if mode == 'declare': self.silent.append('declare with an element target')
            tgt = self.eval(lhs.expr, env)[0]
            if tgt[0] == 'list':
                i = self.index_of(self.eval(lhs.index, env)[0], len(tgt[1].items), 'list')
                tgt[1].items[i] = val
            elif tgt[0] == 'obj':
                key = self.str_key(self.eval(lhs.index, env)[0], 'property')
                tgt[1].props[key] = val
            else: raise RefError('type-context', None, context='index-assign', got=tname(tgt))
        elif k == 'prop':
            if lhs.type_prop: raise RefError('assign-type-prop', None)
            tgt = self.eval(lhs.expr, env)[0]
            if tgt[0] != 'obj': raise RefError('type-context', None, context='prop-assign', got=tname(tgt))
            tgt[1].props[lhs.name.encode()] = val
        elif k == 'rangeindex':
            tgt = self.eval(lhs.expr, env)[0]
            if tgt[0] != 'list': raise RefError('type-context', None, context='range-assign', got=tname(tgt))
            rhs = val[0]
            if rhs[0] == 'list': elems = list(rhs[1].items)
            elif rhs[0] == 'str': elems = [sv(('str', (b,))) for b in rhs[1]]
            else: raise RefError('type-context', None, context='range-assign-rhs', got=tname(rhs))
            n = len(tgt[1].items)
            a = 0 if lhs.start is None else self.bound_of(self.eval(lhs.start, env)[0])
            b = n if lhs.end is None else self.bound_of(self.eval(lhs.end, env)[0])
            a = self.concretize(a, n + 1); b = self.concretize(b, n + 1)
            if a is None or b is None or not (a < b <= n): raise RefError('range-assign-domain', None)
            if len(elems) != b - a: raise RefError('range-assign-length', None)
            tgt[1].items[a:b] = elems
        elif k == 'list':
            src = val[0]
            if src[0] != 'list': raise RefError('type-context', lhs.loc, context='list-destructure', got=tname(src))
            items = list(src[1].items); pats = lhs.items; n = len(pats)
            for (p, sp) in pats:
                if sp: raise RefError('spread-in-pattern', None)
            if lhs.collect:
                if len(items) < n - 1: raise RefError('destructure-length', lhs.loc)
            elif len(items) != n: raise RefError('destructure-length', lhs.loc)
            for i, (p, sp) in enumerate(pats):
                if lhs.collect and i == n - 1: self.bind(p, sv(('list', ListCell(items[n - 1:]))), env, mode, names)
                else: self.bind(p, items[i], env, mode, names)
        elif k == 'object':
            src = val[0]
            if src[0] != 'obj': raise RefError('type-context', lhs.loc, context='object-destructure', got=tname(src))
            remaining = set(src[1].props.keys())
            for i, p in enumerate(lhs.props):
                if p[0] == 'single':
                    _, e, sp, collect = p
                    if sp: raise RefError('spread-in-pattern', None)
                    if e.kind != 'var': raise RefError('shorthand-not-var', None)
                    if collect:
                        if i != len(lhs.props) - 1: raise RefError('collect-not-last', None)
                        rest = {k2: src[1].props[k2] for k2 in remaining}
                        self.bind(e, sv(('obj', ObjCell(rest))), env, mode, names)
                        continue
                    key = e.name.encode()
                    if e.name == '_': raise Unspecified('`{_}` shorthand')
                    if key not in src[1].props: raise RefError('prop-missing', None, name=e.name)
                    self.bind(e, src[1].props[key], env, mode, names); remaining.discard(key)
                else:
                    _, ke, pat = p
                    key = self.str_key(self.eval(ke, env)[0], 'property')
                    if key == b'_' and pat.kind == 'var' and pat.name == '_' and key not in src[1].props: raise Unspecified('`{"_": _}` on an object without that key')
                    if key not in src[1].props: raise RefError('prop-missing', None, name=key)
                    self.bind(pat, src[1].props[key], env, mode, names); remaining.discard(key)
        else:
            raise RefError('invalid-bind-target', lhs.loc, what=k)

    def op_assign(self, st, env):
        r = self.eval(st.rhs, env)
        lhs = st.lhs; k = lhs.kind
        if k == 'var':
            if lhs.name == '_': raise Unspecified('op-assign to `_`')
            slot = self.lookup(env, lhs.name)
            if slot is None: raise RefError('undefined', lhs.loc, name=lhs.name)
            slot[0] = sv(self.binop(st.op, slot[0][0], r[0], st.op_loc))
        elif k == 'index':
            tgt = self.eval(lhs.expr, env)[0]
            if tgt[0] == 'list':
                i = self.index_of(self.eval(lhs.index, env)[0], len(tgt[1].items), 'list')
                tgt[1].items[i] = sv(self.binop(st.op, tgt[1].items[i][0], r[0], st.op_loc))
            elif tgt[0] == 'obj':
                key = self.str_key(self.eval(lhs.index, env)[0], 'property')
                if key not in tgt[1].props: raise RefError('prop-missing', None, name=key)
                tgt[1].props[key] = sv(self.binop(st.op, tgt[1].props[key][0], r[0], st.op_loc))
            else: raise RefError('type-context', None, context='index-assign', got=tname(tgt))
        elif k == 'prop':
            if lhs.type_prop: raise RefError('assign-type-prop', None)
            tgt = self.eval(lhs.expr, env)[0]
            if tgt[0] != 'obj': raise RefError('type-context', None, context='prop-assign', got=tname(tgt))
            key = lhs.name.encode()
            if key not in tgt[1].props: raise RefError('prop-missing', None, name=key)
            tgt[1].props[key] = sv(self.binop(st.op, tgt[1].props[key][0], r[0], st.op_loc))
        else:
            raise RefError('invalid-op-assign-target', None, what=k)

    def check_params(self, params):
        seen = {}
        def walk(p):
            if p.kind == 'var':
                if p.name == '_': return
                if p.name == 'this': raise Unspecified('parameter named `this`')
                if p.name in seen: raise RefError('dup-param', p.loc, name=p.name, prev=seen[p.name])
                seen[p.name] = p.loc
            elif p.kind == 'list':
                for (e, sp) in p.items:
                    if sp: raise RefError('spread-in-pattern', None)
                    walk(e)
            elif p.kind == 'object':
                for it in p.props:
                    if it[0] == 'single':
                        if it[2]: raise RefError('spread-in-pattern', None)
                        walk(it[1])
                    else: walk(it[2])
            else: raise RefError('invalid-bind-target', p.loc, what=p.kind)
        for p in params: walk(p)

    # ---------------------------------------------------------------- helpers on values
    def concretize(self, x, bound):
        """x: python int or z3 BV64 term (already known non-negative). returns python int < bound, or None if x >= bound"""
        if isinstance(x, int): return x if x < bound else None
        if not self.branch(z3.ULT(x, z3.BitVecVal(bound, 64))): return None
        for k in range(bound):
            if self.branch(x == z3.BitVecVal(k, 64)): return k
        raise Unspecified('concretize')
    def bound_of(self, v):
        """index / bound value: must be a non-negative int; returns python int or z3 term"""
        if v[0] != 'int': raise RefError('type-context', None, context='index', exp='int', got=tname(v))
        x = v[1]
        if self.branch(x < 0 if isinstance(x, int) else x < 0): raise RefError('negative-index', None)
        return x
    def index_of(self, v, n, what):
        x = self.bound_of(v)
        i = self.concretize(x, n)
        if i is None: raise RefError('index-out-of-bounds', None)
        return i
    def str_key(self, v, what):
        if v[0] != 'str': raise RefError('type-context', None, context=what, exp='string', got=tname(v))
        if any(is_sym(b) for b in v[1]): raise Unspecified('symbolic object key')
        key = bytes(v[1])
        try: key.decode('utf-8')
        except UnicodeDecodeError: raise Unspecified('non-UTF-8 object key')
        return key

    # ---------------------------------------------------------------- expressions
    def eval(self, e, env):
        self.tick()
        k = e.kind
        if k == 'null': return sv(NULL)
        if k == 'bool':
            v = e.v
            if isinstance(v, tuple): v = self.holes[v[1]]
            return sv(('bool', v))
        if k == 'int':
            v = e.v
            if isinstance(v, tuple): v = self.holes[v[1]]
            return sv(('int', v))
        if k == 'str':
            if e.slots is None: return sv(('str', tuple(e.v)))
            return sv(('str', self.interpolate(e, env)))
        if k == 'var':
            slot = self.lookup(env, e.name)
            if slot is None: raise RefError('undefined', e.loc, name=e.name)
            return slot[0]
        if k == 'bin':
            l = self.eval(e.lhs, env)
            if e.op in ('And', 'Or') and l[0][0] == 'bool' and not is_sym(l[0][1]) and l[0][1] == (e.op == 'Or'):
                # the left operand decides: whether the right operand is still evaluated is not stated -- only a right operand
                # whose evaluation has no effect and cannot fail keeps the case comparable
                if has_call(e.rhs): raise Unspecified('right operand of a decided && / || contains a call')
                n0 = len(self.out)
                try: r = self.eval(e.rhs, env)
                except RefError: raise Unspecified('right operand of a decided && / || fails')
                if len(self.out) != n0: raise Unspecified('right operand of a decided && / || has an effect')
                return sv(self.binop(e.op, l[0], r[0], e.op_loc))
            r = self.eval(e.rhs, env)
            return sv(self.binop(e.op, l[0], r[0], e.op_loc))
        if k == 'range':
            a = self.eval(e.start, env)[0]; b = self.eval(e.end, env)[0]
            if a[0] != 'int': raise RefError('type-context', None, context='range start', exp='int', got=tname(a))
            if b[0] != 'int': raise RefError('type-context', None, context='range end', exp='int', got=tname(b))
            return sv(('list', ListCell(self.range_items(a[1], b[1]))))
        if k == 'list':
            if e.collect: raise RefError('collect-outside-destructure', e.loc)
            return sv(('list', ListCell(self.eval_items(e.items, env))))
        if k == 'object':
            props = {}
            for p in e.props:
                if p[0] == 'pair':
                    key = self.str_key(self.eval(p[1], env)[0], 'property name')
                    props[key] = self.eval(p[2], env)
                else:
                    _, ex, sp, collect = p
                    if collect: raise RefError('collect-outside-destructure', e.loc)
                    if sp:
                        o = self.eval(ex, env)[0]
                        if o[0] != 'obj': raise RefError('type-context', ex.loc, context='object-spread', got=tname(o))
                        for k2 in sorted(o[1].props): props[k2] = o[1].props[k2]
                    else:
                        if ex.kind != 'var': raise RefError('shorthand-not-var', ex.loc)
                        slot = self.lookup(env, ex.name)
                        if slot is None: raise RefError('undefined', ex.loc, name=ex.name)
                        props[ex.name.encode()] = slot[0]
            return sv(('obj', ObjCell(props)))
        if k == 'index':
            src = self.eval(e.expr, env)[0]
            if src[0] == 'str':
                i = self.index_of(self.eval(e.index, env)[0], len(src[1]), 'string')
                return sv(('str', (src[1][i],)))
            if src[0] == 'list':
                i = self.index_of(self.eval(e.index, env)[0], len(src[1].items), 'list')
                return src[1].items[i]
            if src[0] == 'obj':
                key = self.str_key(self.eval(e.index, env)[0], 'property')
                if key not in src[1].props: raise RefError('prop-missing', None, name=key)
                return sv(src[1].props[key][0], src)
            raise RefError('type-context', None, context='index', got=tname(src))
        if k == 'rangeindex':
            # bounds are evaluated before the sequence expression? not stated: bounds and sequence are kept effect-free in templates
            a = None if e.start is None else self.bound_of(self.eval(e.start, env)[0])
            b = None if e.end is None else self.bound_of(self.eval(e.end, env)[0])
            src = self.eval(e.expr, env)[0]
            if src[0] not in ('str', 'list'): raise RefError('type-context', None, context='range-index', got=tname(src))
            seq = list(src[1]) if src[0] == 'str' else list(src[1].items)
            n = len(seq)
            a = 0 if a is None else self.concretize(a, n + 1)
            b = n if b is None else self.concretize(b, n + 1)
            if a is None or b is None or a > b: raise RefError('range-out-of-bounds', None)
            part = seq[a:b]
            return sv(('str', tuple(part))) if src[0] == 'str' else sv(('list', ListCell(part)))
        if k == 'prop':
            src = self.eval(e.expr, env)[0]
            if e.type_prop:
                if src[0] == 'null': raise RefError('type-fn-on-null', None)
                fns = {'str': ('len', 'type')}.get(src[0], ('type',))
                if e.name not in fns: raise RefError('type-fn-missing', None, name=e.name)
                return sv(('builtin', '->' + e.name), src)
            if src[0] != 'obj': raise RefError('type-context', None, context='prop', got=tname(src))
            key = e.name.encode()
            if key not in src[1].props: raise RefError('prop-missing', None, name=key)
            return sv(src[1].props[key][0], src)
        if k == 'fn':
            return sv(('fn', Fn(None, e.params, e.collect, e.body, list(env))))
        if k == 'call':
            return self.call(e, env)
        raise Unspecified('expr ' + k)

    def range_items(self, a, b):
        if isinstance(a, int) and isinstance(b, int):
            if b - a > 64: raise Unspecified('long range')
            return [sv(('int', i)) for i in range(a, b)]
        # symbolic: length must be decided (bounded): b - a in [..0] or 1..8
        az, bz = bv(a), bv(b)
        if self.branch(az >= bz): return []
        for n in range(1, 9):
            # b - a == n without wrap: a + n == b and a < a + n
            if self.branch(z3.And(az + n == bz, az < az + n)):
                return [sv(('int', simp(az + i))) for i in range(n)]
        raise Unspecified('long symbolic range')

    def eval_items(self, items, env):
        out = []
        for (ex, sp) in items:
            v = self.eval(ex, env)
            if not sp: out.append(v); continue
            if v[0][0] != 'list': raise RefError('type-context', ex.loc, context='list-spread', got=tname(v[0]))
            out.extend(list(v[0][1].items))
        return out

    def interpolate(self, e, env):
        s = e.v; out = []; last = 0
        for (a, b) in e.slots:
            out.extend(s[last:a])
            inner = s[a + 2:b - 1].decode('utf-8')
            try: ex = parse_expr(inner)
            except RefSyntaxError: raise RefError('slot-parse', None)
            except FrontUnspecified as u: raise Unspecified(str(u))
            try: v = self.eval(ex, env)[0]
            except RefError as err:
                err.loc = None        # position of an error inside a slot: not stated
                err.in_slot = True    # (seed reports such an error as `<slot position>: <position inside the slot>: message`)
                raise
            if v[0] != 'str': raise RefError('type-context', None, context='slot', exp='string', got=tname(v))
            if not any(is_sym(x) for x in v[1]):
                try: bytes(v[1]).decode('utf-8')
                except UnicodeDecodeError: raise Unspecified('slot value that is not UTF-8 text (the statement speaks of Unicode text)')
            out.extend(v[1]); last = b
        out.extend(s[last:])
        return tuple(out)

    def call(self, e, env):
        if has_call(e.func) and any(has_call(a) for a, _ in e.args): self.silent.append('callee and arguments both contain calls'); raise Unspecified('relative order of evaluating a callee expression with effects and its arguments')
        args = self.eval_items(e.args, env)
        f = self.eval(e.func, env)
        fv, src = f
        if fv[0] == 'builtin': return self.call_builtin(fv[1], src, args, e)
        if fv[0] != 'fn': raise RefError('not-callable', e.loc, got=tname(fv))
        fn = fv[1]; n = len(fn.params)
        if fn.collect:
            if len(args) < n - 1: raise RefError('arity', e.loc)
        elif len(args) != n: raise RefError('arity', e.loc)
        sc = Scope(); cenv = fn.env + [sc]
        names = set()
        caller = self.calls[-1][2] if self.calls else '<root>'
        self.calls.append((e.loc, caller, fn.name if fn.name is not None else '<unnamed function>'))
        if len(self.calls) > 60: raise Unspecified('deep recursion')
        try:
            for i, p in enumerate(fn.params):
                if fn.collect and i == n - 1: a = sv(('list', ListCell(args[n - 1:])))
                else: a = args[i]
                self.bind(p, a, cenv, 'declare', names)
            if src is not None:
                if 'this' in sc.vars: raise Unspecified('parameter named `this`')
                sc.vars['this'] = [sv(src), None]
            try:
                self.exec_block(fn.body, cenv, new_scope=False)
                ret = sv(NULL)
            except Ctl as c:
                if c.kind == 'return': ret = c.value
                else: raise RefError('break-outside-loop' if c.kind == 'break' else 'continue-outside-loop', c.loc)
        except RefError as err:
            err.stack.append((e.loc, caller))
            raise
        finally:
            self.calls.pop()
        return ret

    def call_builtin(self, name, src, args, e):
        if name == 'print':
            if src is not None: raise Unspecified('`print` reached through an object')
            if len(args) != 1: raise RefError('builtin-arity', e.loc)
            before = list(self.out)
            try: rendered = self.render(args[0][0], 0)
            except Unspecified as u: raise Unspecified(str(u), atomic_out=before)
            self.out.extend(rendered); self.out.append(b'\n')
            return sv(NULL)
        if name in ('->type', '->len'):
            if src is None: raise Unspecified('type function without receiver')
            if len(args) != 0: raise RefError('builtin-arity', e.loc)
            if name == '->type':
                if src[0] == 'null': raise Unspecified('type of null via moved function')
                return sv(('str', tuple(tname(src).encode())))
            if src[0] != 'str': raise Unspecified('len of non-string via moved function')
            if any(is_sym(b) for b in src[1]): raise Unspecified('len of a string with symbolic bytes')
            try: bytes(src[1]).decode('utf-8')
            except UnicodeDecodeError: raise Unspecified('->len() of a byte string that is not UTF-8 text (the statement speaks of Unicode text)')
            return sv(('int', len(src[1])))
        raise Unspecified('builtin ' + name)

    # ---------------------------------------------------------------- operators
    def binop(self, op, a, b, op_loc):
        ta, tb = a[0], b[0]
        def bad(): return RefError('op-types', op_loc, op=OPSYM[op], lhs=tname(a), rhs=tname(b))
        if op in ('Eq', 'Ne'):
            r = self.equal(a, b, op, op_loc)
            return ('bool', r if op == 'Eq' else simp(z3.Not(r)) if is_sym(r) else (not r))
        if op in ('RefEq', 'RefNe'):
            if ta == tb and ta in ('list', 'obj', 'fn'):
                r = a[1] is b[1]; return ('bool', r if op == 'RefEq' else not r)
            raise bad()
        if op == 'Sum':
            if ta == tb == 'int': return ('int', self.arith(op, a[1], b[1], op_loc))
            if ta == tb == 'str': return ('str', tuple(a[1]) + tuple(b[1]))
            if ta == tb == 'list': return ('list', ListCell(list(a[1].items) + list(b[1].items)))
            raise bad()
        if op in ('Sub', 'Mul', 'Div', 'Mod'):
            if ta == tb == 'int': return ('int', self.arith(op, a[1], b[1], op_loc))
            raise bad()
        if op in ('And', 'Or'):
            if ta == tb == 'bool':
                x, y = a[1], b[1]
                if not is_sym(x) and not is_sym(y): return ('bool', (x and y) if op == 'And' else (x or y))
                return ('bool', simp(z3.And(zb(x), zb(y)) if op == 'And' else z3.Or(zb(x), zb(y))))
            raise bad()
        if op in ('Gt', 'Gte', 'Lt', 'Lte'):
            if ta == tb == 'int':
                x, y = a[1], b[1]
                if not is_sym(x) and not is_sym(y): return ('bool', {'Gt': x > y, 'Gte': x >= y, 'Lt': x < y, 'Lte': x <= y}[op])
                x, y = bv(x), bv(y)
                return ('bool', simp({'Gt': x > y, 'Gte': x >= y, 'Lt': x < y, 'Lte': x <= y}[op]))
            raise bad()
        raise Unspecified('op ' + op)

    def arith(self, op, x, y, op_loc):
        def ovf(): return RefError('int-overflow', op_loc, op=OPSYM[op], lhs=x, rhs=y)
        if not is_sym(x) and not is_sym(y):
            if op == 'Sum': r = x + y
            elif op == 'Sub': r = x - y
            elif op == 'Mul': r = x * y
            else:
                if y == 0: raise RefError('int-overflow' if op == 'Div' else 'mod-zero', op_loc, op=OPSYM[op], lhs=x, rhs=y)
                q = abs(x) // abs(y); q = q if (x < 0) == (y < 0) else -q
                r = q if op == 'Div' else x - q * y
            if r < MIN64 or r > MAX64: raise ovf()
            return r
        xz, yz = bv(x), bv(y)
        if op in ('Sum', 'Sub', 'Mul'):
            f = {'Sum': lambda p, q: p + q, 'Sub': lambda p, q: p - q, 'Mul': lambda p, q: p * q}[op]
            r = f(xz, yz)
            if op == 'Mul':
                # exactness of a 64x64 signed product: z3's multiplication-overflow predicates (shared with the engine's encoding of
                # `checked_mul`; the 128-bit product formulation is not decided in useful time)
                fits = z3.And(z3.BVMulNoOverflow(xz, yz, True), z3.BVMulNoUnderflow(xz, yz))
                if self.branch(z3.Not(fits)): raise ovf()
                return simp(r)
            wide = f(z3.SignExt(64, xz), z3.SignExt(64, yz))
            if self.branch(z3.SignExt(64, r) != wide): raise ovf()
            return simp(r)
        if self.branch(yz == 0): raise RefError('int-overflow' if op == 'Div' else 'mod-zero', op_loc, op=OPSYM[op], lhs=x, rhs=y)
        if op == 'Div':
            if self.branch(z3.And(xz == z3.BitVecVal(MIN64, 64), yz == z3.BitVecVal(-1, 64))): raise ovf()
            return simp(xz / yz)
        # remainder takes the dividend's sign; MIN % -1 == 0 fits and must be yielded
        return simp(z3.SRem(xz, yz))

    def equal(self, a, b, op, op_loc):
        """structural equality; returns python bool or z3 Bool; type-mismatch reached -> RefError; traversal-order dependent
        outcomes -> Unspecified"""
        mism = []; conj = []
        def walk(p, q, path):
            self.tick()
            tp, tq = p[0], q[0]
            if tp != tq or tp in ('fn', 'builtin'):
                mism.append((tname(p), tname(q))); return
            if tp == 'null': return
            if tp == 'bool':
                x, y = p[1], q[1]
                conj.append((x == y) if not is_sym(x) and not is_sym(y) else (zb(x) == zb(y))); return
            if tp == 'int':
                x, y = p[1], q[1]
                conj.append((x == y) if not is_sym(x) and not is_sym(y) else (bv(x) == bv(y))); return
            if tp == 'str':
                if len(p[1]) != len(q[1]): conj.append(False); return
                for x, y in zip(p[1], q[1]):
                    if not is_sym(x) and not is_sym(y): conj.append(x == y)
                    else: conj.append((z3.BitVecVal(x, 8) if isinstance(x, int) else x) == (z3.BitVecVal(y, 8) if isinstance(y, int) else y))
                return
            if tp == 'list':
                if p[1] is q[1]:
                    if contains_fn(p): raise Unspecified('identical container holding a function')
                    return
                if len(path) > 40: raise Unspecified('cyclic comparison')
                # (whether the elements of lists of different lengths are still looked at is traversal order: walk the common
                #  prefix so that a reachable type mismatch next to a definite inequality ends up oracle-silent)
                if len(p[1].items) != len(q[1].items): conj.append(False)
                for x, y in zip(list(p[1].items), list(q[1].items)): walk(x[0], y[0], path + [p[1]])
                return
            if tp == 'obj':
                if p[1] is q[1]:
                    if contains_fn(p): raise Unspecified('identical container holding a function')
                    return
                if len(path) > 40: raise Unspecified('cyclic comparison')
                if set(p[1].props) != set(q[1].props): conj.append(False)
                for k2 in sorted(set(p[1].props) & set(q[1].props)): walk(p[1].props[k2][0], q[1].props[k2][0], path + [p[1]])
                return
            raise Unspecified('equal ' + tp)
        walk(a, b, [])
        definite_false = any(c is False for c in conj)
        symbolic = [c for c in conj if not isinstance(c, bool)]
        if mism:
            if definite_false or symbolic: raise Unspecified('type mismatch and inequality both reachable (traversal order)')
            raise RefError('eq-types', op_loc, op=OPSYM[op], lhs=mism[0][0], rhs=mism[0][1], n_mismatches=len(mism))
        if definite_false: return False
        if not symbolic: return True
        return simp(z3.And(*symbolic))

    # ---------------------------------------------------------------- printing
    def render(self, v, depth):
        t = v[0]
        if t == 'null': return [b'<null>']
        if t == 'bool':
            b = v[1]
            if is_sym(b): b = self.branch(b)
            return [b'true' if b else b'false']
        if t == 'int':
            if is_sym(v[1]): return [('dec', v[1])]
            return [str(v[1]).encode()]
        if t == 'str':
            if depth > 0:
                # a string element that contains a line break inside a container: the layout of its continuation is not stated
                for b in v[1]:
                    if (b == 10) if not is_sym(b) else self.branch(b == 10): raise Unspecified('newline in a string inside a container')
            out = []
            conc = bytes(b for b in v[1] if not is_sym(b))
            if len(conc) == len(v[1]):
                try: conc.decode('utf-8')
                except UnicodeDecodeError: raise Unspecified('printing a string that is not UTF-8')
                return [conc] if conc else []
            for b in v[1]:
                out.append(('byte', b) if is_sym(b) else bytes([b]))
            return out
        if depth > 30: raise Unspecified('printing a cyclic value')
        ind = b'    ' * (depth + 1)
        if t == 'list':
            out = [b'[\n']
            for it in v[1].items:
                out.append(ind); out.extend(self.indent_nl(self.render(it[0], depth + 1), depth + 1)); out.append(b',\n')
            out.append(b'    ' * depth + b']'); return out
        if t == 'obj':
            out = [b'{\n']
            for k2 in sorted(v[1].props):
                out.append(ind + b'"' + k2 + b'": '); out.extend(self.indent_nl(self.render(v[1].props[k2][0], depth + 1), depth + 1)); out.append(b',\n')
            out.append(b'    ' * depth + b'}'); return out
        raise Unspecified('text printed for a function value')
    def indent_nl(self, pieces, depth):
        # nested containers are already rendered at their depth; a *string* element containing newlines is indented as text
        return pieces

def has_call(n):
    if isinstance(n, N):
        if n.kind in ('call', 'fn'): return n.kind == 'call' or False
        return any(has_call(v) for k, v in n.__dict__.items() if k not in ('kind', 'loc'))
    if isinstance(n, (list, tuple)): return any(has_call(x) for x in n)
    return False

def contains_fn(v, seen=None):
    seen = seen if seen is not None else set()
    if v[0] in ('fn', 'builtin'): return True
    if v[0] == 'list':
        if id(v[1]) in seen: return False
        seen.add(id(v[1])); return any(contains_fn(x[0], seen) for x in v[1].items)
    if v[0] == 'obj':
        if id(v[1]) in seen: return False
        seen.add(id(v[1])); return any(contains_fn(x[0], seen) for x in v[1].props.values())
    return False

def merge_pieces(ps):
    out = []
    for p in ps:
        if isinstance(p, bytes):
            if not p: continue
            if out and isinstance(out[-1], bytes): out[-1] += p
            else: out.append(p)
        else: out.append(p)
    return out

def run_reference(prog, solver_assertions, holes, on_case, max_cases=256):
    """Enumerates the reference's own case splits under the path condition.
    on_case(outcome, solver, interp): outcome = ('ok', pieces) | ('error', pieces, RefError) | ('unspecified', reason)"""
    work = [[]]; ncases = 0
    while work:
        dec = work.pop()
        ncases += 1
        if ncases > max_cases:
            on_case(('unspecified', 'too many reference cases'), None, None); return
        s = z3.Solver(); s.add(*solver_assertions)
        it = Interp(s, dec, holes)
        try:
            it.run(prog); outcome = ('ok', merge_pieces(it.out))
        except Split:
            work.append(list(it.made) + [True]); work.append(list(it.made) + [False]); continue
        except RefError as e: outcome = ('error', merge_pieces(it.out), e)
        except Unspecified as u: outcome = ('unspecified', str(u)) if u.atomic_out is None else ('unspecified', str(u), merge_pieces(u.atomic_out))
        except Budget: outcome = ('unspecified', 'reference step budget')
        except RecursionError: outcome = ('unspecified', 'reference recursion')
        on_case(outcome, s, it)

def run_concrete(src, holes=None):
    """concrete run of the reference on source text. returns ('ok'|'error'|'unspecified'|'syntax', stdout bytes, info)"""
    try: prog = parse_prog(src)
    except RefSyntaxError as e: return ('syntax', b'', e)
    except FrontUnspecified as u: return ('unspecified', b'', str(u))
    it = Interp(None, (), holes or {})
    try:
        it.run(prog); return ('ok', b''.join(p for p in merge_pieces(it.out)), None)
    except RefError as e: return ('error', b''.join(merge_pieces(it.out)), e)
    except Unspecified as u: return ('unspecified', b'', str(u), None if u.atomic_out is None else b''.join(merge_pieces(u.atomic_out)))
    except (Budget, RecursionError): return ('unspecified', b'', 'budget', None)
