# Reference front end for Seed: lexer + recursive-descent parser, written from docs/features.md and the
# property statements (C08, C09, C15, C18), NOT from src/.  Produces its own AST with 1-based (line, col) positions
# counted in characters.  Used as the independent reading against which the real pipeline is compared.
#
# Hole placeholders (see mirsym/template.py): an integer literal whose value is 770000+k is hole k (class 'int');
# an identifier HBkk__ is boolean hole kk.
import re

class RefSyntaxError(Exception):
    def __init__(self, loc, msg, kind='parse'):
        Exception.__init__(self, '%s: %s' % (loc, msg)); self.loc = loc; self.msg = msg; self.kind = kind
class FrontUnspecified(Exception): pass

KEYWORDS = {'break', 'continue', 'else', 'false', 'fn', 'for', 'if', 'in', 'null', 'return', 'true', 'while'}
SYMBOLS3 = ['===', '!==']
SYMBOLS2 = ['&&', '!=', ':=', '->', '/=', '..', '==', '>=', '<=', '%=', '*=', '||', '-=', '+=']
SYMBOLS1 = list('}{][:,/.=><%*)(-+')
# a line break directly after one of these continues the statement (C09)
CONTINUE_AFTER = {'+', '-', '*', '/', '%', '==', '!=', '<', '<=', '>', '>=', '&&', '||', '=', ':=', '+=', '-=', '*=', '/=', '%=',
                  ',', '.', '(', '[', '{'}
INT_MAX = 2**63 - 1

class Tok:
    __slots__ = ('k', 'v', 'loc', 'extra')
    def __init__(self, k, v, loc, extra=None): self.k = k; self.v = v; self.loc = loc; self.extra = extra
    def __repr__(self): return 'Tok(%s,%r,%s)' % (self.k, self.v, self.loc)

def lex(src, lazy=False):
    """lazy: a lexical error ends the token list with a Tok('lexerr', RefSyntaxError, loc) instead of being raised."""
    if not lazy: return _lex(src)
    toks = []
    try: _lex(src, toks)
    except RefSyntaxError as e:
        toks.append(Tok('lexerr', e, e.loc))
    return toks

def _lex(src, toks=None):
    """src: str.  Returns list of Tok; kinds: ident, int, str, istr, kw, sym, end.  Raises RefSyntaxError(kind='lex*')."""
    toks = [] if toks is None else toks; n = len(src)
    st = {'i': 0, 'line': 1, 'col': 1}
    def adv(k=1):
        for _ in range(k):
            if src[st['i']] == '\n': st['line'] += 1; st['col'] = 1
            else: st['col'] += 1
            st['i'] += 1
    def emit(t):
        if t.k == 'end':
            if not toks: return
            last = toks[-1]
            if last.k == 'end': return
            if last.k == 'sym' and last.v in CONTINUE_AFTER: return
        toks.append(t)
    while st['i'] < n:
        i = st['i']; c = src[i]
        if c == '#':
            while st['i'] < n and src[st['i']] != '\n': adv()
            continue
        if c == '\x0c' or c == '\x0b': raise FrontUnspecified('form feed / vertical tab')
        if c in ' \t\r': adv(); continue
        loc = (st['line'], st['col'])
        if c == '\n' or c == ';':
            adv(); emit(Tok('end', c, loc)); continue
        if c.isascii() and (c.isalpha() or c == '_'):
            j = i
            while j < n and src[j].isascii() and (src[j].isalnum() or src[j] == '_'): j += 1
            w = src[i:j]; adv(j - i)
            emit(Tok('kw' if w in KEYWORDS else 'ident', w, loc)); continue
        if c.isascii() and c.isdigit():
            j = i
            while j < n and src[j].isascii() and (src[j].isdigit() or src[j] == '_'): j += 1
            raw = src[i:j]; adv(j - i)
            v = int(raw.replace('_', ''))
            if v > INT_MAX: raise RefSyntaxError(loc, 'int literal too large', 'lex-intoverflow')
            emit(Tok('int', v, loc)); continue
        if c == '"' or c == '$':
            interp = (c == '$')
            if interp:
                adv()
                if st['i'] >= n or src[st['i']] != '"': raise FrontUnspecified('`$` not followed by a quote')
            adv()   # opening quote
            out = bytearray(); slots = []       # slots: (byte_start, byte_end) of `${...}` in `out`
            closed = False
            while st['i'] < n:
                ch = src[st['i']]; chloc = (st['line'], st['col'])
                if ch == '"': adv(); closed = True; break
                if ch == '\\':
                    adv()
                    if st['i'] >= n: raise FrontUnspecified('unterminated escape')
                    e = src[st['i']]; eloc = (st['line'], st['col'])
                    if e in '\\"$': out += e.encode(); adv()
                    elif e == 'n': out += b'\n'; adv()
                    elif e == 'r': out += b'\r'; adv()
                    elif e == 'x':
                        adv(); hv = 0
                        for _ in range(2):
                            if st['i'] >= n: raise FrontUnspecified('unterminated hex escape')
                            h = src[st['i']]; hloc = (st['line'], st['col'])
                            if h not in '0123456789abcdefABCDEF': raise RefSyntaxError(hloc, 'invalid hex digit %r' % h, 'lex')
                            hv = hv * 16 + int(h, 16); adv()
                        if hv >= 0x80: raise FrontUnspecified('\\xHH with HH >= 0x80')
                        out.append(hv)
                    else: raise RefSyntaxError(eloc, 'invalid escape %r' % e, 'lex')
                    continue
                if ch == '$':
                    if not interp: raise RefSyntaxError(chloc, "'$' must be escaped", 'lex')
                    a = len(out); out += b'$'; adv()
                    if st['i'] >= n: raise FrontUnspecified('unterminated slot')
                    if src[st['i']] != '{': raise RefSyntaxError((st['line'], st['col']), 'interpolation slots start with {', 'lex')
                    depth = 0
                    while True:
                        if st['i'] >= n: raise FrontUnspecified('unterminated slot')
                        s = src[st['i']]
                        if s == '{': depth += 1
                        elif s == '}': depth -= 1
                        out += s.encode(); adv()
                        if depth == 0: break
                    inner = out[a + 2:len(out) - 1].decode()
                    # braces inside a nested string literal of the slot expression: not covered by "balanced braces"
                    for m in re.finditer(r'"((?:[^"\\]|\\.)*)"', inner):
                        if '{' in m.group(1) or '}' in m.group(1): raise FrontUnspecified('brace inside string inside slot')
                    slots.append((a, len(out)))
                    continue
                out += ch.encode(); adv()
            if not closed: raise FrontUnspecified('unterminated string literal')
            emit(Tok('istr' if interp else 'str', bytes(out), loc, slots)); continue
        hit = None
        for group in (SYMBOLS3, SYMBOLS2, SYMBOLS1):
            m = [s for s in group if src.startswith(s, i)]
            if m: hit = m[0]; break
        if hit is None:
            raise RefSyntaxError(loc, 'unexpected character %r' % c, 'lex')
        adv(len(hit)); emit(Tok('sym', hit, loc))
    return toks

# ------------------------------------------------------------------ AST
class N:
    """AST node: kind, loc (line, col of first token), fields by attribute"""
    def __init__(self, kind, loc, **kw): self.kind = kind; self.loc = loc; self.__dict__.update(kw)
    def __repr__(self):
        d = {k: v for k, v in self.__dict__.items() if k not in ('kind', 'loc')}
        return '%s%r' % (self.kind, d)

BINOP_TIERS = [  # loosest first (after `..`)
    {'&&': 'And', '||': 'Or'},
    {'+': 'Sum', '-': 'Sub'},
    {'*': 'Mul', '/': 'Div', '%': 'Mod', '==': 'Eq', '!=': 'Ne', '>': 'Gt', '>=': 'Gte', '<': 'Lt', '<=': 'Lte', '===': 'RefEq', '!==': 'RefNe'},
]
OPASSIGN = {'+=': 'Sum', '-=': 'Sub', '*=': 'Mul', '/=': 'Div', '%=': 'Mod'}
HOLE_INT_BASE = 770000
HOLE_BOOL_RE = re.compile(r'^HB(\d\d)__$')

class Parser:
    def __init__(self, toks, eof_loc=None):
        self.t = toks; self.p = 0
    def peek(self, k=0): return self.t[self.p + k] if self.p + k < len(self.t) else None
    def is_sym(self, v, k=0):
        t = self.peek(k); return t is not None and t.k == 'sym' and t.v == v
    def is_kw(self, v, k=0):
        t = self.peek(k); return t is not None and t.k == 'kw' and t.v == v
    def fail(self, what='token'):
        t = self.peek()
        if t is None: e = RefSyntaxError(None, 'unexpected EOF', 'parse-eof')
        elif t.k == 'lexerr': e = t.v
        else: e = RefSyntaxError(t.loc, 'unexpected %s %r' % (what, t.v), 'parse')
        e.tokidx = self.p
        raise e
    def eat_sym(self, v):
        if not self.is_sym(v): self.fail()
        self.p += 1
    def eat_kw(self, v):
        if not self.is_kw(v): self.fail()
        self.p += 1
    def eat_end(self):
        t = self.peek()
        if t is None or t.k != 'end': self.fail()
        self.p += 1

    def prog(self):
        stmts = []
        while self.peek() is not None: stmts.append(self.stmt())
        return stmts
    def stmt(self):
        s = self.raw_stmt(); self.eat_end(); return s
    def block(self):
        self.eat_sym('{'); out = []
        while not self.is_sym('}'):
            if self.peek() is None: self.fail()
            out.append(self.stmt())
        self.eat_sym('}'); return out
    def raw_stmt(self):
        t = self.peek()
        if t is None: self.fail()
        loc = t.loc
        if t.k == 'sym' and t.v == '{':
            # `{` at statement start: object-literal expression statement or bare block.  An LR parser follows both readings and
            # fails at the first token neither can accept: try both, keep the one that parses, else report the failure that got further
            save = self.p; errs = []
            try:
                st = self.simple_stmt(loc)
                nt = self.peek()
                if nt is not None and nt.k == 'end': return st
                self.fail()
            except RefSyntaxError as e: errs.append((getattr(e, 'tokidx', 10**9), e))
            self.p = save
            try:
                b = self.block()
                if not b: self.fail()
                return N('block', loc, body=b)
            except RefSyntaxError as e: errs.append((getattr(e, 'tokidx', 10**9), e))
            errs.sort(key=lambda x: -x[0])
            raise errs[0][1]
        if t.k == 'kw':
            if t.v == 'if': return self.if_stmt()
            if t.v == 'while':
                self.p += 1; c = self.expr(); b = self.block(); return N('while', loc, cond=c, body=b)
            if t.v == 'for':
                self.p += 1; lhs = self.expr(); self.eat_kw('in'); it = self.expr(); b = self.block()
                return N('for', loc, lhs=lhs, iter=it, body=b)
            if t.v == 'break': self.p += 1; return N('break', loc)
            if t.v == 'continue': self.p += 1; return N('continue', loc)
            if t.v == 'return': self.p += 1; e = self.expr(); return N('return', loc, expr=e)
            if t.v == 'fn' and self.peek(1) is not None and self.peek(1).k == 'ident':
                self.p += 1; nt = self.peek(); self.p += 1
                self.eat_sym('('); params, collect = self.param_list(); self.eat_sym(')'); b = self.block()
                return N('fndecl', loc, name=nt.v, name_loc=nt.loc, params=params, collect=collect, body=b)
        return self.simple_stmt(loc)
    def simple_stmt(self, loc):
        lhs = self.expr()
        t = self.peek()
        if t is not None and t.k == 'sym':
            if t.v == ':=': self.p += 1; return N('declare', loc, lhs=lhs, rhs=self.expr())
            if t.v == '=': self.p += 1; return N('assign', loc, lhs=lhs, rhs=self.expr())
            if t.v in OPASSIGN: self.p += 1; return N('opassign', loc, lhs=lhs, op=OPASSIGN[t.v], op_loc=t.loc, rhs=self.expr())
        return N('expr', loc, expr=lhs)
    def block_ahead(self):
        """`{` at statement start: a bare block iff what follows is not an object literal.  The grammar is LR(1) and requires a
        non-empty block; an object literal statement starts `{` then a property list.  We decide as an LR parser effectively does:
        try the object reading first (expression statement), fall back to a block."""
        save = self.p
        try:
            self.expr()
            t = self.peek()
            ok = t is not None and (t.k == 'end' or (t.k == 'sym' and (t.v in (':=', '=') or t.v in OPASSIGN)))
        except RefSyntaxError:
            ok = False
        self.p = save
        if ok:
            # both readings could be possible only for `{ x }`-like inputs without terminators, which a block cannot be
            return False
        return True
    def if_stmt(self):
        loc = self.peek().loc
        branches = []; els = None
        while True:
            self.eat_kw('if'); c = self.expr(); b = self.block(); branches.append((c, b))
            if self.is_kw('else'):
                self.p += 1
                if self.is_kw('if'): continue
                els = self.block()
            break
        return N('if', loc, branches=branches, els=els)
    def param_list(self):
        params = []; collect = False
        while not self.is_sym(')'):
            if self.is_sym('..'):
                self.p += 1; collect = True; params.append(self.expr()); break
            params.append(self.expr())
            if self.is_sym(','): self.p += 1
            else: break
        return params, collect

    # expressions
    def expr(self, spread_ok=False):
        loc = self.peek().loc if self.peek() else None
        if loc is None: self.fail()
        e = self.tier(0)
        while self.is_sym('..'):
            if spread_ok and not self.range_follows(): break
            # outside list items / arguments / properties a `..` after an expression can only be the range operator: an LR parser
            # shifts it and reports whatever follows if that cannot start the range's end
            self.p += 1
            if self.peek() is None: self.fail()
            end = self.tier(0)
            e = N('range', loc, start=e, end=end)
        return e
    def range_follows(self):
        """`e ..` is a range operator only if an operand follows; otherwise it is the spread/collect annotation of a list item,
        argument or property"""
        t = self.peek(1)
        if t is None: return False
        if t.k == 'sym' and t.v in (',', ']', ')', '}'): return False
        if t.k == 'end': return False
        return True
    def tier(self, k):
        if k == len(BINOP_TIERS): return self.postfix()
        loc = self.peek().loc if self.peek() else None
        l = self.tier(k + 1)
        while True:
            t = self.peek()
            if t is not None and t.k == 'sym' and t.v in BINOP_TIERS[k]:
                self.p += 1
                r = self.tier(k + 1)
                l = N('bin', loc, op=BINOP_TIERS[k][t.v], op_loc=t.loc, sym=t.v, lhs=l, rhs=r)
            else: return l
    def postfix(self):
        t = self.peek()
        if t is None: self.fail()
        loc = t.loc
        e = self.atom()
        while True:
            if self.is_sym('('):
                self.p += 1; args = self.item_list(')', allow_collect=False); self.eat_sym(')')
                e = N('call', loc, func=e, args=args)
            elif self.is_sym('['):
                self.p += 1
                if self.is_sym(':'):
                    self.p += 1; end = None if self.is_sym(']') else self.expr(); self.eat_sym(']')
                    e = N('rangeindex', loc, expr=e, start=None, end=end)
                else:
                    a = self.expr()
                    if self.is_sym(':'):
                        self.p += 1; end = None if self.is_sym(']') else self.expr(); self.eat_sym(']')
                        e = N('rangeindex', loc, expr=e, start=a, end=end)
                    else:
                        self.eat_sym(']'); e = N('index', loc, expr=e, index=a)
            elif self.is_sym('.') or self.is_sym('->'):
                tp = self.peek().v == '->'; self.p += 1
                nt = self.peek()
                if nt is None or nt.k != 'ident': self.fail()
                self.p += 1
                e = N('prop', loc, expr=e, name=nt.v, type_prop=tp)
            else: return e
    def item_list(self, close, allow_collect):
        """list items / call arguments: [..]expr[..] separated by commas; returns [(expr, is_spread)] (+ collect flag)"""
        items = []; collect = False
        while not self.is_sym(close):
            if self.is_sym('..'):
                if not allow_collect: self.fail()
                self.p += 1; collect = True
                e = self.expr(True); sp = False
                if self.is_sym('..'): self.p += 1; sp = True
                items.append((e, sp))
                break          # collect is only allowed on the last item
            e = self.expr(True); sp = False
            if self.is_sym('..'): self.p += 1; sp = True
            items.append((e, sp))
            if self.is_sym(','): self.p += 1
            else: break
        return (items, collect) if allow_collect else items
    def atom(self):
        t = self.peek(); loc = t.loc
        if t.k == 'kw':
            if t.v == 'null': self.p += 1; return N('null', loc)
            if t.v == 'true': self.p += 1; return N('bool', loc, v=True)
            if t.v == 'false': self.p += 1; return N('bool', loc, v=False)
            if t.v == 'fn':
                self.p += 1; self.eat_sym('('); params, collect = self.param_list(); self.eat_sym(')'); b = self.block()
                return N('fn', loc, params=params, collect=collect, body=b)
            self.fail()
        if t.k == 'ident':
            self.p += 1
            m = HOLE_BOOL_RE.match(t.v)
            if m: return N('bool', loc, v=('hole', 'b%d' % int(m.group(1))))
            return N('var', loc, name=t.v)
        if t.k == 'int':
            self.p += 1
            if HOLE_INT_BASE <= t.v < HOLE_INT_BASE + 1000: return N('int', loc, v=('hole', 'h%d' % (t.v - HOLE_INT_BASE)))
            return N('int', loc, v=t.v)
        if t.k == 'str': self.p += 1; return N('str', loc, v=t.v, slots=None)
        if t.k == 'istr': self.p += 1; return N('str', loc, v=t.v, slots=t.extra)
        if t.k == 'sym':
            if t.v == '-':
                # "-" IntLiteral: once the `-` is in operand position only an integer literal may follow
                self.p += 1
                nt = self.peek()
                if nt is None or nt.k != 'int': self.fail()
                self.p += 1; v = nt.v
                if HOLE_INT_BASE <= v < HOLE_INT_BASE + 1000: raise FrontUnspecified('negated hole')
                return N('int', loc, v=-v)
            if t.v == '(':
                self.p += 1; e = self.expr_no_range_wrapper(); self.eat_sym(')'); return e
            if t.v == '[':
                self.p += 1; items, collect = self.item_list(']', allow_collect=True); self.eat_sym(']')
                return N('list', loc, items=items, collect=collect)
            if t.v == '{':
                self.p += 1; props = self.prop_list(); self.eat_sym('}')
                return N('object', loc, props=props)
        self.fail()
    def expr_no_range_wrapper(self):
        # "(" ExprPrecedence1 ")": a parenthesised expression is the inner expression itself (the node keeps its own position)
        return self.expr()
    def prop_list(self):
        props = []
        while not self.is_sym('}'):
            if self.is_sym('..'):
                self.p += 1; e = self.expr(True); sp = False
                if self.is_sym('..'): self.p += 1; sp = True
                props.append(('single', e, sp, True))
            else:
                e = self.expr(True)
                if self.is_sym(':'):
                    self.p += 1; v = self.expr(); props.append(('pair', e, v))
                else:
                    sp = False
                    if self.is_sym('..'): self.p += 1; sp = True
                    props.append(('single', e, sp, False))
            if self.is_sym(','): self.p += 1
            else: break
        return props

def parse_prog(src):
    toks = lex(src, lazy=True)
    return Parser(toks).prog()

def parse_expr(src):
    """a slot expression of an interpolated string"""
    toks = lex(src, lazy=True)
    p = Parser(toks); e = p.expr()
    if p.peek() is not None: p.fail()
    return e
