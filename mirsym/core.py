# Throwaway prototype: path-wise symbolic interpreter over rustc MIR text (concrete structure, symbolic scalars).
import os, sys, re, json, time, copy
import z3
from . import mirparse as mp

# ---------------------------------------------------------------- values
class Int:
    """scalar integer/char/bool-free. v: python int or z3 BitVecRef"""
    __slots__ = ('w', 's', 'v')
    def __init__(self, w, s, v):
        self.w = w; self.s = s
        if not isinstance(v, int) and z3.is_bv_value(v): v = v.as_long()
        if isinstance(v, int):
            v &= (1 << w) - 1
            if s and v >> (w - 1): v -= 1 << w
        self.v = v
    def sym(self): return not isinstance(self.v, int)
    def z(self): return z3.BitVecVal(self.v, self.w) if isinstance(self.v, int) else self.v
    def __repr__(self): return "%s%d(%s)" % ('i' if self.s else 'u', self.w, self.v)

class Agg:
    __slots__ = ('ty', 'variant', 'fields')
    def __init__(self, ty, variant, fields): self.ty = ty; self.variant = variant; self.fields = fields
    def __repr__(self): return "%s#%s%r" % (self.ty, self.variant, self.fields)

class Ref:      # thin reference to a slot: container (python list) + index
    __slots__ = ('c', 'i')
    def __init__(self, c, i): self.c = c; self.i = i
    def load(self): return self.c[self.i]
    def store(self, v): self.c[self.i] = v
    def __repr__(self): return "&slot"

class Slice:    # fat reference &[T] / &str : backing python list + range
    __slots__ = ('b', 'lo', 'hi', 'is_str')
    def __init__(self, b, lo, hi, is_str=False): self.b = b; self.lo = lo; self.hi = hi; self.is_str = is_str
    def __len__(self): return self.hi - self.lo
    def items(self): return self.b[self.lo:self.hi]
    def __repr__(self): return "&%s[%d..%d]" % ('str' if self.is_str else '', self.lo, self.hi)

class Native:   # heap object implemented natively: kind in {'Vec','String','CharIndices','IntoIter',...}
    __slots__ = ('kind', 'd')
    def __init__(self, kind, **d): self.kind = kind; self.d = d
    def __repr__(self): return "<%s %r>" % (self.kind, self.d)

UNIT = Agg('()', 0, [])
def mk_bool(b): return b  # python bool or z3 BoolRef
def U(w, v): return Int(w, False, v)
def usize(v): return Int(64, False, v)

PAR_SEM = None
def set_parallel(n):
    global PAR_SEM
    import multiprocessing
    PAR_SEM = multiprocessing.Semaphore(n - 1) if n > 1 else None
class Panic(Exception): pass
class PathEnd(Exception): pass
class Unsupported(Exception): pass

INT_TY = {'u8': (8, False), 'u16': (16, False), 'u32': (32, False), 'u64': (64, False), 'u128': (128, False), 'usize': (64, False),
          'i8': (8, True), 'i16': (16, True), 'i32': (32, True), 'i64': (64, True), 'i128': (128, True), 'isize': (64, True), 'char': (32, False)}

ENUMS = {
    'Option': ['None', 'Some'], 'Result': ['Ok', 'Err'], 'ControlFlow': ['Continue', 'Break'],
}

def load_enums_from_source(paths):
    for p in paths:
        src = open(p).read()
        src = re.sub(r'//[^\n]*', '', src)
        for m in re.finditer(r'\benum (\w+)\s*\{', src):
            name = m.group(1); i = m.end(); depth = 1; cur = ''; variants = []
            while depth:
                ch = src[i]
                if ch in '{(': depth += 1
                elif ch in '})': depth -= 1
                if depth == 1 and ch == ',' :
                    variants.append(cur); cur = ''
                elif depth >= 1: cur += ch
                i += 1
            variants.append(cur)
            vs = []
            for v in variants:
                v = re.sub(r'#\[[^\]]*\]', '', v)       # attributes (not nested-bracket safe, fine for prototype)
                mm = re.match(r'\s*(\w+)', v)
                if mm: vs.append(mm.group(1))
            ENUMS[name] = vs

# ---------------------------------------------------------------- machine
class Machine:
    def __init__(self, bodies, allocs):
        self.bodies = bodies; self.allocs = allocs
        self.solver = z3.Solver()
        self.pc = []            # list of z3 constraints (for reporting)
        self.steps = 0; self.step_limit = 2_000_000
        self.nfork = 0
        self.fn_index = {}
        for name in bodies:
            self.fn_index.setdefault(norm_name(name), name)
            if '<impl at ' in name:
                try: cn = canonical_impl_name(name)
                except Exception as e: cn = None
                if cn: self.fn_index.setdefault(cn, name)
        self.result_path = None
        self.statics = {}

    # ---- solver helpers
    def feasible(self, cond):
        t0 = time.time()
        self.solver.push(); self.solver.add(cond)
        r = self.solver.check(); self.solver.pop()
        self.nquery = getattr(self, 'nquery', 0) + 1; self.solver_s = getattr(self, 'solver_s', 0.0) + time.time() - t0
        if r == z3.unknown: raise Unsupported("solver unknown")
        return r == z3.sat
    def assume(self, cond):
        self.solver.add(cond); self.pc.append(cond)
    def branch(self, cond):
        """cond: python bool or z3 Bool. Returns python bool, forking the process if both feasible."""
        if isinstance(cond, bool): return cond
        cond = z3.simplify(cond)
        if z3.is_true(cond): return True
        if z3.is_false(cond): return False
        t = self.feasible(cond); f = self.feasible(z3.Not(cond))
        if t and not f: return True
        if f and not t: return False
        if not t and not f: raise PathEnd("infeasible")
        return self.fork(cond)
    def fork(self, cond):
        md = getattr(self, 'max_dec', None)
        if md is not None and self.nfork >= md:
            # exploration budget of this family reached on this path: follow one side only (an under-approximation, reported as truncated)
            self.truncated = getattr(self, 'truncated', 0) + 1
            self.assume(cond); return True
        self.nfork += 1
        sys.stdout.flush()
        par = PAR_SEM is not None and PAR_SEM.acquire(block=False)
        pid = os.fork()
        if pid == 0:
            self.is_child = True; self.kids = []; self.holds_slot = par
            self.assume(cond); return True
        if par:
            if not hasattr(self, 'kids'): self.kids = []
            self.kids.append(pid)
        else:
            os.waitpid(pid, 0)
        self.assume(z3.Not(cond)); return False
    def finish(self):
        """call at the end of a path: reap parallel children, release slot"""
        for pid in getattr(self, 'kids', []): os.waitpid(pid, 0)
        if getattr(self, 'holds_slot', False): PAR_SEM.release()
    def choose(self, term, values):
        """term: Int symbolic; fork over listed concrete values + 'otherwise' (None)"""
        for v in values:
            if self.branch(term.z() == z3.BitVecVal(v, term.w)): return v
        return None

    def lookup(self, txt):
        if txt in self.bodies: return txt
        nm = norm_name(txt)
        if nm in self.fn_index: return self.fn_index[nm]
        # shorten paths inside <...>
        def short(m): return '<%s as %s>' % (m.group(1).split('::')[-1], m.group(2).split('::')[-1])
        nm2 = re.sub(r'<([\w:]+) as ([\w:]+)>', short, nm)
        if nm2 in self.fn_index: return self.fn_index[nm2]
        segs = nm2.split('::')
        if not nm2.startswith('<'):
            for k in range(1, len(segs)):
                cand = '::'.join(segs[k:])
                if cand in self.fn_index: return self.fn_index[cand]
            # a path printed shorter than it is indexed (e.g. `EOF_CHAR` for `scanner::EOF_CHAR`): unique suffix match
            if re.fullmatch(r'[A-Za-z_][\w:]*', nm2):
                hits = [v for k2, v in self.fn_index.items() if k2.endswith('::' + nm2)]
                if len(set(hits)) == 1: return hits[0]
        return None

    def closure_ncaps(self, cty):
        c = getattr(self, '_ncaps', None)
        if c is None: c = self._ncaps = {}
        if cty in c: return c[cty]
        n = 0
        for name, b in self.bodies.items():
            if '{closure#' in name and ('_1: &%s' % cty in b.header or '_1: %s' % cty in b.header or '_1: &mut %s' % cty in b.header):
                txt = '\n'.join(b.raw) if b.raw is not None else ''
                if b.raw is None: txt = repr(b.blocks)
                for m in re.finditer(r'\(\*?_1\)?\.(\d+): ', txt): n = max(n, int(m.group(1)) + 1)
                for m in re.finditer(r"\('field', (\d+)", txt if b.raw is None else ''): pass
                break
        c[cty] = n
        return n

    # ---- calling
    def call(self, name, args):
        ov = getattr(self, 'overrides', None)
        if ov and name in ov: return ov[name](self, args)
        b = self.bodies[name]
        mp.ensure_parsed(b)
        fr = Frame(b)
        for i, a in enumerate(args): fr.locals[i + 1] = a
        d = self.depth = getattr(self, 'depth', 0) + 1
        if d > getattr(self, 'max_depth', 0): self.max_depth = d
        try:
            return self.run(fr)
        except (Panic, PathEnd, Unsupported): raise
        except RecursionError:
            raise Unsupported("call depth %d exceeds the interpreter's own stack" % d)
        except Exception as e:
            if type(e).__name__ == 'Exit': raise
            if not getattr(e, '_ctx', None):
                e._ctx = True
                raise Unsupported("internal %s: %s in %s at %r" % (type(e).__name__, e, b.name, getattr(self, 'cur_stmt', None)))
            raise
        finally:
            self.depth = d - 1

    def run(self, fr):
        b = fr.body; bb = 0
        while True:
            blk = b.blocks[bb]
            nxt = None
            for st in blk:
                self.steps += 1; self.cur_stmt = st
                if self.steps > self.step_limit: raise Panic("step limit (possible hang)")
                k = st[0]
                if k == 'assign':
                    v = self.rvalue(fr, st[2])
                    self.place_ref(fr, st[1]).store(v)
                elif k == 'nop': pass
                elif k == 'goto': nxt = st[1]
                elif k == 'switch':
                    v = self.operand(fr, st[1])
                    nxt = self.do_switch(v, st[2], st[3])
                elif k == 'call':
                    dest, callee, argops, ret = st[1], st[2], st[3], st[4]
                    args = [self.operand(fr, a) for a in argops]
                    r = self.do_call(callee, args, fr)
                    if ret is None: raise Panic("diverging call returned: " + callee)
                    if dest is not None: self.place_ref(fr, dest).store(r)
                    nxt = ret
                elif k == 'return':
                    return fr.locals[0]
                elif k == 'assert':
                    c = self.operand(fr, st[1])
                    c = as_bool(c)
                    ok = self.branch(c if st[2] else bnot(c))
                    if not ok: raise Panic("assert failed: " + st[3])
                    nxt = st[4]
                elif k == 'drop':
                    self.do_drop(self.place_ref(fr, st[1]).load()); nxt = st[2]
                elif k == 'setdiscr':
                    self.place_ref(fr, st[1]).load().variant = st[2]
                elif k == 'unreachable': raise Panic("reached `unreachable` in " + b.name)
                elif k == 'resume': raise Panic("resume")
                elif k == 'unparsed': raise Unsupported("unparsed MIR: " + st[1])
                else: raise Unsupported(k)
                if nxt is not None: break
            if nxt is None: raise Unsupported("block fell through in " + b.name)
            bb = nxt

    def do_switch(self, v, targets, otherwise):
        if isinstance(v, bool) or (not isinstance(v, (Int, Native, Agg)) and z3.is_bool(v)):
            # bool switch: targets like [(0, bbF)], otherwise bbT
            t = self.branch(v)
            val = 1 if t else 0
            for tv, tb in targets:
                if tv == val: return tb
            return otherwise
        if isinstance(v, Native): raise Unsupported("switch on native %r" % (v,))
        if not v.sym():
            for tv, tb in targets:
                if tv == v.v or (tv & ((1 << v.w) - 1)) == (v.v & ((1 << v.w) - 1)): return tb
            return otherwise
        got = self.choose(v, [tv for tv, _ in targets])
        for tv, tb in targets:
            if tv == got: return tb
        return otherwise

    def do_drop(self, v, depth=0):
        if isinstance(v, Native) and v.kind == 'MutexGuard':
            v.d['mutex'].d['locked'] = False
        elif isinstance(v, Agg) and depth < 4:
            # a guard inside Result / Option / a tuple is released with it
            for f in v.fields:
                if isinstance(f, (Agg, Native)): self.do_drop(f, depth + 1)

    # ---- places
    def place_ref(self, fr, p):
        ref = Ref(fr.locals, p.local)
        for e in p.proj:
            k = e[0]
            if k == 'deref':
                v = ref.load()
                if isinstance(v, Ref): ref = v
                elif isinstance(v, Slice): ref = SliceHolder(v)
                elif isinstance(v, Native) and v.kind in ('Box', 'UninitBox', 'BoxInner'): ref = Ref(v.d['slot'], 0)
                else: raise Unsupported("deref of %r" % (v,))
            elif k == 'field':
                v = ref.load()
                if isinstance(v, Agg): ref = Ref(v.fields, e[1])
                elif isinstance(v, Native) and v.kind in ('Box', 'UninitBox', 'BoxInner'):
                    ref = Ref([Native('BoxInner', slot=v.d['slot'])], 0)
                elif v is None:
                    # uninitialised aggregate being built field-by-field
                    a = Agg('?', 0, [None] * 8); ref.store(a); ref = Ref(a.fields, e[1])
                else: raise Unsupported("field of %r" % (v,))
            elif k == 'downcast':
                pass
            elif k == 'index':
                idx = fr.locals[e[1]]
                ref = self.index_ref(ref, idx)
            elif k == 'cindex':
                if e[2]:
                    n = self._seq_len(ref); ref = self.index_ref(ref, usize(n - e[1]))       # `[-k of n]`: counted from the end
                else: ref = self.index_ref(ref, usize(e[1]))
            elif k == 'subslice':
                n = self._seq_len(ref); lo = e[1]; hi = n - e[2] if e[3] else e[2]
                if isinstance(ref, SliceHolder): s = ref.s; ref = SliceHolder(Slice(s.b, s.lo + lo, s.lo + hi, s.is_str))
                else:
                    v = ref.load()
                    if isinstance(v, Agg): ref = SliceHolder(Slice(v.fields, lo, hi))
                    else: raise Unsupported("subslice of %r" % (v,))
            else: raise Unsupported("proj " + k)
        return ref
    def _seq_len(self, ref):
        if isinstance(ref, SliceHolder): return len(ref.s)
        v = ref.load()
        if isinstance(v, Agg): return len(v.fields)
        raise Unsupported("length of %r" % (v,))
    def index_ref(self, ref, idx):
        if idx.sym(): raise Unsupported("symbolic index")
        if isinstance(ref, SliceHolder):
            s = ref.s
            return Ref(s.b, s.lo + idx.v)
        v = ref.load()
        if isinstance(v, Agg): return Ref(v.fields, idx.v)
        raise Unsupported("index of %r" % (v,))

    # ---- operands / rvalues
    def operand(self, fr, op):
        k = op[0]
        if k == 'copy':
            v = self.place_ref(fr, op[1]).load()
            return vcopy(v)
        if k == 'move':
            return self.place_ref(fr, op[1]).load()
        return self.const(op[1], fr)

    def const(self, txt, fr=None):
        m = re.fullmatch(r'(-?\d+)_([iu](?:8|16|32|64|128|size))', txt)
        if m:
            w, s = INT_TY[m.group(2)]; return Int(w, s, int(m.group(1)))
        m = re.fullmatch(r'(?:core::num::<impl )?([iu](?:8|16|32|64|128|size))>?::(MIN|MAX)', txt)
        if m:
            w, sg = INT_TY[m.group(1)]
            return Int(w, sg, (-(1 << (w-1)) if sg else 0) if m.group(2) == 'MIN' else ((1 << (w-1)) - 1 if sg else (1 << w) - 1))
        if txt == 'true': return True
        if txt == 'false': return False
        if txt == '()': return UNIT
        if txt.startswith("'"):
            return U(32, ord(unescape(txt[1:-1])))
        if txt.startswith('"'):
            bs = [U(8, x) for x in unescape(txt[1:-1]).encode()]
            return Slice(bs, 0, len(bs), True)
        if txt.startswith('b"'):
            bs = [U(8, x) for x in unescape_bytes(txt[2:-1])]
            return Ref([Agg('array', 0, bs)], 0)
        ma = re.match(r'^\{alloc(\d+): &', txt)
        if ma and int(ma.group(1)) in mp.STATIC_ALLOCS:
            # a reference to a `static` item: evaluate its initialiser once
            key = self.lookup(mp.STATIC_ALLOCS[int(ma.group(1))])
            if key is not None and self.bodies[key].kind in ('static', 'const'):
                b = self.bodies[key]
                if b.name not in self.statics:
                    mp.ensure_parsed(b); self.statics[b.name] = self.run(Frame(b))
                return Ref([self.statics[b.name]], 0)
        if txt.startswith('ZeroSized: '):
            t = txt[len('ZeroSized: '):]
            if t.startswith('{closure@'): return Agg(t, 0, [])
            return Native('ZST', name=t)
        # one-line constants (`const NAME: T = const V;`), referenced by a possibly longer path
        if re.fullmatch(r'[A-Za-z_][\w:]*', txt):
            last = txt.split('::')[-1]
            for k2, v2 in mp.SIMPLE_CONSTS.items():
                if k2 == txt or k2.split('::')[-1] == last and (txt.endswith('::' + k2) or k2.endswith('::' + txt) or k2 == last):
                    return self.const(v2, fr)
        # named const / promoted / fn item / ZST
        nm = norm_name(txt)
        key = self.lookup(txt)
        if key is not None:
            b = self.bodies[key]
            if b.kind == 'const' or b.kind == 'static':
                key = b.name
                if key not in self.statics:
                    mp.ensure_parsed(b)
                    self.statics[key] = self.run(Frame(b))
                return self.statics[key]
            return Native('FnItem', name=b.name)
        # a unit variant printed by its bare name (`_1 = PosOverflow;` for std's non-exhaustive enums) or by a path
        if re.fullmatch(r'[A-Za-z_][\w:]*', txt):
            segs = txt.split('::')
            if len(segs) >= 2 and segs[-2] in ENUMS and segs[-1] in ENUMS[segs[-2]]: return Agg(segs[-2], ENUMS[segs[-2]].index(segs[-1]), [])
            owners = [e for e, vs in ENUMS.items() if segs[-1] in vs]
            if len(segs) == 1 and len(owners) == 1 and segs[0][0].isupper(): return Agg(owners[0], ENUMS[owners[0]].index(segs[0]), [])
        return Native('ZST', name=txt)

    def rvalue(self, fr, rv):
        k = rv[0]
        if k == 'use': return self.operand(fr, rv[1])
        if k == 'ref':
            p = rv[1]
            if not p.proj and fr.locals[p.local] is None:
                # a zero-sized local is never assigned in MIR: a capture-less closure (or a fn item) referenced before any use
                ty = fr.body.local_ty.get(p.local, '')
                if ty.startswith('{closure@'): fr.locals[p.local] = Agg(ty, 0, [])
            r = self.place_ref(fr, p)
            if isinstance(r, SliceHolder): return r.s
            return r
        if k == 'binop': return self.binop(rv[1], self.operand(fr, rv[2]), self.operand(fr, rv[3]))
        if k == 'unop':
            a = self.operand(fr, rv[2])
            if rv[1] == 'Not':
                if isinstance(a, Int): return Int(a.w, a.s, ~a.v)
                return bnot(a)
            if rv[1] == 'Neg': return Int(a.w, a.s, -a.v)
            if rv[1] == 'PtrMetadata':
                if isinstance(a, Slice): return usize(len(a))
                raise Unsupported("PtrMetadata of %r" % (a,))
        if k == 'discr':
            v = self.place_ref(fr, rv[1]).load()
            if isinstance(v, Agg):
                if v.ty == 'Ordering': return Int(8, True, v.variant - 1)      # std::cmp::Ordering has the explicit discriminants -1, 0, 1
                return Int(64, True, v.variant)
            raise Unsupported("discriminant of %r" % (v,))
        if k == 'tuple': return Agg('tuple', 0, [self.operand(fr, a) for a in rv[1]])
        if k == 'array': return Agg('array', 0, [self.operand(fr, a) for a in rv[1]])
        if k == 'adt':
            path, args, names = rv[1], rv[2], rv[3]
            ty, variant = resolve_adt(path)
            return Agg(ty, variant, [self.operand(fr, a) for a in args])
        if k == 'closure':
            ops = [a for _, a in rv[2]]
            need = self.closure_ncaps(rv[1])
            if ops and len(ops) < need:
                # rustc's MIR printer zips capture operands with *variable names*, dropping operands when one
                # variable is captured through several disjoint fields; the capture temporaries are consecutive locals
                last = ops[-1]
                assert last[0] in ('move', 'copy') and not last[1].proj
                for j in range(1, need - len(ops) + 1):
                    ops.append((last[0], mp.Place(last[1].local + j, ())))
            return Agg(rv[1], 0, [self.operand(fr, a) for a in ops])
        if k == 'cast':
            v = self.operand(fr, rv[1]); ty = rv[2]; kind = rv[3]
            if isinstance(v, Native) and v.kind == 'BoxInner': return Ref(v.d['slot'], 0)
            if ty in INT_TY:
                w, s = INT_TY[ty]
                if isinstance(v, bool): return Int(w, s, int(v))
                if z3.is_bool(v): return Int(w, s, z3.If(v, z3.BitVecVal(1, w), z3.BitVecVal(0, w)))
                return int_cast(v, w, s)
            if 'Unsize' in kind:
                # &[T; N] -> &[T]; &T -> &dyn Trait / Box<T> -> Box<dyn Trait> keep the value (its concrete type travels with it)
                if isinstance(v, Ref) and ('dyn ' not in ty):
                    a = v.load()
                    if isinstance(a, Agg) and a.ty == 'array': return Slice(a.fields, 0, len(a.fields))
            return v
        raise Unsupported("rvalue " + k)

    def binop(self, op, a, b):
        if isinstance(a, (bool,)) or z3.is_bool(a) if not isinstance(a, Int) else False:
            # bool ops
            if op == 'Eq': return beq(a, b)
            if op == 'Ne': return bnot(beq(a, b))
            if op == 'BitAnd': return band(a, b)
            if op == 'BitOr': return bor(a, b)
            if op == 'BitXor': return bnot(beq(a, b))
            raise Unsupported("bool binop " + op)
        w, s = a.w, a.s
        conc = not a.sym() and not b.sym()
        x, y = (a.v, b.v) if conc else (a.z(), b.z())
        if op in ('Add', 'AddUnchecked'): return Int(w, s, x + y)
        if op in ('Sub', 'SubUnchecked'): return Int(w, s, x - y)
        if op in ('Mul', 'MulUnchecked'): return Int(w, s, x * y)
        if op in ('AddWithOverflow', 'SubWithOverflow', 'MulWithOverflow'):
            f = {'A': lambda p, q: p + q, 'S': lambda p, q: p - q, 'M': lambda p, q: p * q}[op[0]]
            if conc:
                exact = f(a.v, b.v); r = Int(w, s, exact)
                return Agg('tuple', 0, [r, r.v != exact])
            ext = z3.SignExt if s else z3.ZeroExt
            r = f(x, y)
            if op[0] == 'M':
                # z3's built-in multiplication-overflow predicates (a dedicated encoding; the 2w-bit product formulation does not
                # terminate in useful time for w = 64)
                x, y = z3.simplify(x) if not isinstance(x, int) else x, z3.simplify(y) if not isinstance(y, int) else y
                xz = x if not isinstance(x, int) else z3.BitVecVal(x, w); yz = y if not isinstance(y, int) else z3.BitVecVal(y, w)
                no = z3.And(z3.BVMulNoOverflow(xz, yz, s), z3.BVMulNoUnderflow(xz, yz)) if s else z3.BVMulNoOverflow(xz, yz, False)
                return Agg('tuple', 0, [Int(w, s, r), z3.Not(no)])
            ex = f(ext(w, x), ext(w, y))
            return Agg('tuple', 0, [Int(w, s, r), ext(w, r) != ex])
        if op in ('Eq', 'Ne', 'Lt', 'Le', 'Gt', 'Ge'):
            if conc:
                return {'Eq': x == y, 'Ne': x != y, 'Lt': x < y, 'Le': x <= y, 'Gt': x > y, 'Ge': x >= y}[op]
            if op == 'Eq': return x == y
            if op == 'Ne': return x != y
            if s: return {'Lt': x < y, 'Le': x <= y, 'Gt': x > y, 'Ge': x >= y}[op]
            return {'Lt': z3.ULT(x, y), 'Le': z3.ULE(x, y), 'Gt': z3.UGT(x, y), 'Ge': z3.UGE(x, y)}[op]
        if op in ('BitAnd', 'BitOr', 'BitXor'):
            f = {'BitAnd': lambda p, q: p & q, 'BitOr': lambda p, q: p | q, 'BitXor': lambda p, q: p ^ q}[op]
            return Int(w, s, f(x, y))
        if op in ('Div', 'Rem'):
            if conc:
                q = abs(x) // abs(y); q = q if (x < 0) == (y < 0) else -q
                return Int(w, s, q if op == 'Div' else x - q * y)
            if s: return Int(w, s, (x / y) if op == 'Div' else z3.SRem(x, y))
            return Int(w, s, z3.UDiv(x, y) if op == 'Div' else z3.URem(x, y))
        if op in ('Shl', 'Shr'):
            if conc: return Int(w, s, (x << y) if op == 'Shl' else (x >> y))
        raise Unsupported("binop " + op)

    def do_call(self, callee, args, fr):
        if callee.startswith(('copy _', 'move _')):
            f = self.operand(fr, mp.parse_operand(mp.Cur(callee)))
            if not (isinstance(f, Native) and 'name' in f.d):
                # a fn pointer that holds a capture-less closure, a boxed callable ...: the generic call path
                from . import itermodels as _im
                return _im.callf(self, f, list(args))
            name = f.d['name']
            if name.startswith('@native:'):
                return NATIVE_FNS[name[8:]](self, args, callee)
            if name not in self.bodies:
                from . import itermodels as _im
                return _im.callf(self, f, list(args))
            return self.call(name, args)
        nm = norm_name(callee)
        f = MODELS.get(nm)
        if f is not None: return f(self, args, callee)
        for pat, f in MODEL_PATTERNS:
            if pat.search(nm): return f(self, args, callee)
        key = self.lookup(callee)
        if key is not None: return self.call(key, args)
        # dynamic dispatch: `<dyn Trait as Trait>::method(&*boxed, ..)` -- the receiver's concrete type is known at run time
        md = re.match(r'^<dyn (?:[\w:]+::)?(\w+)(?:<.*>)? as .*>::(\w+)$', nm) or re.match(r'^<([A-Z]\w?) as [\w:<>, ]+>::(\w+)$', nm)      # `dyn Trait` or a bare type parameter
        if md and args:
            r0 = args[0]
            while isinstance(r0, Ref): r0 = r0.load()
            while isinstance(r0, Native) and r0.kind in ('Box', 'BoxInner', 'Arc'): r0 = r0.d['slot'][0] if 'slot' in r0.d else r0.d['inner']
            if isinstance(r0, Agg):
                tn = r0.ty.split('::')[-1]
                hits = [n for n, b in self.bodies.items() if n.endswith('::' + md.group(2)) and re.search(r'\(_1: &(?:mut )?(?:\w+::)*' + re.escape(tn) + r'\b', b.header)]
                if len(hits) == 1: return self.call(hits[0], args)
                if not hits:
                    # a method the trait provides itself (default body), not overridden for this type
                    tr = re.sub(r'^<.* as (?:[\w:]+::)?(\w+)(?:<.*>)?>::\w+$', r'\1', nm)
                    dh = [n for n in self.bodies if n == '%s::%s' % (tr, md.group(2)) or n.endswith('::%s::%s' % (tr, md.group(2)))]
                    if len(dh) == 1: return self.call(dh[0], args)
        # a tuple-variant constructor used as a function (`.map(Some)`, `map_or_else(.., Ok)`, `.map(Value::Int)`)
        segs = strip_generics(nm).split('::')
        if len(segs) >= 2 and segs[-2] in ENUMS and segs[-1] in ENUMS[segs[-2]]:
            return Agg(segs[-2], ENUMS[segs[-2]].index(segs[-1]), list(args))
        raise Unsupported("no model for call: %s   [norm: %s]" % (callee, nm))

class SliceHolder:
    def __init__(self, s): self.s = s
    def load(self): return self.s

class Frame:
    __slots__ = ('body', 'locals')
    def __init__(self, body):
        self.body = body
        n = max(body.local_ty) + 1 if body.local_ty else 1
        self.locals = [None] * (n + 1)

def vcopy(v):
    if isinstance(v, Agg): return Agg(v.ty, v.variant, [vcopy(f) for f in v.fields])
    return v

def as_bool(c):
    if isinstance(c, Int): return (c.v != 0) if not c.sym() else (c.v != 0)
    return c
def bnot(a): return (not a) if isinstance(a, bool) else z3.Not(a)
def band(a, b):
    if isinstance(a, bool): return b if a else False
    if isinstance(b, bool): return a if b else False
    return z3.And(a, b)
def bor(a, b):
    if isinstance(a, bool): return True if a else b
    if isinstance(b, bool): return True if b else a
    return z3.Or(a, b)
def beq(a, b):
    if isinstance(a, bool) and isinstance(b, bool): return a == b
    za = z3.BoolVal(a) if isinstance(a, bool) else a
    zb = z3.BoolVal(b) if isinstance(b, bool) else b
    return za == zb

def int_cast(v, w, s):
    if not v.sym(): return Int(w, s, v.v)
    if w == v.w: return Int(w, s, v.v)
    if w < v.w: return Int(w, s, z3.Extract(w - 1, 0, v.v))
    return Int(w, s, (z3.SignExt if v.s else z3.ZeroExt)(w - v.w, v.v))

def unescape(s):
    return bytes(unescape_bytes(s)).decode('utf-8', 'surrogatepass') if '\\' in s else s
def unescape_bytes(s):
    out = []; i = 0
    while i < len(s):
        c = s[i]
        if c == '\\':
            n = s[i+1]
            if n == 'x': out.append(int(s[i+2:i+4], 16)); i += 4; continue
            if n == 'u':
                j = s.index('}', i); out += list(chr(int(s[i+3:j], 16)).encode()); i = j + 1; continue
            out += list({'n': '\n', 'r': '\r', 't': '\t', '0': '\0', '\\': '\\', "'": "'", '"': '"'}[n].encode()); i += 2; continue
        out += list(c.encode()); i += 1
    return out

GEN_RE = re.compile(r'::<')
def strip_generics(s):
    # remove ::<...> turbofish groups and lifetimes
    out = []; i = 0; n = len(s)
    while i < n:
        if s.startswith('::<', i):
            j = mp.scan_balanced(s, i + 3, ['>'])
            # `::<impl T>::method` is a path segment (inherent impl), `f::<impl Trait>` at the end of a path is a generic argument
            if s.startswith('::<impl', i) and s.startswith('::', j + 1): out.append(s[i]); i += 1; continue
            i = j + 1; continue
        out.append(s[i]); i += 1
    return ''.join(out)
LT_RE = re.compile(r"<'[a-z_]+>")
def norm_name(s):
    return LT_RE.sub('', strip_generics(s)).strip()

IMPL_AT = re.compile(r"<impl at ([^:>]+):(\d+):(\d+): (\d+):(\d+)>")
_src_cache = {}
def src_lines(path):
    if path not in _src_cache:
        full = path if os.path.isabs(path) else os.path.join(SRC_ROOT, path)
        _src_cache[path] = open(full).read().split('\n')
    return _src_cache[path]
SRC_ROOT = '/repo'
def canonical_impl_name(name):
    m = IMPL_AT.search(name)
    if not m: return None
    path, l1, c1, l2, c2 = m.group(1), int(m.group(2)), int(m.group(3)), int(m.group(4)), int(m.group(5))
    lines = src_lines(path)
    rest = name[m.end():]           # '::method' (possibly '::method::{closure#0}')
    if l1 == l2: text = lines[l1-1][c1-1:c2-1]
    else: text = lines[l1-1][c1-1:]
    if text.startswith('impl'):
        hdr = ' '.join(lines[l1-1:l1+3]); hdr = hdr[hdr.index('impl'):]
        hdr = hdr.split('{')[0]
        hdr = re.sub(r'^impl\s*(<[^>]*>)?\s*', '', hdr).strip()
        hdr = re.sub(r"<[^<>]*>", '', hdr); hdr = re.sub(r"<[^<>]*>", '', hdr)
        if ' for ' in hdr:
            tr, ty = hdr.split(' for '); return '<%s as %s>%s' % (ty.strip().split('::')[-1], tr.strip().split('::')[-1], rest)
        return hdr.strip().split('::')[-1] + rest
    # derive
    tr = text
    for k in range(l1 - 1, min(len(lines), l1 + 30)):
        mm = re.search(r'\b(?:enum|struct)\s+(\w+)', lines[k])
        if mm: return '<%s as %s>%s' % (mm.group(1), tr, rest)
    return None

def resolve_adt(path):
    p = strip_generics(path)
    segs = p.split('::')
    if len(segs) == 2 and segs[0] == 'Error' and 'MainError' in ENUMS and segs[1] in ENUMS['MainError']:
        return 'MainError', ENUMS['MainError'].index(segs[1])
    if len(segs) >= 2 and segs[-2] in ENUMS and segs[-1] in ENUMS[segs[-2]]:
        return segs[-2], ENUMS[segs[-2]].index(segs[-1])
    if len(segs) == 1:
        # a variant printed by its bare name (std's non-exhaustive enums: `_1 = PosOverflow;`)
        owners = [e for e, vs in ENUMS.items() if segs[0] in vs]
        if len(owners) == 1: return owners[0], ENUMS[owners[0]].index(segs[0])
    return segs[-1], 0

# ---------------------------------------------------------------- std models (lexer subset)
MODELS = {}; MODEL_PATTERNS = []; NATIVE_FNS = {}
def model(*names):
    def d(f):
        for n in names: MODELS[n] = f
        return f
    return d
def model_re(pat):
    def d(f): MODEL_PATTERNS.insert(0, (re.compile(pat), f)); return f
    return d

def some(v): return Agg('Option', 1, [v])
NONE = lambda: Agg('Option', 0, [])
def ok(v): return Agg('Result', 0, [v])
def err(v): return Agg('Result', 1, [v])

@model('core::str::<impl str>::char_indices')
def m_char_indices(M, a, c): return Native('CharIndices', s=a[0], pos=0)
@model('core::str::<impl str>::len', 'String::len')
def m_str_len(M, a, c):
    s = a[0]
    if isinstance(s, Ref): s = s.load()
    if isinstance(s, Native): return usize(len(s.d['b']))
    return usize(len(s))

def decode_char(M, s, pos):
    """decode one UTF-8 scalar from Slice s at byte offset pos (concrete). Forks on width. Returns (char Int, width)"""
    bs = s.b; base = s.lo + pos; avail = len(s) - pos
    b0 = bs[base]
    if not b0.sym():
        v = b0.v
        wdt = 1 if v < 0x80 else 2 if v < 0xE0 else 3 if v < 0xF0 else 4
    else:
        if M.branch(z3.ULT(b0.v, 0x80)): wdt = 1
        elif avail >= 2 and M.branch(z3.ULT(b0.v, 0xE0)): wdt = 2
        elif avail >= 3 and M.branch(z3.ULT(b0.v, 0xF0)): wdt = 3
        elif avail >= 4: wdt = 4
        else: raise PathEnd("invalid utf-8 (excluded by &str invariant)")
    def zx(b): return z3.ZeroExt(24, b.z())
    if wdt == 1:
        return int_cast(b0, 32, False), 1
    conts = [bs[base + k] for k in range(1, wdt)]
    # well-formedness is the type invariant of &str: assume it
    wf = []
    z0 = b0.z()
    for cb in conts: wf.append(z3.And(z3.UGE(cb.z(), 0x80), z3.ULE(cb.z(), 0xBF)))
    if wdt == 2:
        wf.append(z3.UGE(z0, 0xC2)); ch = ((zx(b0) & 0x1F) << 6) | (zx(conts[0]) & 0x3F)
    elif wdt == 3:
        ch = ((zx(b0) & 0x0F) << 12) | ((zx(conts[0]) & 0x3F) << 6) | (zx(conts[1]) & 0x3F)
        wf.append(z3.UGE(ch, 0x800)); wf.append(z3.Or(z3.ULT(ch, 0xD800), z3.UGT(ch, 0xDFFF)))
    else:
        ch = ((zx(b0) & 0x07) << 18) | ((zx(conts[0]) & 0x3F) << 12) | ((zx(conts[1]) & 0x3F) << 6) | (zx(conts[2]) & 0x3F)
        wf.append(z3.ULE(z0, 0xF4)); wf.append(z3.UGE(ch, 0x10000)); wf.append(z3.ULE(ch, 0x10FFFF))
    cond = z3.And(*wf)
    if not M.feasible(cond): raise PathEnd("invalid utf-8")
    M.assume(cond)
    return U(32, z3.simplify(ch)), wdt

@model('<CharIndices as Iterator>::next')
def m_ci_next(M, a, c):
    it = a[0].load(); s = it.d['s']; pos = it.d['pos']
    if pos >= len(s): return NONE()
    ch, w = decode_char(M, s, pos)
    it.d['pos'] = pos + w
    return some(Agg('tuple', 0, [usize(pos), ch]))

@model_re(r'^Option::map$')
def m_opt_map(M, a, c):
    o, f = a
    if o.variant == 0: return NONE()
    return some(call_closure(M, f, [o.fields[0]]))
def call_closure(M, f, args):
    if isinstance(f, Native) and f.kind == 'FnItem': return M.call(f.d['name'], args)
    # closure aggregate: body named '<parent>::{closure#N}' - find by type string
    m = re.match(r'\{closure@(.*)\}', f.ty)
    loc = m.group(1)
    for name, b in M.bodies.items():
        if '{closure#' in name and loc in b.header:
            return M.call(name, [f] + args)
    raise Unsupported("closure body not found for " + f.ty)

def ascii_pred(name):
    def f(M, a, c):
        ch = a[0].load()
        if not ch.sym(): x = ch.v
        z = ch.z()
        def rng(lo, hi): return z3.And(z3.UGE(z, ord(lo)), z3.ULE(z, ord(hi)))
        d = rng('0', '9'); al = z3.Or(rng('a', 'z'), rng('A', 'Z'))
        r = {'is_ascii_digit': d, 'is_ascii_alphabetic': al, 'is_ascii_alphanumeric': z3.Or(d, al),
             'is_ascii_whitespace': z3.Or(z == 0x20, z == 0x09, z == 0x0A, z == 0x0C, z == 0x0D)}[name]
        r = z3.simplify(r)
        if z3.is_true(r): return True
        if z3.is_false(r): return False
        return r
    return f
for _n in ('is_ascii_digit', 'is_ascii_alphabetic', 'is_ascii_alphanumeric', 'is_ascii_whitespace'):
    MODELS['char::methods::<impl char>::' + _n] = ascii_pred(_n)

@model_re(r'^Option::is_some$')
def m_is_some(M, a, c): return a[0].load().variant == 1
@model_re(r'^<Option<.*> as Try>::branch$')
def m_opt_branch(M, a, c):
    o = a[0]
    if o.variant == 1: return Agg('ControlFlow', 0, [o.fields[0]])
    return Agg('ControlFlow', 1, [NONE()])
@model_re(r'^<Option<.*> as FromResidual<Option<Infallible>>>::from_residual$')
def m_opt_fromres(M, a, c): return NONE()

def as_slice(v):
    if isinstance(v, Ref): v = v.load()
    if isinstance(v, Native) and v.kind in ('String', 'Vec'):
        b = v.d['b']; return Slice(b, 0, len(b), v.kind == 'String')
    return v

@model('<str as Index<std::ops::Range<usize>>>::index')
def m_str_index(M, a, c):
    s, r = a; lo, hi = r.fields[0].v, r.fields[1].v
    if not (lo <= hi <= len(s)): raise Panic("str slice out of range %d..%d of %d" % (lo, hi, len(s)))
    # char-boundary check: byte at lo / hi must not be a continuation byte
    for k in (lo, hi):
        if 0 < k < len(s):
            b = s.b[s.lo + k]
            cont = z3.And(z3.UGE(b.z(), 0x80), z3.ULE(b.z(), 0xBF))
            if M.branch(cont): raise Panic("str slice not on char boundary at %d" % k)
    return Slice(s.b, s.lo + lo, s.lo + hi, True)

@model('<str as PartialEq>::eq', '<&str as PartialEq>::eq', '<String as PartialEq<&str>>::eq', '<&String as PartialEq>::eq', '<String as PartialEq>::eq')
def m_str_eq(M, a, c):
    x, y = as_slice(a[0]), as_slice(a[1])
    if isinstance(x, Ref): x = as_slice(x.load())
    if isinstance(y, Ref): y = as_slice(y.load())
    if len(x) != len(y): return False
    r = True
    for p, q in zip(x.items(), y.items()):
        if not p.sym() and not q.sym():
            if p.v != q.v: return False
        else: r = band(r, p.z() == q.z())
    return r

@model('<str as ToString>::to_string', '<String as Clone>::clone')
def m_to_string(M, a, c):
    s = as_slice(a[0]); return Native('String', b=list(s.items()))
@model('<String as Deref>::deref')
def m_string_deref(M, a, c): return as_slice(a[0])
@model('<char as ToString>::to_string')
def m_char_to_string(M, a, c):
    ch = a[0].load() if isinstance(a[0], Ref) else a[0]
    return Native('String', b=encode_char(M, ch))
def encode_char(M, ch):
    if not ch.sym(): return [U(8, x) for x in chr(ch.v).encode()]
    z = ch.z()
    if M.branch(z3.ULT(z, 0x80)): return [int_cast(ch, 8, False)]
    ex = lambda hi, lo: z3.Extract(hi, lo, z)
    c8 = lambda e: U(8, z3.simplify(e))
    if M.branch(z3.ULT(z, 0x800)):
        return [c8(z3.Concat(z3.BitVecVal(0b110, 3), ex(10, 6))), c8(z3.Concat(z3.BitVecVal(0b10, 2), ex(5, 0)))]
    if M.branch(z3.ULT(z, 0x10000)):
        return [c8(z3.Concat(z3.BitVecVal(0b1110, 4), ex(15, 12))), c8(z3.Concat(z3.BitVecVal(0b10, 2), ex(11, 6))), c8(z3.Concat(z3.BitVecVal(0b10, 2), ex(5, 0)))]
    return [c8(z3.Concat(z3.BitVecVal(0b11110, 5), ex(20, 18))), c8(z3.Concat(z3.BitVecVal(0b10, 2), ex(17, 12))), c8(z3.Concat(z3.BitVecVal(0b10, 2), ex(11, 6))), c8(z3.Concat(z3.BitVecVal(0b10, 2), ex(5, 0)))]

@model('std::str::<impl str>::replace')
def m_replace_char(M, a, c):
    s, pat, to = a; out = []
    items = list(as_slice(s).items()); rep = list(as_slice(to).items())
    while isinstance(pat, Ref): pat = pat.load()
    pb = encode_char(M, pat) if isinstance(pat, Int) else list(as_slice(pat).items())
    m = len(pb); i = 0; n = len(items)
    if m == 0: raise Unsupported("str::replace with an empty pattern")
    while i < n:
        r = True
        if i + m <= n:
            for x, y in zip(items[i:i + m], pb): r = band(r, M.binop('Eq', x, y))
        else: r = False
        if M.branch(r): out += rep; i += m
        else: out.append(items[i]); i += 1
    return Native('String', b=out)

@model('core::str::<impl str>::parse')
def m_parse_i64(M, a, c):
    """<str>::parse::<i64>() on digits (an optional sign is handled; the lexer never passes one): 128-bit accumulation"""
    s = as_slice(a[0]); ds = s.items()
    mt = re.search(r'::parse::<([iu](?:8|16|32|64|size))>', c)
    W, SG = INT_TY[mt.group(1)] if mt else (64, True)
    if 'parse::<' in c and not mt: raise Unsupported("str::parse into " + c[-40:])
    if not ds: return err(Agg('ParseIntError', 0, [Agg('IntErrorKind', 0, [])]))
    neg = False
    if len(ds) > 1 and not ds[0].sym() and ds[0].v in (0x2b, 0x2d): neg = ds[0].v == 0x2d; ds = ds[1:]
    if len(ds) > 38: raise Unsupported("integer literal longer than 38 digits")
    acc = None; cacc = 0
    for b in ds:
        isd = z3.And(z3.UGE(b.z(), 0x30), z3.ULE(b.z(), 0x39))
        if not M.branch(isd):
            return err(Agg('ParseIntError', 0, [Agg('IntErrorKind', 1, [])]))
        if acc is None and not b.sym(): cacc = cacc * 10 + (b.v - 0x30); continue
        if acc is None: acc = z3.BitVecVal(cacc, 128)
        acc = acc * 10 + z3.ZeroExt(120, b.z() - 0x30)
    if acc is None:
        v = -cacc if neg else cacc
        hi = ((1 << (W - 1)) - 1) if SG else (1 << W) - 1; lo = -(1 << (W - 1)) if SG else 0
        if v > hi: return err(Agg('ParseIntError', 0, [Agg('IntErrorKind', 2, [])]))
        if v < lo: return err(Agg('ParseIntError', 0, [Agg('IntErrorKind', 3 if SG else 1, [])]))
        return ok(Int(W, SG, v))
    lim = z3.BitVecVal((1 << (W - 1)) if neg else (((1 << (W - 1)) - 1) if SG else (1 << W) - 1), 128)
    if neg and not SG: return err(Agg('ParseIntError', 0, [Agg('IntErrorKind', 1, [])]))
    if M.branch(z3.UGT(acc, lim)):
        return err(Agg('ParseIntError', 0, [Agg('IntErrorKind', 3 if neg else 2, [])]))
    v = z3.Extract(W - 1, 0, acc)
    return ok(Int(W, SG, z3.simplify(-v if neg else v)))
ENUMS['IntErrorKind'] = ['Empty', 'InvalidDigit', 'PosOverflow', 'NegOverflow', 'Zero']
@model('ParseIntError::kind')
def m_pie_kind(M, a, c): return Ref(a[0].load().fields, 0)

@model('core::num::<impl u8>::from_str_radix')
def m_u8_from_str_radix(M, a, c):
    s = as_slice(a[0]); radix = a[1].v; ds = s.items()
    assert radix == 16
    if len(ds) != 1:   # multi-byte char or empty: never a valid single hex digit (sign chars also rejected)
        return err(Agg('ParseIntError', 0, [Agg('IntErrorKind', 1, [])]))
    z = ds[0].z()
    d = z3.And(z3.UGE(z, 0x30), z3.ULE(z, 0x39)); lo = z3.And(z3.UGE(z, 0x61), z3.ULE(z, 0x66)); up = z3.And(z3.UGE(z, 0x41), z3.ULE(z, 0x46))
    if M.branch(d): return ok(U(8, z3.simplify(z - 0x30)))
    if M.branch(lo): return ok(U(8, z3.simplify(z - 0x61 + 10)))
    if M.branch(up): return ok(U(8, z3.simplify(z - 0x41 + 10)))
    return err(Agg('ParseIntError', 0, [Agg('IntErrorKind', 1, [])]))

@model_re(r'^Vec::new$')
def m_vec_new(M, a, c): return Native('Vec', b=[])
@model_re(r'^Vec::push$')
def m_vec_push(M, a, c): a[0].load().d['b'].append(a[1]); return UNIT
@model_re(r'^Vec::len$')
def m_vec_len(M, a, c): return usize(len(a[0].load().d['b']))
@model_re(r'^<Vec<.*> as IntoIterator>::into_iter$')
def m_vec_into_iter(M, a, c): return Native('IntoIter', b=a[0].d['b'], pos=0)
@model_re(r'^<std::vec::IntoIter<char> as Iterator>::collect$')
def m_collect_string(M, a, c):
    out = []
    for ch in a[0].d['b'][a[0].d['pos']:]: out += encode_char(M, ch)
    return Native('String', b=out)
@model_re(r'^<Vec<.*> as Clone>::clone$')
def m_vec_clone(M, a, c): return Native('Vec', b=[vcopy(x) for x in a[0].load().d['b']])
@model_re(r'^<&Vec<.*> as PartialEq>::eq$|^<Vec<.*> as PartialEq>::eq$')
def m_vec_eq(M, a, c): raise Unsupported("vec eq")
@model_re(r'^<&i64 as PartialEq>::eq$')
def m_i64_eq(M, a, c):
    x = a[0].load().load() if isinstance(a[0].load(), Ref) else a[0].load()
    y = a[1].load().load() if isinstance(a[1].load(), Ref) else a[1].load()
    return M.binop('Eq', x, y)

@model('panic_fmt', 'core::panicking::panic_fmt', 'core::panicking::panic', 'std::rt::begin_panic')
def m_panic(M, a, c): raise Panic("explicit panic")

# ---------------------------------------------------------------- harness helpers
def find_fn(M, pat):
    r = [n for n in M.bodies if re.search(pat, n)]
    assert len(r) == 1, (pat, r)
    return r[0]

def find_by_sig(M, last, header_re):
    """the function whose last path segment is `last` and whose header (parameters and return type) matches: independent of file and line"""
    r = [n for n, b in M.bodies.items() if n.endswith('::' + last) and re.search(header_re, b.header)]
    assert len(r) == 1, (last, header_re, r)
    return r[0]
LEXER_NEW_SIG = ('new', r'\(_1: &str\) -> (?:\w+::)*Lexer<')
LEXER_NEXT_SIG = ('next', r'\(_1: &mut (?:\w+::)*Lexer<[^)]*\) -> Option<')

@model_re(r'^<Option<.*> as Clone>::clone$')
def m_opt_clone(M, a, c):
    o = a[0].load()
    if o.variant == 0: return NONE()
    inner = re.match(r'^<Option<(.*)> as Clone>::clone$', norm_name(c)).group(1)
    return some(M.do_call('<%s as Clone>::clone' % inner, [Ref(o.fields, 0)], None))
@model_re(r'^<Vec<\(usize, usize\)> as Clone>::clone$')
def m_vec_clone2(M, a, c): return Native('Vec', b=[vcopy(x) for x in a[0].load().d['b']])

@model_re(r'^<\w+ as PartialEq>::ne$')
def m_default_ne(M, a, c):
    return bnot(M.do_call(norm_name(c)[:-2] + 'eq', a, None))

def deref_all(v):
    while isinstance(v, Ref): v = v.load()
    return v
I64MIN = -(1 << 63)
@model('<&i64 as Rem>::rem')
def m_i64_rem(M, a, c):
    x, y = deref_all(a[0]), deref_all(a[1])
    if M.branch(y.z() == 0): raise Panic("attempt to calculate the remainder with a divisor of zero")
    if M.branch(z3.And(x.z() == z3.BitVecVal(I64MIN, 64), y.z() == z3.BitVecVal(-1, 64))): raise Panic("attempt to calculate the remainder with overflow")
    return Int(64, True, z3.SRem(x.z(), y.z()))
def checked(opn):
    def f(M, a, c):
        x, y = deref_all(a[0]), deref_all(a[1])
        if opn == 'div':
            bad = z3.Or(y.z() == 0, z3.And(x.z() == z3.BitVecVal(I64MIN, 64), y.z() == z3.BitVecVal(-1, 64)))
            if M.branch(bad): return NONE()
            return some(Int(64, True, x.z() / y.z()))
        r = M.binop({'add': 'AddWithOverflow', 'sub': 'SubWithOverflow', 'mul': 'MulWithOverflow'}[opn], x, y)
        if M.branch(r.fields[1]): return NONE()
        return some(r.fields[0])
    return f
for _o in ('add', 'sub', 'mul', 'div'): MODELS['core::num::<impl i64>::checked_' + _o] = checked(_o)
@model_re(r'^Box::new$')
def m_box_new(M, a, c): return Native('Box', slot=[a[0]])
@model_re(r'^<&i64 as PartialOrd>::(lt|le|gt|ge)$')
def m_i64_cmp(M, a, c):
    op = {'lt': 'Lt', 'le': 'Le', 'gt': 'Gt', 'ge': 'Ge'}[norm_name(c)[-2:]]
    return M.binop(op, deref_all(a[0]), deref_all(a[1]))
