# prototype std models for the evaluator (heap containers)
import re, z3, os, itertools
from .core import *
from . import core as ms
from . import mirparse as mp

def V(x):
    x = deref_all(x)
    return x
@model_re(r'^Vec::with_capacity$')
def _(M, a, c): return Native('Vec', b=[])
@model_re(r'^<Vec<.*> as Deref>::deref$|^<Vec<.*> as DerefMut>::deref_mut$')
def _(M, a, c):
    v = V(a[0]); return Slice(v.d['b'], 0, len(v.d['b']))
@model_re(r'^<&Vec<.*> as IntoIterator>::into_iter$|^core::slice::<impl \[.*\]>::iter$')
def _(M, a, c):
    v = V(a[0])
    if isinstance(v, Native): v = Slice(v.d['b'], 0, len(v.d['b']))
    return Native('SliceIter', s=v, pos=0, end=len(v))
@model_re(r'^<std::slice::Iter<.*> as Iterator>::next$')
def _(M, a, c):
    it = V(a[0])
    if it.d['pos'] >= it.d['end']: return NONE()
    s = it.d['s']; i = it.d['pos']; it.d['pos'] += 1
    return some(Ref(s.b, s.lo + i))
@model_re(r'^<std::slice::Iter<.*> as Iterator>::rev$')
def _(M, a, c): return Native('RevIter', inner=a[0])
@model_re(r'^<Rev<.*> as IntoIterator>::into_iter$|^<Enumerate<.*> as IntoIterator>::into_iter$|^<std::ops::Range<usize> as IntoIterator>::into_iter$')
def _(M, a, c): return a[0]
@model_re(r'^<Rev<std::slice::Iter<.*>> as Iterator>::next$')
def _(M, a, c):
    it = V(a[0]).d['inner']
    if it.d['pos'] >= it.d['end']: return NONE()
    it.d['end'] -= 1; s = it.d['s']
    return some(Ref(s.b, s.lo + it.d['end']))
@model_re(r'^<std::vec::IntoIter<.*> as Iterator>::next$')
def _(M, a, c):
    it = V(a[0])
    if it.d['pos'] >= len(it.d['b']): return NONE()
    v = it.d['b'][it.d['pos']]; it.d['pos'] += 1; return some(v)
@model_re(r'^<std::vec::IntoIter<.*> as Iterator>::map$')
def _(M, a, c): return Native('MapIter', inner=a[0], f=a[1])
@model_re(r'^<Map<std::vec::IntoIter<.*>, .*> as Iterator>::collect$')
def _(M, a, c):
    it = a[0]; inner = it.d['inner']; out = []
    for v in inner.d['b'][inner.d['pos']:]: out.append(call_closure(M, it.d['f'], [Agg('tuple', 0, [v])] if False else [v]))
    return Native('Vec', b=out)
@model_re(r'^<Vec<.*> as Clone>::clone$')
def _(M, a, c):
    v = V(a[0]); inner = re.match(r'^<Vec<(.*)> as Clone>::clone$', norm_name(c)).group(1)
    return Native('Vec', b=[clone_val(M, x, inner) for x in v.d['b']])
def clone_val(M, x, ty):
    if isinstance(x, (Int, bool)) or z3.is_expr(x): return x
    return M.do_call('<%s as Clone>::clone' % ty, [Ref([x], 0)], None)
@model_re(r'^<Box<.*> as Clone>::clone$')
def _(M, a, c):
    b = V(a[0]); inner = re.match(r'^<Box<(.*)> as Clone>::clone$', norm_name(c)).group(1)
    return Native('Box', slot=[clone_val(M, b.d['slot'][0], inner)])
@model_re(r'^<\(ast::RawExpr, \(usize, usize\)\) as Clone>::clone$')
def _(M, a, c):
    t = V(a[0]); return Agg('tuple', 0, [clone_val(M, t.fields[0], 'ast::RawExpr'), vcopy(t.fields[1])])
@model_re(r'^<Option<.*> as Clone>::clone$')
def _(M, a, c): return ms.m_opt_clone(M, a, c)
@model('<String as Clone>::clone')
def _(M, a, c): return Native('String', b=list(as_slice(deref_all(a[0])).items()))
@model_re(r'^<Arc<.*> as Clone>::clone$')
def _(M, a, c): return V(a[0])       # same heap identity
@model_re(r'^<Arc<.*> as Deref>::deref$')
def _(M, a, c): return Ref([V(a[0]).d['inner']], 0)
@model_re(r'^Arc::new$')
def _(M, a, c): return Native('Arc', inner=a[0])
@model_re(r'^std::sync::Mutex::new$')
def _(M, a, c): return Native('Mutex', locked=False, slot=[a[0]])
@model_re(r'^std::sync::Mutex::try_lock$')
def _(M, a, c):
    m = V(a[0])
    if m.d['locked']: return err(Agg('TryLockError', 1, []))
    m.d['locked'] = True
    return ok(Native('MutexGuard', mutex=m))
@model_re(r'^std::result::Result::unwrap$')
def _(M, a, c):
    r = a[0]
    if r.variant == 1: raise Panic("called `Result::unwrap()` on an `Err` value")
    return r.fields[0]
@model_re(r'^<std::sync::MutexGuard<.*> as Deref(Mut)?>::deref(_mut)?$')
def _(M, a, c): return Ref(V(a[0]).d['mutex'].d['slot'], 0)
@model_re(r'^HashMap::new$|^HashSet::new$')
def _(M, a, c): return Native('HashMap', m={})
def skey(s):
    k0 = deref_all(s) if isinstance(s, Ref) else s
    if isinstance(k0, Int):
        if k0.sym(): raise Unsupported("symbolic integer map key")
        return ('int', k0.v)
    if isinstance(k0, bool): return ('bool', k0)
    if isinstance(k0, Agg): return ('agg', k0.ty, k0.variant, tuple(skey(f) for f in k0.fields))
    s = as_slice(s)
    if isinstance(s, Ref): s = as_slice(s.load())
    bs = s.items()
    assert all(not b.sym() for b in bs), "symbolic map key"
    return bytes(b.v for b in bs)
@model_re(r'^HashMap::get$|^BTreeMap::get$')
def _(M, a, c):
    m = V(a[0]); k = skey(a[1])
    if k in m.d['m']: return some(Ref(m.d['m'][k], 1))
    return NONE()
@model_re(r'^HashMap::get_mut$|^BTreeMap::get_mut$')
def _(M, a, c):
    m = V(a[0]); k = skey(a[1])
    if k in m.d['m']: return some(Ref(m.d['m'][k], 1))
    return NONE()
@model_re(r'^HashMap::insert$|^BTreeMap::insert$')
def _(M, a, c):
    m = V(a[0]); k = skey(a[1])
    old = m.d['m'].get(k); m.d['m'][k] = [a[1], a[2]]
    return some(old[1]) if old else NONE()
@model_re(r'^HashSet::contains$')
def _(M, a, c): return skey(a[1]) in V(a[0]).d['m']
@model_re(r'^HashSet::insert$')
def _(M, a, c):
    m = V(a[0]); k = skey(a[1]); new = k not in m.d['m']; m.d['m'][k] = [a[1], UNIT]; return new
@model_re(r'^<Result<.*> as Try>::branch$|^<std::result::Result<.*> as Try>::branch$')
def _(M, a, c):
    r = a[0]
    if r.variant == 0: return Agg('ControlFlow', 0, [r.fields[0]])
    return Agg('ControlFlow', 1, [Agg('Result', 1, [r.fields[0]])])
@model_re(r'^<std::result::Result<.*> as FromResidual<.*>>::from_residual$')
def _(M, a, c):
    e = a[0].fields[0]
    # `?` converts the error with `From` when the two error types differ
    m = re.match(r'^<(?:std::result::)?Result<(.*)> as FromResidual<(?:std::result::)?Result<(.*)>>>::from_residual$', norm_name(c))
    if m:
        try:
            dst = split_top(m.group(1))[-1].strip(); src = split_top(m.group(2))[-1].strip()
            if dst != src: e = M.do_call('<%s as From<%s>>::from' % (dst, src), [e], None)
        except Unsupported: raise
        except Exception: pass
    return Agg('Result', 1, [e])
@model_re(r'^<\{closure@.*\} as Fn(Mut|Once)?<.*>>::call(_mut|_once)?$')
def _(M, a, c):
    f = V(a[0]); args = a[1].fields
    return call_closure(M, f, list(args), byref=isinstance(a[0], Ref))
def call_closure(M, f, args, byref=True):
    if not (isinstance(f, Agg) and f.ty.startswith('{closure@')):
        from . import itermodels
        return itermodels.callf(M, f, list(args))
    m = re.match(r'\{closure@(.*)\}', f.ty); locn = m.group(1)
    for name, b in M.bodies.items():
        if '{closure#' in name and ('{closure@%s}' % locn) in b.header:
            return M.call(name, [Ref([f], 0) if byref else f] + args)
    raise Unsupported("closure body not found for " + f.ty)
ms.call_closure = call_closure
@model_re(r'^Vec::new$')
def _(M, a, c): return Native('Vec', b=[])
@model_re(r'^<Vec<.*> as Index<usize>>::index$|^<Vec<.*> as IndexMut<usize>>::index_mut$')
def _(M, a, c):
    v = V(a[0]); i = a[1]; n = len(v.d['b'])
    k = concretize(M, i, n - 1) if n > 0 else None
    if k is None: raise Panic("index out of bounds: the len is %d" % n)
    return Ref(v.d['b'], k)
@model_re(r'^<SourcedValue as Clone>::clone$|^<Value as Clone>::clone$|^<ast::\w+ as Clone>::clone$')
def _(M, a, c):
    key = M.lookup(norm_name(c))
    return M.call(key, a)
@model_re(r'^core::slice::<impl \[.*\]>::last$')
def _(M, a, c):
    s = a[0]
    if len(s) == 0: return NONE()
    return some(Ref(s.b, s.hi - 1))
@model_re(r'^Option::expect$')
def _(M, a, c):
    if a[0].variant == 0: raise Panic("expect on None")
    return a[0].fields[0]
@model_re(r'^Box::new_uninit$')
def _(M, a, c): return Native('UninitBox', slot=[None])
@model_re(r'^std::boxed::box_assume_init_into_vec_unsafe$')
def _(M, a, c):
    arr = a[0].d['slot'][0]
    while isinstance(arr, Agg) and arr.ty != 'array': arr = [f for f in arr.fields if f is not None][0]
    return Native('Vec', b=arr.fields)
@model_re(r'^Option::map$')
def _(M, a, c):
    o, f = a
    if o.variant == 0: return NONE()
    if isinstance(f, Native) and f.kind == 'FnItem': return some(M.call(f.d['name'], [o.fields[0]]))
    return some(call_closure(M, f, [o.fields[0]], byref=False))
@model_re(r'^<fn\(.*\) -> .* as Clone>::clone$')
def _(M, a, c): return V(a[0])
@model_re(r'^Vec::pop$')
def _(M, a, c):
    b = V(a[0]).d['b']
    return some(b.pop()) if b else NONE()
@model_re(r'^Vec::truncate$')
def _(M, a, c):
    b = V(a[0]).d['b']; n = a[1].v
    del b[n:]; return UNIT
@model_re(r'^Vec::insert$')
def _(M, a, c):
    b = V(a[0]).d['b']; b.insert(a[1].v, a[2]); return UNIT
@model_re(r'^Vec::is_empty$')
def _(M, a, c): return len(V(a[0]).d['b']) == 0
@model_re(r'^Option::unwrap$')
def _(M, a, c):
    if a[0].variant == 0: raise Panic("unwrap on None")
    return a[0].fields[0]
@model_re(r'^Option::is_some$')
def _(M, a, c): return V(a[0]).variant == 1
@model_re(r'^Option::is_none$')
def _(M, a, c): return V(a[0]).variant == 0
@model_re(r'^Option::cloned$|^Option::copied$')
def _(M, a, c):
    o = a[0]
    return NONE() if o.variant == 0 else some(vcopy(V(o.fields[0])))
@model_re(r'^Option::unwrap_or_else$')
def _(M, a, c):
    o, f = a
    if o.variant == 1: return o.fields[0]
    return call_closure(M, f, [], byref=False)
@model_re(r'^<std::vec::IntoIter<.*> as Iterator>::rev$')
def _(M, a, c):
    it = a[0]; return Native('IntoIter', b=list(reversed(it.d['b'][it.d['pos']:])), pos=0)
@model_re(r'^<Rev<std::vec::IntoIter<.*>> as Iterator>::collect$|^<std::vec::IntoIter<.*> as Iterator>::collect$')
def _(M, a, c):
    it = a[0]; return Native('Vec', b=it.d['b'][it.d['pos']:])
@model_re(r'^Box::new$')
def _(M, a, c): return Native('Box', slot=[a[0]])
@model_re(r'^<.* as Into<.*>>::into$|^<.* as From<.*>>::from$')
def _(M, a, c):
    x = a[0]
    nm0 = norm_name(c)
    # a `From` impl written in the crate: run it (`Into` is the blanket impl over it)
    m0 = re.match(r'^<(.*) as From<(.*)>>::from$', nm0)
    if m0: dst0, src0 = m0.group(1), m0.group(2)
    else:
        m0 = re.match(r'^<(.*) as Into<(.*)>>::into$', nm0); src0, dst0 = (m0.group(1), m0.group(2)) if m0 else (None, None)
    if dst0 is not None and dst0 != src0:
        short = lambda s: re.sub(r'<.*', '', s).split('::')[-1]
        for name, b in M.bodies.items():
            if name.endswith('::from') and re.search(r'\(_1: (?:\w+::)*' + re.escape(short(src0)) + r'(?:<.*>)?\) -> (?:\w+::)*' + re.escape(short(dst0)) + r'\b', b.header):
                return M.call(name, [x])
    if isinstance(x, Int):
        # lossless integer / char conversions change the width (`i64::from(i32)`, `char::from(u8)`, `u32::from(char)`)
        nm = norm_name(c)
        m = re.match(r'^<(\w+) as From<(\w+)>>::from$', nm); dst = m.group(1) if m else None
        if dst is None:
            m = re.match(r'^<(\w+) as Into<(\w+)>>::into$', nm); dst = m.group(2) if m else None
        if dst in INT_TY:
            w, s = INT_TY[dst]
            return ms.int_cast(x, w, s)
    return x

# ======================================================================= (second prototype file)

# prototype: environment, fmt, map/iterator/string models for the end-to-end pipeline
class Exit(Exception):
    def __init__(self, code): self.code = code
OUT = {'stdout': [], 'stderr': []}
ENV = {'args': [], 'files': {}}
class Dec:
    """element of a rendered string: the decimal rendering of a symbolic integer (opaque; compared term-wise)"""
    __slots__ = ('t',)
    def __init__(self, t): self.t = t
    def sym(self): return True
    def z(self): raise Unsupported("byte-level inspection of the decimal rendering of a symbolic integer")
    def __repr__(self): return "Dec(%s)" % (self.t,)
def elems(x):
    """python bytes/str -> list of concrete u8 elements"""
    return [U(8, b) for b in (x.encode() if isinstance(x, str) else x)]
def pystr(s):
    return Native('String', b=(elems(s) if isinstance(s, (str, bytes)) else list(s)))
def toelems(v):
    s = as_slice(v)
    if isinstance(s, Ref): s = as_slice(deref_all(s))
    return list(s.items())
def tobytes(v):
    es = toelems(v)
    if any(isinstance(e, Dec) or e.sym() for e in es): raise Unsupported("concrete bytes needed (path / key / name) but the string is symbolic")
    return bytes(b.v for b in es)
def flat(parts):
    out = []
    for p in parts: out.extend(p)
    return out
def pieces(els):
    """element list -> comparison pieces: bytes | ('byte', z3 bv8) | ('dec', z3 bv64)"""
    out = []
    for e in els:
        if isinstance(e, Dec): out.append(('dec', e.t))
        elif e.sym(): out.append(('byte', e.v))
        elif out and isinstance(out[-1], bytes): out[-1] += bytes([e.v])
        else: out.append(bytes([e.v]))
    return out

VARIANT_FIELDS = {}   # enum -> variant -> [(field, boxed_source)]
def init(M):
    for path in ():
        src = open(path).read()
        for m in re.finditer(r'(?:#\[snafu\([^\]]*\)\]\s*)*\b(\w+)\s*\{((?:[^{}]|\{[^{}]*\})*)\}\s*,', src):
            pass
    # simple variant field extraction for Error enums
    import glob as _glob
    cands = []
    for path in sorted(_glob.glob(os.path.join(ms.SRC_ROOT, 'src', '**', '*.rs'), recursive=True)):
        if re.search(r'\benum Error\b', re.sub(r'//[^\n]*', '', open(path).read())): cands.append((path, 'MainError' if os.path.basename(path) == 'main.rs' else 'Error'))
    for path, en in cands:
        src = open(path).read(); src = re.sub(r'//[^\n]*', '', src)
        i = src.index('enum Error'); j = src.index('{', i); depth = 1; k = j + 1
        while depth:
            if src[k] == '{': depth += 1
            elif src[k] == '}': depth -= 1
            k += 1
        body = src[j+1:k-1]
        # split variants at depth 0 commas
        parts = []; cur = ''; d = 0
        for ch in body:
            if ch in '{([<': d += 1
            elif ch in '})]>': d -= 1
            if ch == ',' and d == 0: parts.append(cur); cur = ''
            else: cur += ch
        parts.append(cur)
        for p in parts:
            p2 = re.sub(r'#\[snafu\(display[^\]]*\)\]', '', p, flags=re.S)
            m = re.search(r'(\w+)\s*(\{(.*)\})?\s*$', p2.strip(), re.S)
            if not m: continue
            name = m.group(1); fields = []
            if m.group(3):
                fb = m.group(3)
                for fm in re.finditer(r'((?:#\[[^\]]*\]\s*)*)(\w+)\s*:', fb):
                    fields.append((fm.group(2), 'Box::new' in fm.group(1)))
            VARIANT_FIELDS.setdefault(en, {})[name] = fields
    ms.ENUMS['MainError'] = list(VARIANT_FIELDS['MainError'].keys())
    ms.ENUMS['Error'] = list(VARIANT_FIELDS['Error'].keys())

@model_re(r'^<std::result::Result<.*> as ResultExt<.*>>::context$')
def m_context(M, a, c):
    r, sel = a
    if r.variant == 0: return r
    m = re.search(r'::context::<([\w:]+)', c); vname = m.group(1).split('::')[-1]
    en = 'Error' if vname in VARIANT_FIELDS['Error'] else 'MainError'
    fl = VARIANT_FIELDS[en][vname]; selfields = list(sel.fields) if isinstance(sel, Agg) else []
    fields = []
    for fname, boxed in fl:
        if fname == 'source': fields.append(Native('Box', slot=[r.fields[0]]) if boxed else r.fields[0])
        else:
            v = selfields.pop(0)
            if isinstance(v, Slice) and v.is_str: v = Native('String', b=list(v.items()))
            elif isinstance(v, Ref) and isinstance(deref_all(v), Native) and deref_all(v).kind == 'PathBuf': v = deref_all(v)
            fields.append(v)
    return err(Agg(en, ENUMS[en].index(vname), fields))

# ---- env
@model('args', 'std::env::args')
def _(M, a, c): return Native('Args', l=list(ENV['args']))
@model('<Args as Iterator>::next')
def _(M, a, c):
    it = V(a[0])
    return some(pystr(it.d['l'].pop(0))) if it.d['l'] else NONE()
@model_re(r'^Path::new$')
def _(M, a, c): return Native('PathBuf', s=tobytes(a[0]))
@model('current_dir', 'std::env::current_dir')
def _(M, a, c): return ok(Native('PathBuf', s=b'<CWD>'))
@model_re(r'^<PathBuf as Clone>::clone$')
def _(M, a, c): return Native('PathBuf', s=V(a[0]).d['s'])
@model_re(r'^<PathBuf as Deref>::deref$')
def _(M, a, c): return V(a[0])
@model_re(r'^PathBuf::push$')
def _(M, a, c):
    p = V(a[0]); q = V(a[1]); p.d['s'] = p.d['s'] + b'/' + q.d['s']; p.d['rel'] = q.d['s']; return UNIT
def _file_bytes(p):
    p = deref_all(p)
    if isinstance(p, Native) and p.kind in ('PathBuf',): rel = p.d.get('rel', p.d['s']).decode()
    else: rel = bytes(e.v for e in toelems(p)).decode()
    if rel not in ENV['files']: return None
    src = ENV['files'][rel]
    return list(elems(src)) if isinstance(src, bytes) else list(src)
INVALID_UTF8 = 'stream did not contain valid UTF-8'
def _utf8_ok(M, bs):
    """decide (forking on symbolic bytes) whether the byte terms are well-formed UTF-8"""
    if not bs: return True
    if any(b.sym() for b in bs):
        # every check except the one about arbitrary file contents (C03's non-UTF-8 jobs) works under the precondition
        # "the script is UTF-8 text": the symbolic bytes are constrained to well-formed sequences
        if ENV.get('assume_utf8', True): M.assume(utf8_valid_formula(bs)); return True
        return M.branch(utf8_valid_formula(bs))
    try: bytes(b.v for b in bs).decode('utf-8'); return True
    except UnicodeDecodeError: return False
def io_err(msg): return Native('IoError', msg=msg)
@model_re(r'^std::fs::read_to_string$')
def _(M, a, c):
    bs = _file_bytes(a[0])
    if bs is None: return err(io_err('No such file or directory (os error 2)'))
    # documented contract: an error if the content is not valid UTF-8
    if not _utf8_ok(M, bs): return err(io_err(INVALID_UTF8))
    return ok(Native('String', b=bs))
@model_re(r'^std::fs::read$')
def _(M, a, c):
    bs = _file_bytes(a[0])
    return err(io_err('No such file or directory (os error 2)')) if bs is None else ok(Native('Vec', b=bs))
@model_re(r'^(std::fs::)?File::open$')
def _(M, a, c):
    bs = _file_bytes(a[0])
    return err(io_err('No such file or directory (os error 2)')) if bs is None else ok(Native('File', data=bs, pos=0))
@model_re(r'^(std::io::)?BufReader::<.*>::new$|^(std::io::)?BufReader::new$|^(std::io::)?BufReader::<.*>::with_capacity$')
def _(M, a, c): return a[-1]          # buffering is not observable: the reader is the file
def _reader(x):
    x = deref_all(x)
    if not (isinstance(x, Native) and x.kind == 'File'): raise Unsupported("read on %r" % (x,))
    return x
@model_re(r'^<.* as (std::io::)?BufRead>::read_line$|^(std::io::)?BufRead::read_line$')
def _(M, a, c):
    f = _reader(a[0]); s = V(a[1]); d = f.d['data']; i = f.d['pos']; j = i
    while j < len(d):
        j += 1
        if M.branch(M.binop('Eq', d[j - 1], U(8, 10))): break
    chunk = d[i:j]; f.d['pos'] = j
    if not _utf8_ok(M, chunk): return err(io_err(INVALID_UTF8))
    s.d['b'].extend(chunk)
    return ok(usize(len(chunk)))
@model_re(r'^<.* as (std::io::)?BufRead>::lines$|^(std::io::)?BufRead::lines$')
def _(M, a, c):
    f = _reader(a[0])
    from . import itermodels as im
    def nxt():
        d = f.d['data']; i = f.d['pos']
        if i >= len(d): return im.STOP
        j = i; nl = False
        while j < len(d):
            j += 1
            if M.branch(M.binop('Eq', d[j - 1], U(8, 10))): nl = True; break
        f.d['pos'] = j; chunk = d[i:j]
        if not _utf8_ok(M, chunk): return err(io_err(INVALID_UTF8))
        if nl:
            chunk = chunk[:-1]
            if chunk and M.branch(M.binop('Eq', chunk[-1], U(8, 13))): chunk = chunk[:-1]
        return ok(Native('String', b=list(chunk)))
    return im.mk(nxt)
@model_re(r'^<.* as (std::io::)?Read>::(read_to_string|read_to_end)$|^(std::io::)?Read::(read_to_string|read_to_end)$')
def _(M, a, c):
    f = _reader(a[0]); dst = V(a[1]); rest = f.d['data'][f.d['pos']:]; f.d['pos'] = len(f.d['data'])
    if norm_name(c).endswith('read_to_string') and not _utf8_ok(M, rest): return err(io_err(INVALID_UTF8))
    dst.d['b'].extend(rest)
    return ok(usize(len(rest)))
@model_re(r'^Path::to_string_lossy$')
def _(M, a, c): return pystr(V(a[0]).d['s'])
@model('std::io::_print')
def _(M, a, c): OUT['stdout'].append(render_args(M, a[0])); return UNIT
@model('std::io::_eprint')
def _(M, a, c): OUT['stderr'].append(render_args(M, a[0])); return UNIT
@model('exit', 'std::process::exit')
def _(M, a, c): raise Exit(a[0].v)

# ---- fmt
@model_re(r'^core::fmt::rt::Argument::new_(display|debug)$')
def _(M, a, c):
    m = re.search(r'new_(display|debug)::<(.*)>$', c.strip())
    return Native('FmtArg', v=a[0], ty=m.group(2), fk=m.group(1))
ENVDEP = []          # environment-dependent values that reached an output (memory addresses ...): reported by the determinism check
@model_re(r'^core::fmt::rt::Argument::new_pointer$')
def _(M, a, c):
    # `{:p}`: a memory address -- differs from run to run (address-space randomisation, allocation history): a fresh symbolic value
    FORK_CHOICE['n'] += 1
    ENVDEP.append('a memory address is formatted into a string (`{:p}`)')
    return Native('FmtArg', v=Int(64, False, z3.BitVec('addr%d' % FORK_CHOICE['n'], 64)), ty='usize', fk='pointer')
@model_re(r'^Arguments::new$')
def _(M, a, c): return Native('Arguments', tmpl=a[0], args=a[1])
@model_re(r'^Arguments::from_str(_nonconst)?$')
def _(M, a, c): return Native('Arguments', lit=a[0])
def render_args(M, ar):
    if 'lit' in ar.d: return toelems(ar.d['lit'])
    t = deref_all(ar.d['tmpl'])
    tb = bytes(b.v for b in (t.fields if isinstance(t, Agg) else t.items()))
    args = deref_all(ar.d['args']); args = args.fields if isinstance(args, Agg) else args.items()
    out = []; i = 0; nexta = 0
    while i < len(tb):
        b = tb[i]
        if b == 0: break
        if b < 0x80:
            out += elems(tb[i+1:i+1+b]); i += 1 + b; continue
        if b == 0x80:
            n = tb[i+1] | (tb[i+2] << 8); out += elems(tb[i+3:i+3+n]); i += 3 + n; continue
        if b == 0xC0:
            out += render_one(M, args[nexta]); nexta += 1; i += 1; continue
        raise Unsupported("fmt placeholder with options: %r" % tb[i:i+8])
    return out
def render_usize_sym(M, v):
    # a symbolic usize is rendered as the decimal of its value; usize values in this crate come from non-negative i64s or lengths,
    # so the signed reading is the same number whenever the top bit is clear (checked)
    if M.branch(v.z() < 0): raise Unsupported("display of a symbolic usize >= 2^63")
    return [Dec(v.v)]
def render_one(M, fa):
    ty = fa.d['ty']; v = deref_all(fa.d['v']); kind = fa.d['fk']
    base = ty.lstrip('&')
    if kind == 'display':
        if base.startswith('Cow<') and isinstance(v, Agg) and v.fields: v = deref_all(v.fields[0]); return toelems(v)      # Cow::Borrowed(&str) / Cow::Owned(String) built by the crate itself
        if base in ('String', 'str', 'Cow<\'_, str>', 'Cow<\'static, str>'): return toelems(v)
        if base in INT_TY and base != 'char':
            if v.sym():
                if v.w != 64: raise Unsupported("display of symbolic int of width %d" % v.w)
                return [Dec(v.v if v.s else v.v)] if v.s else render_usize_sym(M, v)
            return elems(str(v.v))
        if base == 'bool': return elems('true' if M.branch(v) else 'false')
        if base == 'char': return encode_char(M, v)
        if base in ('eval::error::Error', 'Error'):
            return display_local(M, v, '<Error as std::fmt::Display>::fmt')
        if base in ('Box<eval::error::Error>', 'Box<Error>'):
            return display_local(M, v.d['slot'][0], '<Error as std::fmt::Display>::fmt')
        if base in ('std::io::Error', 'io::Error') and isinstance(v, Native) and v.kind == 'IoError': return elems(v.d['msg'])
        if base in ('FromUtf8Error', 'Utf8Error', 'std::str::Utf8Error', 'core::str::Utf8Error') and isinstance(v, Native):
            # Display of core::str::Utf8Error
            if v.d.get('sym'): raise Unsupported('Display of a Utf8Error over symbolic bytes')
            if v.d.get('error_len') is None: return elems('incomplete utf-8 byte sequence from index %d' % v.d['valid_up_to'])
            return elems('invalid utf-8 sequence of %d bytes from index %d' % (v.d['error_len'], v.d['valid_up_to']))
    elif kind == 'pointer':
        return elems('0x') + [Dec(v.v)]
    else:
        if base == 'Option<String>':
            return elems('None') if v.variant == 0 else elems('Some("') + toelems(v.fields[0]) + elems('")')
        if base == 'Token':
            return display_local(M, v, '<Token as std::fmt::Debug>::fmt')
    if kind == 'debug':
        from . import itermodels as _im
        try: return _im.dbg_value(M, v, ty)
        except Unsupported: pass
    # any other type of the crate with its own (hand-written or derived) impl: run that impl on a Formatter
    tname = re.sub(r'<.*', '', base).split('::')[-1]
    if re.fullmatch(r'\w+', tname):
        body = find_method(M, 'fmt', r'&(?:\w+::)*' + tname + r'(?:<[^,)]*>)?', 'Display' if kind == 'display' else 'Debug')
        if body is not None:
            return run_fmt_body(M, body, v)
    raise Unsupported("fmt of %s (%s)" % (ty, kind))
def run_fmt_body(M, body, v):
    f = Native('Formatter', buf=[])
    mp.ensure_parsed(body)
    fr = ms.Frame(body); fr.locals[1] = Ref([v], 0); fr.locals[2] = Ref([f], 0)
    M.run(fr)
    return flat(f.d['buf'])
def all_bodies(M):
    for b in M.bodies.values(): yield b
    for l in mp.DUPS.values():
        for b in l[1:]: yield b
def find_method(M, method, arg0_re, span_text=None):
    for b in all_bodies(M):
        if not b.name.endswith('>::' + method): continue
        if not re.search(r'\(_1: ' + arg0_re + r'[,)]', b.header): continue
        if span_text is not None:
            m = ms.IMPL_AT.search(b.name)
            lines = ms.src_lines(m.group(1)); l1, c1, c2 = int(m.group(2)), int(m.group(3)), int(m.group(5))
            if span_text not in lines[l1-1][c1-1:c2-1]: continue
        return b
    return None
def display_local(M, v, name):
    f = Native('Formatter', buf=[])
    if 'Error' in name and 'Display' in name:
        body = find_method(M, 'fmt', r'&eval::error::Error', 'Snafu')
    elif 'Token' in name:
        body = find_method(M, 'fmt', r'&Token', 'Debug')
    else: body = None
    if body is None: raise Unsupported("no fmt impl " + name)
    mp.ensure_parsed(body)
    fr = ms.Frame(body); fr.locals[1] = Ref([v], 0); fr.locals[2] = Ref([f], 0)
    M.run(fr)
    return flat(f.d['buf'])
@model_re(r'^Formatter::write_str$')
def _(M, a, c): V(a[0]).d['buf'].append(toelems(a[1])); return ok(UNIT)
@model_re(r'^Formatter::write_fmt$')
def _(M, a, c): V(a[0]).d['buf'].append(render_args(M, a[1])); return ok(UNIT)
@model('format', 'alloc::fmt::format', 'std::fmt::format')
def _(M, a, c): return pystr(render_args(M, a[0]))
@model_re(r'^must_use$')
def _(M, a, c): return a[0]

# ---- strings
@model('<String as AddAssign<&str>>::add_assign')
def _(M, a, c): V(a[0]).d['b'].extend(as_slice(a[1]).items()); return UNIT
@model('String::new')
def _(M, a, c): return Native('String', b=[])
@model('String::is_empty')
def _(M, a, c): return len(as_slice(deref_all(a[0])).items()) == 0
@model('String::into_bytes')
def _(M, a, c): return Native('Vec', b=a[0].d['b'])
def utf8_valid_formula(bs):
    """z3 formula: the (concrete-length) list of u8 terms is well-formed UTF-8"""
    n = len(bs); okk = [None] * (n + 1); okk[n] = z3.BoolVal(True)
    def rng(b, lo, hi): return z3.And(z3.UGE(b, lo), z3.ULE(b, hi))
    z = [b.z() for b in bs]
    for i in range(n - 1, -1, -1):
        alts = [z3.And(z3.ULT(z[i], 0x80), okk[i + 1])]
        if i + 1 < n: alts.append(z3.And(rng(z[i], 0xC2, 0xDF), rng(z[i+1], 0x80, 0xBF), okk[i + 2]))
        if i + 2 < n:
            c2 = rng(z[i+2], 0x80, 0xBF)
            alts.append(z3.And(z[i] == 0xE0, rng(z[i+1], 0xA0, 0xBF), c2, okk[i + 3]))
            alts.append(z3.And(z3.Or(rng(z[i], 0xE1, 0xEC), rng(z[i], 0xEE, 0xEF)), rng(z[i+1], 0x80, 0xBF), c2, okk[i + 3]))
            alts.append(z3.And(z[i] == 0xED, rng(z[i+1], 0x80, 0x9F), c2, okk[i + 3]))
        if i + 3 < n:
            c23 = z3.And(rng(z[i+2], 0x80, 0xBF), rng(z[i+3], 0x80, 0xBF))
            alts.append(z3.And(z[i] == 0xF0, rng(z[i+1], 0x90, 0xBF), c23, okk[i + 4]))
            alts.append(z3.And(rng(z[i], 0xF1, 0xF3), rng(z[i+1], 0x80, 0xBF), c23, okk[i + 4]))
            alts.append(z3.And(z[i] == 0xF4, rng(z[i+1], 0x80, 0x8F), c23, okk[i + 4]))
        okk[i] = z3.Or(*alts)
    return okk[0]
@model('String::from_utf8')
def _(M, a, c):
    bs = a[0].d['b']
    if any(isinstance(b, Dec) for b in bs): raise Unsupported("from_utf8 on a rendered symbolic integer")
    if any(b.sym() for b in bs):
        if M.branch(utf8_valid_formula(bs)): return ok(Native('String', b=bs))
        return err(Native('FromUtf8Error', valid_up_to=None, error_len=None, sym=True))
    try: bytes(b.v for b in bs).decode('utf-8')
    except UnicodeDecodeError as e:
        return err(Native('FromUtf8Error', valid_up_to=e.start, error_len=(None if 'unexpected end' in e.reason else e.end - e.start)))
    return ok(Native('String', b=bs))
@model_re(r'^std::slice::<impl \[String\]>::join$')
def _(M, a, c):
    parts = [toelems(x) for x in a[0].items()]; sep = toelems(a[1]); out = []
    for i, p in enumerate(parts):
        if i: out += sep
        out += p
    return pystr(out)
@model_re(r'^<\[String\] as Index<std::ops::Range<usize>>>::index$')
def _(M, a, c):
    s = a[0]; r = a[1]; return Slice(s.b, s.lo + r.fields[0].v, s.lo + r.fields[1].v)
@model_re(r'^<str as Index<std::ops::RangeFrom<usize>>>::index$')
def _(M, a, c):
    s = a[0]; lo = a[1].fields[0].v
    if lo > len(s): raise Panic("str slice start out of range")
    return Slice(s.b, s.lo + lo, s.hi, True)
@model('std::str::<impl str>::replace')
def _(M, a, c):
    s, pat, to = a; out = []; tob = as_slice(to).items()
    while isinstance(pat, Ref): pat = pat.load()
    if not isinstance(pat, Int):
        # a &str / String pattern: leftmost non-overlapping matches
        pb = list(as_slice(pat).items()); items = list(as_slice(s).items()); m = len(pb); n = len(items); i = 0
        if m == 0: raise Unsupported("str::replace with an empty pattern")
        if any(isinstance(x, Dec) for x in items) and any(0x30 <= y.v <= 0x39 or y.v == 0x2d for y in pb if not y.sym()): raise Unsupported("str::replace: the pattern may match inside a rendered symbolic integer")
        while i < n:
            r = i + m <= n
            if r:
                r = True
                for x, y in zip(items[i:i + m], pb): r = band(r, False if isinstance(x, Dec) else M.binop('Eq', x, y))
            if M.branch(r): out.extend(tob); i += m
            else: out.append(items[i]); i += 1
        return Native('String', b=out)
    for b in as_slice(s).items():
        if isinstance(b, Dec): out.append(b); continue      # digits and '-' never match the (non-digit) pattern
        if M.branch(b.z() == pat.v): out.extend(tob)
        else: out.append(b)
    return Native('String', b=out)
@model_re(r'^<&Vec<u8> as PartialEq>::eq$')
def _(M, a, c): return ms.m_str_eq(M, [deref_all(a[0]), deref_all(a[1])], c)
@model_re(r'^<Vec<u8> as Clone>::clone$')
def _(M, a, c): return Native('Vec', b=list(V(a[0]).d['b']))

# ---- slices / vec
@model_re(r'^std::slice::<impl \[.*\]>::to_vec$')
def _(M, a, c):
    inner = re.search(r'<impl \[(.*)\]>::to_vec', norm_name(c)).group(1)
    return Native('Vec', b=[clone_val(M, x, inner) for x in a[0].items()])
@model_re(r'^<\[.*\] as ToOwned>::to_owned$')
def _(M, a, c):
    inner = re.search(r'^<\[(.*)\] as ToOwned>', norm_name(c)).group(1)
    return Native('Vec', b=[clone_val(M, x, inner) for x in a[0].items()])
@model_re(r'^std::slice::<impl \[Vec<.*>\]>::concat$')
def _(M, a, c):
    inner = re.search(r'<impl \[Vec<(.*)>\]>::concat', norm_name(c)).group(1)
    out = []
    for v in a[0].items(): out += [clone_val(M, x, inner) for x in v.d['b']]
    return Native('Vec', b=out)
@model_re(r'^core::slice::<impl \[.*\]>::get$')
def _(M, a, c):
    s, i = a
    if isinstance(i, Int):
        if M.branch(M.binop('Lt', i, usize(len(s)))):
            if i.sym(): raise Unsupported("symbolic slice index (prototype)")
            return some(Ref(s.b, s.lo + i.v))
        return NONE()
    lo, hi = i.fields[0], i.fields[1]
    if lo.sym() or hi.sym(): raise Unsupported("symbolic range (prototype)")
    if lo.v <= hi.v <= len(s): return some(Slice(s.b, s.lo + lo.v, s.lo + hi.v))
    return NONE()
@model_re(r'^<Vec<.*> as Index<std::ops::RangeFrom<usize>>>::index$')
def _(M, a, c):
    v = V(a[0]); lo = a[1].fields[0].v
    if lo > len(v.d['b']): raise Panic("range start out of bounds")
    return Slice(v.d['b'], lo, len(v.d['b']))
@model_re(r'^<std::slice::Iter<.*> as Iterator>::enumerate$')
def _(M, a, c): return Native('Enumerate', inner=a[0], n=0)
@model_re(r'^<Enumerate<std::slice::Iter<.*>> as Iterator>::next$')
def _(M, a, c):
    e = V(a[0]); it = e.d['inner']
    if it.d['pos'] >= it.d['end']: return NONE()
    s = it.d['s']; i = it.d['pos']; it.d['pos'] += 1; n = e.d['n']; e.d['n'] += 1
    return some(Agg('tuple', 0, [usize(n), Ref(s.b, s.lo + i)]))
@model_re(r'^<std::slice::Iter<.*> as Iterator>::map$|^<std::collections::\w+::Iter<.*> as Iterator>::map$|^<std::ops::Range<i64> as Iterator>::map$')
def _(M, a, c): return Native('MapIter', inner=a[0], f=a[1])
def iter_items(M, it):
    k = it.kind
    if k == 'SliceIter':
        s = it.d['s']; return [Ref(s.b, s.lo + i) for i in range(it.d['pos'], it.d['end'])]
    if k == 'BTreeIter': return it.d['items']
    if k == 'HashIter': return it.d['items']
    if k == 'RangeI64':
        lo, hi = it.d['lo'], it.d['hi']
        if lo.sym() or hi.sym(): raise Unsupported("symbolic range iteration (prototype)")
        return [Int(64, True, x) for x in range(lo.v, hi.v)]
    if k == 'IntoIter': return it.d['b'][it.d['pos']:]
    if k == 'Cloned': return [Native('String', b=list(deref_all(x).d['b'])) for x in iter_items(M, it.d['inner'])]
    raise Unsupported("iter_items " + k)
@model_re(r'^<Map<.*> as Iterator>::collect$')
def _(M, a, c):
    it = a[0]; f = it.d['f']; res = []
    for x in iter_items(M, it.d['inner']):
        if isinstance(f, Native) and f.kind == 'FnItem': res.append(M.call(f.d['name'], [x]))
        else: res.append(call_closure(M, f, [x], byref=True))
    tgt = re.search(r'collect::<(\w+)', c).group(1)
    if tgt == 'Vec': return Native('Vec', b=res)
    if tgt == 'BTreeMap':
        m = {}
        for t in res: m[skey(t.fields[0])] = [t.fields[0], t.fields[1]]
        return Native('BTreeMap', m=m)
    raise Unsupported("collect into " + tgt)
@model_re(r'^<Cloned<.*> as Iterator>::collect$')
def _(M, a, c):
    m = {}
    for s in iter_items(M, a[0]): m[skey(s)] = [s, UNIT]
    return Native('HashMap', m=m)
@model_re(r'^<std::ops::Range<usize> as Iterator>::next$')
def _(M, a, c):
    r = V(a[0]); lo, hi = r.fields
    if lo.v >= hi.v: return NONE()
    r.fields[0] = usize(lo.v + 1); return some(lo)
@model_re(r'^Option::get_or_insert$')
def _(M, a, c):
    o = V(a[0])
    if o.variant == 0: o.variant = 1; o.fields = [a[1]]
    return Ref(o.fields, 0)
@model_re(r'^Option::as_ref$')
def _(M, a, c):
    o = V(a[0]); return NONE() if o.variant == 0 else some(Ref(o.fields, 0))
@model_re(r'^Option::unwrap_or$')
def _(M, a, c): return a[0].fields[0] if a[0].variant == 1 else a[1]

# ---- maps
def sorted_items(m):
    # Ord of the key type: byte strings lexicographically, integers numerically, bools false < true
    return [m[k] for k in sorted(m, key=lambda k: (0, k) if isinstance(k, bytes) else (1, k[1]) if isinstance(k, tuple) and k[0] in ('int', 'bool') else _agg_order(k) if isinstance(k, tuple) and k[0] == 'agg' else (2, repr(k)))]
def _agg_order(k):
    # derived Ord: variant index first, then the fields in order (tuples: fields in order)
    def one(x): return (0, x) if isinstance(x, bytes) else (1, x[1]) if isinstance(x, tuple) and x[0] in ('int', 'bool') else _agg_order(x) if isinstance(x, tuple) and x[0] == 'agg' else (2, repr(x))
    return (3, k[2], tuple(one(f) for f in k[3]))
@model_re(r'^BTreeMap::new$')
def _(M, a, c): return Native('BTreeMap', m={})
@model_re(r'^BTreeMap::len$')
def _(M, a, c): return usize(len(V(a[0]).d['m']))
@model_re(r'^<&BTreeMap<.*> as IntoIterator>::into_iter$|^BTreeMap::iter$')
def _(M, a, c): return Native('BTreeIter', items=[Agg('tuple', 0, [Ref(e, 0), Ref(e, 1)]) for e in sorted_items(V(a[0]).d['m'])], pos=0)
@model_re(r'^<std::collections::btree_map::Iter<.*> as Iterator>::next$')
def _(M, a, c):
    it = V(a[0])
    if it.d['pos'] >= len(it.d['items']): return NONE()
    it.d['pos'] += 1; return some(it.d['items'][it.d['pos'] - 1])
@model_re(r'^BTreeMap::keys$')
def _(M, a, c): return Native('BTreeIter', items=[Ref(e, 0) for e in sorted_items(V(a[0]).d['m'])], pos=0)
@model_re(r'^<std::collections::btree_map::Keys<.*> as Iterator>::cloned$')
def _(M, a, c): return Native('Cloned', inner=a[0])
@model_re(r'^<BTreeMap<.*> as Index<&String>>::index$')
def _(M, a, c):
    m = V(a[0]); k = skey(a[1])
    if k not in m.d['m']: raise Panic("BTreeMap index: key not found")
    return Ref(m.d['m'][k], 1)
@model_re(r'^<BTreeMap<.*> as FromIterator<.*>>::from_iter$')
def _(M, a, c):
    m = {}
    for t in a[0].d['b']: m[skey(t.fields[0])] = [t.fields[0], t.fields[1]]
    return Native('BTreeMap', m=m)
@model_re(r'^HashSet::remove$')
def _(M, a, c): return V(a[0]).d['m'].pop(skey(a[1]), None) is not None
@model_re(r'^HashSet::iter$')
def _(M, a, c): return Native('HashIter', items=[Ref(e, 0) for e in sorted_items(V(a[0]).d['m'])])   # prototype: fixed order (design: demonic)
@model_re(r'^<VecDeque<.*> as From<Vec<.*>>>::from$')
def _(M, a, c): return Native('Vec', b=a[0].d['b'])
@model_re(r'^VecDeque::pop_front$')
def _(M, a, c):
    b = V(a[0]).d['b']; return some(b.pop(0)) if b else NONE()
@model_re(r'^VecDeque::push_back$')
def _(M, a, c): V(a[0]).d['b'].append(a[1]); return UNIT
@model_re(r'^Arc::ptr_eq$')
def _(M, a, c): return V(a[0]) is V(a[1])
@model_re(r'^<&(bool|i64) as PartialEq>::eq$')
def _(M, a, c):
    x, y = deref_all(a[0]), deref_all(a[1])
    if isinstance(x, Int): return M.binop('Eq', x, y)
    return beq(x, y)
@model_re(r'^<&usize as (Add|Sub)(<usize>)?>::(add|sub)$')
def _(M, a, c):
    x, y = deref_all(a[0]), deref_all(a[1]); op = 'Add' if '::add' in c else 'Sub'
    r = M.binop(op + 'WithOverflow', x, y)
    if M.branch(r.fields[1]): raise Panic("attempt to %s with overflow" % op.lower())
    return r.fields[0]

# ---- LR driver (transcription of lalrpop_util::state_machine::Parser::{drive,parse,parse_eof,next_token}; no error recovery)
ENUMS['ParseError'] = ['InvalidToken', 'UnrecognizedEof', 'UnrecognizedToken', 'ExtraToken', 'User']
PH = Native('ZST', name='PhantomData')
def drive(M, P, next_token):
    states = Native('Vec', b=[Int(16, True, 0)]); symbols = Native('Vec', b=[])
    last_location = Agg('tuple', 0, [usize(0), usize(0)])
    eofa = M.const('parser::' + P + '__EOF_ACTION')
    top = lambda: states.d['b'][-1]
    def reduce(idx, la_start):
        return M.call(P + '__reduce', [Int(16, True, idx), la_start, Ref([states], 0), Ref([symbols], 0), PH])
    def expected():
        sl = Slice(states.d['b'], 0, len(states.d['b']))
        return M.call(P + '__expected_tokens_from_states', [sl, PH])
    def perr(name, *fields): return err(Agg('ParseError', ENUMS['ParseError'].index(name), list(fields)))
    while True:
        t = next_token()
        if t is None:
            while True:
                a = eofa.b[eofa.lo + top().v].v
                if a < 0:
                    r = reduce(-(a + 1), NONE())
                    if r.variant == 1: return r.fields[0]
                else:
                    return perr('UnrecognizedEof', vcopy(last_location), expected())
        if t.variant == 1: return perr('User', t.fields[0])
        triple = t.fields[0]
        last_location = vcopy(triple.fields[2])
        ti = M.call(P + '__token_to_integer', [Ref(triple.fields, 1), PH])
        if ti.variant == 0: return perr('UnrecognizedToken', triple, expected())
        idx = ti.fields[0]
        while True:
            a = M.call(P + '__action', [top(), idx]).v
            if a > 0:
                sym = M.call(P + '__token_to_symbol', [idx, triple.fields[1], PH])
                states.d['b'].append(Int(16, True, a - 1)); symbols.d['b'].append(Agg('tuple', 0, [triple.fields[0], sym, triple.fields[2]]))
                break
            elif a < 0:
                r = reduce(-(a + 1), some(Ref(triple.fields, 0)))
                if r.variant == 1:
                    rr = r.fields[0]
                    return perr('ExtraToken', triple) if rr.variant == 0 else rr
            else:
                return perr('UnrecognizedToken', triple, expected())
@model_re(r'^(Prog|Expr)Parser::new$')
def _(M, a, c): return Native('ZST', name='Parser')
@model_re(r'^(Prog|Expr)Parser::parse$')
def _(M, a, c):
    which = re.match(r'^(Prog|Expr)Parser', norm_name(c)).group(1)
    lx = a[1]
    lxref = lx if isinstance(lx, Ref) else Ref([lx], 0)
    LX = ms.find_by_sig(M, *ms.LEXER_NEXT_SIG)
    def next_token():
        r = M.call(LX, [lxref]); return None if r.variant == 0 else r.fields[0]
    r = drive(M, '__parse__%s::' % which, next_token)
    if PARSE_HOOK[0] is not None: PARSE_HOOK[0](M, which, r)
    return r
PARSE_HOOK = [None]
@model_re(r'^<(?!String|&?str|Cow)([\w:]+) as ToString>::to_string$')
def _(M, a, c):
    ty = re.match(r'^<([\w:]+) as ToString>', norm_name(c)).group(1)
    return pystr(render_one(M, Native('FmtArg', v=a[0], ty='&' + ty, fk='display')))
@model('<String as ToString>::to_string')
def _(M, a, c): return Native('String', b=list(V(a[0]).d['b']))
@model_re(r'^Option::or_else$')
def _(M, a, c):
    o, f = a
    if o.variant == 1: return o
    return call_closure(M, f, [], byref=False)
RANGE_MAX = 16
_old_iter_items = iter_items
def iter_items(M, it):
    if isinstance(it, Agg) and it.ty == 'Range':
        lo, hi = it.fields
        if lo.sym() or hi.sym():
            # the number of elements must be decided: fork over lengths 0..RANGE_MAX (longer: inconclusive)
            if M.branch(M.binop('Ge', lo, hi)): return []
            for n in range(1, RANGE_MAX + 1):
                top = M.binop('Add', lo, Int(lo.w, lo.s, n))
                if M.branch(band(M.binop('Eq', top, hi), M.binop('Lt', lo, top))):
                    return [M.binop('Add', lo, Int(lo.w, lo.s, i)) if i else lo for i in range(n)]
            raise Unsupported("symbolic range longer than %d elements" % RANGE_MAX)
        if hi.v - lo.v > 100000: raise Unsupported("range of %d elements" % (hi.v - lo.v))
        return [Int(lo.w, lo.s, x) for x in range(lo.v, hi.v)]
    return _old_iter_items(M, it)
@model_re(r'^Option::unwrap_or_default$')
def _(M, a, c):
    if a[0].variant == 1: return a[0].fields[0]
    if '(usize, usize)' in c: return Agg('tuple', 0, [usize(0), usize(0)])
    m = re.search(r'Option::<(.*)>::unwrap_or_default', c)
    if m:
        from . import itermodels
        ty = m.group(1).strip()
        if ty.startswith('(') and ty.endswith(')'): return Agg('tuple', 0, [itermodels.default_of(M, x) for x in split_top(ty[1:-1])])
        return itermodels.default_of(M, ty)
    raise Unsupported("unwrap_or_default of " + c)
def checked2(opn):
    def f(M, a, c):
        x, y = deref_all(a[0]), deref_all(a[1])
        if opn in ('div', 'rem'):
            bad = bor(M.binop('Eq', y, Int(64, True, 0)), band(M.binop('Eq', x, Int(64, True, -(1 << 63))), M.binop('Eq', y, Int(64, True, -1))))
            if M.branch(bad): return NONE()
            return some(M.binop('Div' if opn == 'div' else 'Rem', x, y))
        r = M.binop({'add': 'AddWithOverflow', 'sub': 'SubWithOverflow', 'mul': 'MulWithOverflow'}[opn], x, y)
        if M.branch(r.fields[1]): return NONE()
        return some(r.fields[0])
    return f
for _o in ('add', 'sub', 'mul', 'div', 'rem'): ms.MODELS['core::num::<impl i64>::checked_' + _o] = checked2(_o)
def rem2(M, a, c):
    x, y = deref_all(a[0]), deref_all(a[1])
    if M.branch(M.binop('Eq', y, Int(64, True, 0))): raise Panic("attempt to calculate the remainder with a divisor of zero")
    if M.branch(band(M.binop('Eq', x, Int(64, True, -(1 << 63))), M.binop('Eq', y, Int(64, True, -1)))): raise Panic("attempt to calculate the remainder with overflow")
    return M.binop('Rem', x, y)
ms.MODELS['<&i64 as Rem>::rem'] = rem2
@model_re(r'^<Box<.*> as Drop>::drop$')
def _(M, a, c): return UNIT
@model_re(r'^Option::map$')
def _(M, a, c):
    o, f = a
    if o.variant == 0: return NONE()
    return some(_callf(M, f, [o.fields[0]]))
def split_top(s):
    parts = []; d = 0; cur = ''
    for i, ch in enumerate(s):
        if ch in '(<[': d += 1
        elif ch in ')]': d -= 1
        elif ch == '>' and s[i-1] != '-': d -= 1
        if ch == ',' and d == 0: parts.append(cur.strip()); cur = ''
        else: cur += ch
    if cur.strip(): parts.append(cur.strip())
    return parts
@model_re(r'^<\(.*\) as Clone>::clone$')
def _(M, a, c):
    t = V(a[0]); inner = re.match(r'^<\((.*)\) as Clone>::clone$', norm_name(c)).group(1)
    tys = split_top(inner)
    return Agg('tuple', 0, [clone_val(M, x, ty) for x, ty in zip(t.fields, tys)])
def clone_val2(M, x, ty):
    if isinstance(x, (Int, bool)) or (not isinstance(x, (Agg, Native, Ref, Slice)) and z3.is_expr(x)): return x
    if isinstance(x, Agg) and x.ty == 'tuple' and ty.startswith('('):
        return Agg('tuple', 0, [clone_val2(M, f, t) for f, t in zip(x.fields, split_top(ty[1:-1]))])
    return M.do_call('<%s as Clone>::clone' % ty, [Ref([x], 0)], None)
clone_val = clone_val2
@model_re(r'^<Enumerate<std::slice::Iter<.*>> as Iterator>::filter_map$')
def _(M, a, c): return Native('FilterMap', inner=a[0], f=a[1])
@model_re(r'^<FilterMap<.*> as Iterator>::collect$')
def _(M, a, c):
    fm = a[0]; e = fm.d['inner']; it = e.d['inner']; s = it.d['s']; out = []
    for n, i in enumerate(range(it.d['pos'], it.d['end'])):
        r = call_closure(M, fm.d['f'], [Agg('tuple', 0, [usize(n), Ref(s.b, s.lo + i)])], byref=True)
        if r.variant == 1: out.append(r.fields[0])
    return Native('Vec', b=out)
@model_re(r'^<Vec<.*> as Extend<.*>>::extend$')
def _(M, a, c):
    v = V(a[0]); src = a[1]
    if isinstance(src, Agg) and src.ty == 'Option':
        if src.variant == 1: v.d['b'].append(src.fields[0])
    elif isinstance(src, Native): v.d['b'].extend(iter_items(M, src))
    else: raise Unsupported("extend from %r" % (src,))
    return UNIT
@model('<&str as ToString>::to_string')
def _(M, a, c): return Native('String', b=list(as_slice(deref_all(a[0])).items()))
@model_re(r'^core::slice::<impl \[.*\]>::is_empty$')
def _(M, a, c): return len(a[0]) == 0
@model_re(r'^core::slice::<impl \[.*\]>::len$')
def _(M, a, c): return usize(len(a[0]))
@model_re(r'^<Rev<std::vec::IntoIter<.*>> as Iterator>::collect$|^<std::vec::IntoIter<.*> as Iterator>::collect$')
def _(M, a, c):
    if 'collect::<String>' in c: return ms.m_collect_string(M, a, c)
    it = a[0]; return Native('Vec', b=it.d['b'][it.d['pos']:])

# symbolic indices / bounds into concrete-length sequences
def concretize(M, v, hi):
    """v: Int (maybe symbolic, unsigned 64). returns python int in [0,hi] or None if v > hi (forks)"""
    if not v.sym(): return v.v if v.v <= hi else None
    if not M.branch(z3.ULE(v.z(), z3.BitVecVal(hi, 64))): return None
    for k in range(hi + 1):
        if M.branch(v.z() == z3.BitVecVal(k, 64)): return k
    raise PathEnd("infeasible")
@model_re(r'^core::slice::<impl \[.*\]>::get$')
def _(M, a, c):
    s, i = a
    n = len(s)
    if isinstance(i, Int):
        k = concretize(M, i, n - 1) if n > 0 else None
        return some(Ref(s.b, s.lo + k)) if k is not None else NONE()
    lo = concretize(M, i.fields[0], n)
    if lo is None: return NONE()
    hi = concretize(M, i.fields[1], n)
    if hi is None or lo > hi: return NONE()
    return some(Slice(s.b, s.lo + lo, s.lo + hi))
_IT = r'(?:[iu](?:8|16|32|64|128|size)|char)'
@model_re(r'^<(' + _IT + r') as TryInto<(' + _IT + r')>>::try_into$|^<(' + _IT + r') as TryFrom<(' + _IT + r')>>::try_from$')
def _(M, a, c):
    """checked integer conversion for every pair of integer types (and u32 -> char): Ok iff the mathematical value fits the target"""
    m = re.match(r'^<(\w+) as (TryInto|TryFrom)<(\w+)>>', norm_name(c))
    src, dst = (m.group(1), m.group(3)) if m.group(2) == 'TryInto' else (m.group(3), m.group(1))
    w, s = INT_TY[dst]; v = a[0]; lo = -(1 << (w - 1)) if s else 0; hi = (1 << (w - 1)) - 1 if s else (1 << w) - 1
    errv = Native('CharTryFromError') if dst == 'char' else Native('TryFromIntError')
    if not v.sym():
        okv = lo <= v.v <= hi and not (dst == 'char' and (v.v > 0x10FFFF or 0xD800 <= v.v <= 0xDFFF))
        return ok(Int(w, s, v.v)) if okv else err(errv)
    W = max(v.w, w) + 1
    wide = (z3.SignExt if v.s else z3.ZeroExt)(W - v.w, v.z())
    fits = z3.And(wide >= z3.BitVecVal(lo, W), wide <= z3.BitVecVal(hi, W))
    if dst == 'char': fits = z3.And(fits, wide <= z3.BitVecVal(0x10FFFF, W), z3.Or(wide < z3.BitVecVal(0xD800, W), wide > z3.BitVecVal(0xDFFF, W)))
    if M.branch(fits): return ok(ms.int_cast(v, w, s))
    return err(errv)

# demonic iteration order for hash containers: fork over permutations (hash seed = symbolic input)
FORK_CHOICE = {'n': 0}
DEMONIC_FULL = 4
def demonic_perm(M, items):
    items = list(items); out = []
    if len(items) > DEMONIC_FULL:
        # more than DEMONIC_FULL! orders: a bounded set of representative orders (each is a possible hash order, so a difference found
        # is real; agreement on these is a bounded claim): identity, reverse, two rotations, odd-even interleave
        n = len(items)
        cands = [items, items[::-1], items[1:] + items[:1], items[n // 2:] + items[:n // 2], items[1::2] + items[0::2], items[::2][::-1] + items[1::2]]
        FORK_CHOICE['n'] += 1
        sel = z3.BitVec('hashorder%d' % FORK_CHOICE['n'], 8)
        M.assume(z3.ULT(sel, len(cands)))
        for j in range(len(cands)):
            if M.branch(sel == j): return cands[j]
        return cands[0]
    while len(items) > 1:
        # choose which element comes next: a fresh symbolic selector per choice point
        FORK_CHOICE['n'] += 1
        sel = z3.BitVec('hashorder%d' % FORK_CHOICE['n'], 8)
        M.assume(z3.ULT(sel, len(items)))
        k = None
        for j in range(len(items)):
            if M.branch(sel == j): k = j; break
        out.append(items.pop(k))
    return out + items
@model_re(r'^HashSet::iter$')
def _(M, a, c): return Native('HashIter', items=demonic_perm(M, [Ref(e, 0) for e in sorted_items(V(a[0]).d['m'])]))

# ---- integer method families (the neighbours of what the crate uses today, so that an edit to e.g. wrapping_/saturating_ stays decidable)
def _int_args(a):
    return deref_all(a[0]), (deref_all(a[1]) if len(a) > 1 else None)
def _minmax(x):
    w, s = x.w, x.s
    return (Int(w, s, -(1 << (w - 1)) if s else 0), Int(w, s, (1 << (w - 1)) - 1 if s else (1 << w) - 1))
def _ite(M, c, t, e):
    if isinstance(c, bool): return t if c else e
    return Int(t.w, t.s, z3.If(c, t.z(), e.z()))
def _divrem_bad(M, x, y):
    zero = M.binop('Eq', y, Int(y.w, y.s, 0))
    if not x.s: return zero, False
    mn, _ = _minmax(x)
    return zero, band(M.binop('Eq', x, mn), M.binop('Eq', y, Int(y.w, y.s, -1)))
@model_re(r'^core::num::<impl [iu](8|16|32|64|128|size)>::(checked|wrapping|saturating|overflowing|unchecked|strict)_(add|sub|mul|div|rem)$')
def _(M, a, c):
    m = re.search(r'::(checked|wrapping|saturating|overflowing|unchecked|strict)_(add|sub|mul|div|rem)$', norm_name(c)); mode, opn = m.group(1), m.group(2)
    x, y = _int_args(a)
    mn, mx = _minmax(x)
    if opn in ('div', 'rem'):
        zero, ovf = _divrem_bad(M, x, y)
        if M.branch(zero):
            if mode == 'checked': return NONE()
            raise Panic("attempt to %s" % ('divide by zero' if opn == 'div' else 'calculate the remainder with a divisor of zero'))
        if M.branch(ovf):
            if mode == 'checked': return NONE()
            if mode == 'wrapping': return mn if opn == 'div' else Int(x.w, x.s, 0)
            if mode == 'saturating': return mx if opn == 'div' else Int(x.w, x.s, 0)
            if mode == 'overflowing': return Agg('tuple', 0, [mn if opn == 'div' else Int(x.w, x.s, 0), True])
            raise Panic("attempt to %s with overflow" % ('divide' if opn == 'div' else 'calculate the remainder'))
        r = M.binop('Div' if opn == 'div' else 'Rem', x, y)
        if mode == 'checked': return some(r)
        if mode == 'overflowing': return Agg('tuple', 0, [r, False])
        return r
    t = M.binop({'add': 'AddWithOverflow', 'sub': 'SubWithOverflow', 'mul': 'MulWithOverflow'}[opn], x, y)
    r, o = t.fields
    if mode == 'wrapping': return r
    if mode == 'overflowing': return t
    if mode == 'checked':
        return NONE() if M.branch(o) else some(r)
    if mode in ('unchecked', 'strict'):
        if M.branch(o): raise Panic("attempt to %s with overflow" % opn)
        return r
    # saturating
    if not M.branch(o): return r
    if not x.s: return mx if opn != 'sub' else mn
    if opn == 'add': neg = M.binop('Lt', x, Int(x.w, x.s, 0))
    elif opn == 'sub': neg = M.binop('Lt', x, Int(x.w, x.s, 0))
    else: neg = bnot(beq(M.binop('Lt', x, Int(x.w, x.s, 0)), M.binop('Lt', y, Int(y.w, y.s, 0))))
    return mn if M.branch(neg) else mx
@model_re(r'^core::num::<impl i(8|16|32|64|128|size)>::(rem_euclid|div_euclid|wrapping_rem_euclid|wrapping_div_euclid|checked_rem_euclid|checked_div_euclid|abs|wrapping_abs|checked_abs|wrapping_neg|checked_neg|signum)$')
def _(M, a, c):
    fn = norm_name(c).split('::')[-1]
    x, y = _int_args(a); mn, mx = _minmax(x); zero0 = Int(x.w, x.s, 0)
    if fn.endswith('_euclid') and fn.startswith(('wrapping_', 'checked_')):
        kind, base = fn.split('_', 1)
        zero, ovf = _divrem_bad(M, x, y)
        if M.branch(zero):
            if kind == 'checked': return NONE()
            raise Panic("attempt to divide by zero (euclid)")
        if M.branch(ovf):
            if kind == 'checked': return NONE()
            return zero0 if base == 'rem_euclid' else mn          # MIN / -1 wraps
        r0 = M.do_call('core::num::<impl i%d>::%s' % (x.w, base), [x, y], None)
        return some(r0) if kind == 'checked' else r0
    if fn in ('rem_euclid', 'div_euclid'):
        zero, ovf = _divrem_bad(M, x, y)
        if M.branch(zero): raise Panic("attempt to divide by zero (euclid)")
        if M.branch(ovf): raise Panic("attempt to divide with overflow (euclid)")
        q = M.binop('Div', x, y); r = M.binop('Rem', x, y)
        if not M.branch(M.binop('Lt', r, zero0)): return r if fn == 'rem_euclid' else q
        ypos = M.branch(M.binop('Gt', y, zero0))
        if fn == 'rem_euclid': return M.binop('Add', r, y) if ypos else M.binop('Sub', r, y)
        return M.binop('Sub', q, Int(x.w, x.s, 1)) if ypos else M.binop('Add', q, Int(x.w, x.s, 1))
    ismin = M.binop('Eq', x, mn)
    if fn in ('abs', 'wrapping_abs', 'checked_abs'):
        if M.branch(ismin):
            if fn == 'abs': raise Panic("attempt to negate with overflow")
            return mn if fn == 'wrapping_abs' else NONE()
        r = Int(x.w, x.s, -x.v) if M.branch(M.binop('Lt', x, zero0)) else x
        return some(r) if fn == 'checked_abs' else r
    if fn in ('wrapping_neg', 'checked_neg'):
        if M.branch(ismin): return mn if fn == 'wrapping_neg' else NONE()
        r = Int(x.w, x.s, -x.v); return r if fn == 'wrapping_neg' else some(r)
    if fn == 'signum':
        if M.branch(M.binop('Lt', x, zero0)): return Int(x.w, x.s, -1)
        return zero0 if M.branch(M.binop('Eq', x, zero0)) else Int(x.w, x.s, 1)
    raise Unsupported(fn)
@model_re(r'^<&?[iu](8|16|32|64|size) as (Add|Sub|Mul|Div|Rem)(<&?[iu](8|16|32|64|size)>)?>::(add|sub|mul|div|rem)$')
def _(M, a, c):
    opn = norm_name(c).split('::')[-1]
    x, y = _int_args(a)
    if opn in ('div', 'rem'):
        zero, ovf = _divrem_bad(M, x, y)
        if M.branch(zero): raise Panic("attempt to %s" % ('divide by zero' if opn == 'div' else 'calculate the remainder with a divisor of zero'))
        if M.branch(ovf): raise Panic("attempt to %s with overflow" % ('divide' if opn == 'div' else 'calculate the remainder'))
        return M.binop('Div' if opn == 'div' else 'Rem', x, y)
    t = M.binop({'add': 'AddWithOverflow', 'sub': 'SubWithOverflow', 'mul': 'MulWithOverflow'}[opn], x, y)
    if M.branch(t.fields[1]): raise Panic("attempt to %s with overflow" % {'add': 'add', 'sub': 'subtract', 'mul': 'multiply'}[opn])
    return t.fields[0]
@model_re(r'^<&?[iu](8|16|32|64|size) as Partial(Ord|Eq)(<&?[iu](8|16|32|64|size)>)?>::(lt|le|gt|ge|eq|ne)$')
def _(M, a, c):
    op = {'lt': 'Lt', 'le': 'Le', 'gt': 'Gt', 'ge': 'Ge', 'eq': 'Eq', 'ne': 'Ne'}[norm_name(c).split('::')[-1]]
    return M.binop(op, deref_all(a[0]), deref_all(a[1]))
@model_re(r'^<[iu](8|16|32|64|size) as Ord>::(max|min)$|^std::cmp::(max|min)$')
def _(M, a, c):
    fn = norm_name(c).split('::')[-1]; x, y = deref_all(a[0]), deref_all(a[1])
    if not isinstance(x, Int): raise Unsupported("min/max of non-integers")
    ge = M.branch(M.binop('Ge', x, y))
    return (x if ge else y) if fn == 'max' else (y if ge else x)

@model_re(r'^<BTreeMap<.*> as Clone>::clone$|^<HashMap<.*> as Clone>::clone$')
def _(M, a, c):
    m = V(a[0]); inner = re.match(r'^<(?:BTreeMap|HashMap)<(.*)> as Clone>::clone$', norm_name(c)).group(1)
    kt, vt = split_top(inner)[:2]
    return Native(m.kind, m={k: [clone_val(M, e[0], kt), clone_val(M, e[1], vt)] for k, e in m.d['m'].items()})

@model_re(r"^<&*(str|String) as PartialEq(<&*(str|String)>)?>::(eq|ne)$")
def _(M, a, c):
    def sl(v):
        while isinstance(v, Ref): v = v.load()
        return as_slice(v)
    r = ms.m_str_eq(M, [sl(a[0]), sl(a[1])], c)
    return bnot(r) if norm_name(c).endswith('::ne') else r

# ---- Result / Option combinators (generic families)
def _callf(M, f, args):
    from . import itermodels
    return itermodels.callf(M, f, args)
@model_re(r'^std::result::Result::(map_err|map|and_then|or_else|unwrap_or_else|unwrap_or|unwrap_or_default|ok|err|is_ok|is_err|expect|expect_err|unwrap_err|ok_or|map_or|map_or_else|as_ref|as_mut|iter|and|or|is_ok_and|is_err_and)$')
def _(M, a, c):
    fn = norm_name(c).split('::')[-1]; r = a[0]
    if fn in ('is_ok', 'is_err', 'as_ref', 'as_mut', 'iter'): r = V(r)
    isok = r.variant == 0; x = r.fields[0]
    if fn == 'map_err': return r if isok else err(_callf(M, a[1], [x]))
    if fn == 'map': return ok(_callf(M, a[1], [x])) if isok else r
    if fn == 'and_then': return _callf(M, a[1], [x]) if isok else r
    if fn == 'or_else': return r if isok else _callf(M, a[1], [x])
    if fn == 'unwrap_or_else': return x if isok else _callf(M, a[1], [x])
    if fn == 'unwrap_or': return x if isok else a[1]
    if fn == 'ok': return some(x) if isok else NONE()
    if fn == 'err': return NONE() if isok else some(x)
    if fn == 'is_ok': return isok
    if fn == 'is_err': return not isok
    if fn == 'expect':
        if not isok: raise Panic("called `Result::expect()` on an `Err` value")
        return x
    if fn in ('expect_err', 'unwrap_err'):
        if isok: raise Panic("called `Result::%s()` on an `Ok` value" % fn)
        return x
    if fn in ('as_ref', 'as_mut'): return Agg('Result', r.variant, [Ref(r.fields, 0)])
    if fn == 'map_or': return _callf(M, a[2], [x]) if isok else a[1]
    if fn == 'map_or_else': return _callf(M, a[2], [x]) if isok else _callf(M, a[1], [x])
    if fn == 'and': return a[1] if isok else r
    if fn == 'or': return r if isok else a[1]
    if fn == 'is_ok_and': return isok and M.branch(_callf(M, a[1], [x]))
    if fn == 'is_err_and': return (not isok) and M.branch(_callf(M, a[1], [x]))
    if fn == 'iter':
        from . import itermodels as _im
        return _im.from_list([Ref(V(a[0]).fields, 0)] if V(a[0]).variant == 0 else [])
    raise Unsupported("Result::" + fn)
@model_re(r'^Option::(and_then|and|or|ok_or|ok_or_else|map_or|map_or_else|filter|take|replace|is_some_and|is_none_or|unwrap_unchecked|as_mut|as_deref|insert|get_or_insert_with|xor|zip|iter)$')
def _(M, a, c):
    fn = norm_name(c).split('::')[-1]; o = a[0]
    if fn in ('take', 'replace', 'as_mut', 'insert', 'get_or_insert_with', 'as_deref'): o = V(o)
    has = o.variant == 1; x = o.fields[0] if has else None
    if fn == 'and_then': return _callf(M, a[1], [x]) if has else NONE()
    if fn == 'or': return o if has else a[1]
    if fn == 'ok_or': return ok(x) if has else err(a[1])
    if fn == 'ok_or_else': return ok(x) if has else err(_callf(M, a[1], []))
    if fn == 'map_or': return _callf(M, a[2], [x]) if has else a[1]
    if fn == 'map_or_else': return _callf(M, a[2], [x]) if has else _callf(M, a[1], [])
    if fn == 'filter':
        if not has: return NONE()
        return o if M.branch(_callf(M, a[1], [Ref(o.fields, 0)])) else NONE()
    if fn == 'take':
        r = Agg('Option', o.variant, list(o.fields)); o.variant = 0; o.fields = []; return r
    if fn == 'replace':
        r = Agg('Option', o.variant, list(o.fields)); o.variant = 1; o.fields = [a[1]]; return r
    if fn == 'insert': o.variant = 1; o.fields = [a[1]]; return Ref(o.fields, 0)
    if fn == 'get_or_insert_with':
        if not has: o.variant = 1; o.fields = [_callf(M, a[1], [])]
        return Ref(o.fields, 0)
    if fn == 'is_some_and': return has and M.branch(_callf(M, a[1], [x]))
    if fn == 'is_none_or': return (not has) or M.branch(_callf(M, a[1], [x]))
    if fn == 'as_mut': return some(Ref(o.fields, 0)) if has else NONE()
    if fn == 'unwrap_unchecked': return x
    if fn == 'and': return a[1] if has else NONE()
    if fn == 'xor':
        y = a[1]; hy = y.variant == 1
        return o if (has and not hy) else (y if (hy and not has) else NONE())
    if fn == 'zip':
        y = a[1]
        return some(Agg('tuple', 0, [x, y.fields[0]])) if (has and y.variant == 1) else NONE()
    if fn == 'as_deref':
        # Option<String> / Option<Vec<T>> / Option<Box<T>> -> Option<&str / &[T] / &T>
        if not has: return NONE()
        if isinstance(x, Native) and x.kind in ('String', 'Vec'): return some(Slice(x.d['b'], 0, len(x.d['b']), x.kind == 'String'))
        if isinstance(x, Native) and x.kind == 'Box': return some(Ref(x.d['slot'], 0))
        return some(Ref(o.fields, 0))
    raise Unsupported("Option::" + fn)
