# Build artefacts derived from /repo's *current working tree*: the MIR dump (nightly) and the native binary.
# Both are cached under CACHE keyed by a hash of the sources, so the 20 checks of one run pay once, and any
# edit to /repo produces a new dump / binary.
import hashlib, os, subprocess, sys, glob, shutil, time, fcntl

REPO = os.environ.get('VERIF_REPO', '/repo')
CACHE = os.environ.get('VERIF_CACHE', '/var/tmp/seed-verif')
ENV = dict(os.environ, CARGO_NET_OFFLINE='true')

def src_files():
    fs = []
    for pat in ('src/**/*.rs', 'src/**/*.lalrpop', 'build.rs', 'Cargo.toml', 'Cargo.lock'):
        fs += glob.glob(os.path.join(REPO, pat), recursive=True)
    return sorted(set(fs))

def src_hash():
    h = hashlib.sha256()
    for f in src_files():
        h.update(f.encode()); h.update(b'\0'); h.update(open(f, 'rb').read()); h.update(b'\0')
    return h.hexdigest()[:16]

class Lock:
    def __init__(self, name):
        os.makedirs(CACHE, exist_ok=True)
        self.path = os.path.join(CACHE, name + '.lock')
    def __enter__(self):
        self.f = open(self.path, 'w'); fcntl.flock(self.f, fcntl.LOCK_EX); return self
    def __exit__(self, *a):
        fcntl.flock(self.f, fcntl.LOCK_UN); self.f.close()

def _prune(prefix, keep, n_keep=6):
    """bound the cache: keep the newest few entries (another check may be running on a different tree right now)"""
    fs = [f for f in glob.glob(os.path.join(CACHE, prefix + '*')) if f != keep and not f.endswith('.lock') and '.tmp' not in f]
    def mt(f):
        try: return os.path.getmtime(f)
        except OSError: return 0
    fs.sort(key=mt, reverse=True)
    now = time.time()
    for f in fs[n_keep:]:
        if now - mt(f) < 3 * 3600: continue          # recent: may belong to a check that is still running
        try: os.remove(f)
        except OSError: pass

def mir_dump():
    """returns (path, seconds, cached)"""
    h = src_hash()
    out = os.path.join(CACHE, 'seed-%s.mir' % h)
    with Lock('mir'):
        if os.path.exists(out) and os.path.getsize(out) > 1000000 and os.path.exists(os.path.join(CACHE, 'parser-%s.rs' % h)):
            for f in (out, os.path.join(CACHE, 'parser-%s.rs' % h)):
                try: os.utime(f, None)          # (in use: keeps it out of the pruning)
                except OSError: pass
            return out, 0.0, True
        t0 = time.time()
        tgt = os.path.join(CACHE, 'mir-target')
        for attempt in range(2):
            cmd = ['cargo', '+nightly', 'rustc', '--offline', '--bin', 'seed', '--target-dir', tgt, '--',
                   '-Zunpretty=mir', '-C', 'debug-assertions=off', '-C', 'overflow-checks=on']
            p = subprocess.run(cmd, cwd=REPO, env=ENV, stdout=subprocess.PIPE, stderr=subprocess.PIPE)
            if p.returncode != 0:
                sys.stderr.write(p.stderr.decode('utf-8', 'replace')[-4000:])
                raise BuildError('MIR dump failed (cargo exit %d)' % p.returncode)
            if len(p.stdout) > 1000000: break
            # cargo considered the crate fresh and printed nothing: drop its fingerprint and retry
            for d in glob.glob(os.path.join(tgt, 'debug', '.fingerprint', 'seed-*')): shutil.rmtree(d, ignore_errors=True)
        else:
            raise BuildError('MIR dump empty')
        # the generated parser of exactly this tree, kept beside the dump (the shared target dir is overwritten by the next build)
        c = sorted(glob.glob(os.path.join(tgt, 'debug', 'build', 'seed-*', 'out', 'parser.rs')), key=os.path.getmtime)
        if c:
            ptmp = os.path.join(CACHE, 'parser-%s.rs.tmp%d' % (h, os.getpid())); shutil.copy2(c[-1], ptmp); os.rename(ptmp, os.path.join(CACHE, 'parser-%s.rs' % h))
        tmp = out + '.tmp%d' % os.getpid()
        open(tmp, 'wb').write(p.stdout); os.rename(tmp, out)
        _prune('seed-', out); _prune('parser-', os.path.join(CACHE, 'parser-%s.rs' % h))
        return out, time.time() - t0, False

def parser_rs():
    """path of the LALRPOP-generated parser.rs for the current grammar (produced by build.rs during mir_dump())"""
    own = os.path.join(CACHE, 'parser-%s.rs' % src_hash())
    if os.path.exists(own): return own
    mir_dump()
    if os.path.exists(own): return own
    tgt = os.path.join(CACHE, 'mir-target')
    c = sorted(glob.glob(os.path.join(tgt, 'debug', 'build', 'seed-*', 'out', 'parser.rs')), key=os.path.getmtime)
    if not c: raise BuildError('generated parser.rs not found')
    return c[-1]

def native_bin():
    """returns (path, seconds, cached): dev-profile binary (the profile the test-suite uses)"""
    h = src_hash()
    out = os.path.join(CACHE, 'seedbin-%s' % h)
    with Lock('native'):
        if os.path.exists(out):
            try: os.utime(out, None)
            except OSError: pass
            return out, 0.0, True
        t0 = time.time()
        tgt = os.path.join(CACHE, 'native-target')
        p = subprocess.run(['cargo', 'build', '--offline', '--locked', '--bin', 'seed', '--target-dir', tgt], cwd=REPO, env=ENV,
                           stdout=subprocess.PIPE, stderr=subprocess.PIPE)
        if p.returncode != 0:
            sys.stderr.write(p.stderr.decode('utf-8', 'replace')[-4000:])
            raise BuildError('native build failed (cargo exit %d)' % p.returncode)
        tmp = out + '.tmp%d' % os.getpid()
        shutil.copy2(os.path.join(tgt, 'debug', 'seed'), tmp); os.rename(tmp, out)
        _prune('seedbin-', out)
        return out, time.time() - t0, False

class BuildError(Exception): pass

if __name__ == '__main__':
    print(mir_dump()); print(native_bin())
