# Script templates with holes.  A template is Seed source text in which `@h<k>@` marks an integer hole and `@b<k>@` a boolean
# hole.  For the symbolic run the holes are written as fixed-width placeholder literals (an integer literal 770000+k padded with
# `_` digit separators; an identifier HBkk__), the real front end lexes and parses that text inside mirsym, and the placeholders
# are then replaced *in the parsed AST* by solver variables.  For a replay the same template is instantiated with the witness
# values, padded to the same width, so every later token keeps its line and column.
import re
import z3
from .core import Agg, Native, Int, ENUMS

INT_W = 26
MIN64 = -(1 << 63)
HOLE_RE = re.compile(r'@([hb])(\d+)@')

def placeholder_text(tmpl):
    def f(m):
        k = int(m.group(2))
        if m.group(1) == 'h': return ('%d' % (770000 + k)).ljust(INT_W, '_')
        return 'HB%02d__' % k
    return HOLE_RE.sub(f, tmpl)

def render_int(v):
    if v == MIN64: return ('(-9223372036854775807-1').ljust(INT_W - 1) + ')'
    return str(v).ljust(INT_W, '_')

def instantiate(tmpl, values):
    """values: {'h0': int, 'b1': bool, ...} (missing holes default to 0 / false)"""
    def f(m):
        name = m.group(1) + m.group(2)
        if m.group(1) == 'h': return render_int(values.get(name, 0))
        return ('true' if values.get(name, False) else 'false').ljust(6)
    return HOLE_RE.sub(f, tmpl)

def holes_of(tmpl):
    return sorted(set(m.group(1) + m.group(2) for m in HOLE_RE.finditer(tmpl)), key=lambda s: (s[0], int(s[1:])))

def sym_for(M, name):
    if not hasattr(M, 'symvars'): M.symvars = {}
    if name not in M.symvars:
        M.symvars[name] = z3.BitVec(name, 64) if name[0] == 'h' else z3.Bool(name)
    return M.symvars[name]

def substitute(M, v, _seen=None):
    """walk a parsed AST in the mirsym heap and replace placeholder literals by solver variables"""
    if isinstance(v, Agg):
        if v.ty == 'RawExpr':
            kind = ENUMS['RawExpr'][v.variant]
            if kind == 'Int' and isinstance(v.fields[0], Int) and not v.fields[0].sym() and 770000 <= v.fields[0].v < 771000:
                v.fields[0] = Int(64, True, sym_for(M, 'h%d' % (v.fields[0].v - 770000))); return
            if kind == 'Var':
                nm = v.fields[0]
                if isinstance(nm, Native) and nm.kind == 'String' and len(nm.d['b']) == 6:
                    try: txt = bytes(b.v for b in nm.d['b']).decode()
                    except Exception: txt = ''
                    m = re.fullmatch(r'HB(\d\d)__', txt)
                    if m:
                        v.variant = ENUMS['RawExpr'].index('Bool'); v.fields = [sym_for(M, 'b%d' % int(m.group(1)))]; return
        for f in v.fields: substitute(M, f)
    elif isinstance(v, Native):
        if v.kind == 'Vec':
            for x in v.d['b']: substitute(M, x)
        elif v.kind == 'Box':
            for x in v.d['slot']: substitute(M, x)
