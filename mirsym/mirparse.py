# Throwaway prototype: parser for rustc -Zunpretty=mir text (subset).
import re, sys

class Cur:
    def __init__(self, s, i=0):
        self.s = s; self.i = i
    def peek(self, n=1): return self.s[self.i:self.i+n]
    def startswith(self, t): return self.s.startswith(t, self.i)
    def eat(self, t):
        if self.s.startswith(t, self.i):
            self.i += len(t); return True
        return False
    def expect(self, t):
        if not self.eat(t):
            raise SyntaxError("expected %r at %r" % (t, self.s[self.i:self.i+60]))
    def ws(self):
        while self.i < len(self.s) and self.s[self.i] == ' ': self.i += 1
    def eof(self): return self.i >= len(self.s)
    def rest(self): return self.s[self.i:]

OPEN = {'(': ')', '[': ']', '{': '}', '<': '>'}
CLOSE = set(OPEN.values())

def skip_quoted(s, i):
    # s[i] is the opening quote char (' or ")
    q = s[i]; i += 1
    while i < len(s):
        c = s[i]
        if c == '\\': i += 2; continue
        if c == q: return i + 1
        i += 1
    raise SyntaxError("unterminated quote")

def is_char_lit(s, i):
    # distinguish a char literal 'x' / '\n' / '\u{..}' from a lifetime 'a
    if s[i] != "'": return False
    if i + 2 < len(s) and s[i+1] != '\\' and s[i+2] == "'": return True
    if i + 1 < len(s) and s[i+1] == '\\':
        j = s.find("'", i + 2)
        return j != -1 and j - i <= 12
    return False

def scan_balanced(s, i, stops):
    """scan from i until a top-level char in `stops` (or a top-level ' -> '/' as ' when given as strings).
    returns index of stop. Handles nested ()[]{}<> and quotes."""
    depth = []
    n = len(s)
    while i < n:
        c = s[i]
        if c == '"' or (c == "'" and is_char_lit(s, i)):
            i = skip_quoted(s, i); continue
        if c == 'b' and i + 1 < n and s[i+1] == '"' and (i == 0 or not (s[i-1].isalnum() or s[i-1] == '_')):
            i = skip_quoted(s, i + 1); continue
        if not depth:
            for st in stops:
                if s.startswith(st, i) and not (st == '>' and i > 0 and s[i-1] in '-='): return i
        if c in OPEN:
            if c == '<':
                # treat '<' as bracket only in type-ish contexts: heuristic: always, but '->' handled below
                depth.append('>')
            else:
                depth.append(OPEN[c])
        elif c in CLOSE:
            if c == '>' and i > 0 and s[i-1] in '-=':
                pass  # '->' or '=>'
            elif depth and depth[-1] == c:
                depth.pop()
            elif depth and c != '>':
                # mismatched: pop until match
                while depth and depth[-1] != c: depth.pop()
                if depth: depth.pop()
            elif not depth:
                return i
        i += 1
    return i

# ---------------------------------------------------------------- places
class Place:
    __slots__ = ('local', 'proj')
    def __init__(self, local, proj): self.local = local; self.proj = proj
    def __repr__(self): return "P(_%d%s)" % (self.local, ''.join(repr(p) for p in self.proj))

def parse_place(c):
    c.ws()
    if c.eat('('):
        if c.eat('*'):
            p = parse_place(c); c.expect(')')
            p = Place(p.local, p.proj + (('deref',),))
        else:
            p = parse_place(c)
            if c.eat(' as '):
                j = scan_balanced(c.s, c.i, [')'])
                name = c.s[c.i:j]; c.i = j; c.expect(')')
                p = Place(p.local, p.proj + (('downcast', name),))
            elif c.eat('.'):
                m = re.compile(r'\d+').match(c.s, c.i)
                idx = int(m.group()); c.i = m.end()
                c.expect(': ')
                j = scan_balanced(c.s, c.i, [')'])
                ty = c.s[c.i:j]; c.i = j; c.expect(')')
                p = Place(p.local, p.proj + (('field', idx, ty),))
            else:
                raise SyntaxError("bad place at %r" % c.rest()[:60])
    else:
        m = re.compile(r'_(\d+)').match(c.s, c.i)
        if not m: raise SyntaxError("bad place at %r" % c.rest()[:60])
        c.i = m.end()
        p = Place(int(m.group(1)), ())
    while c.peek() == '[':
        j = scan_balanced(c.s, c.i + 1, [']'])
        inner = c.s[c.i+1:j]; c.i = j + 1
        m = re.fullmatch(r'_(\d+)', inner)
        if m: p = Place(p.local, p.proj + (('index', int(m.group(1))),))
        else:
            m = re.fullmatch(r'(-?)(\d+) of (\d+)', inner)
            if m: p = Place(p.local, p.proj + (('cindex', int(m.group(2)), m.group(1) == '-'),))
            else:
                m = re.fullmatch(r'(\d+)(\.\.|:-)(\d+)', inner)
                if m: p = Place(p.local, p.proj + (('subslice', int(m.group(1)), int(m.group(3)), m.group(2) == ':-'),))
                else:
                    m = re.fullmatch(r'(\d*):(-?)(\d*)', inner)       # `[:-1]`, `[1:]`, `[2:-1]`: sub-slices counted from the end
                    if m and (m.group(2) or not m.group(3)): p = Place(p.local, p.proj + (('subslice', int(m.group(1) or 0), int(m.group(3) or 0), True),))
                    else: raise SyntaxError("bad index %r" % inner)
    return p

# ---------------------------------------------------------------- operands
def parse_operand(c):
    c.ws()
    if c.eat('copy '): return ('copy', parse_place(c))
    if c.eat('move '): return ('move', parse_place(c))
    if c.eat('no_retag copy '): return ('copy', parse_place(c))
    if c.eat('no_retag move '): return ('move', parse_place(c))
    if c.eat('const '):
        j = scan_balanced(c.s, c.i, [',', ')', ']', '}', ' as ', ';', ' -> '])
        txt = c.s[c.i:j].strip(); c.i = j
        return ('const', txt)
    # bare function item / path operand (e.g. `new_int`, `builtins::fns::print as fn(..) (..)`)
    m = re.compile(r'[A-Za-z_<][\w:]*').match(c.s, c.i)
    if m and not c.s.startswith(('copy ', 'move '), c.i):
        # a bare function-item path, possibly with `<impl T>` segments and generic arguments: up to the next top-level `,` / `)`
        j = scan_balanced(c.s, c.i, [',', ')'])
        txt = c.s[c.i:j].strip(); c.i = j
        return ('const', txt)
    raise SyntaxError("bad operand at %r" % c.rest()[:80])

BINOPS = {'Add','Sub','Mul','Div','Rem','BitXor','BitAnd','BitOr','Shl','Shr','Eq','Lt','Le','Ne','Ge','Gt','Cmp','Offset',
          'AddWithOverflow','SubWithOverflow','MulWithOverflow','AddUnchecked','SubUnchecked','MulUnchecked','ShlUnchecked','ShrUnchecked'}
UNOPS = {'Not','Neg','PtrMetadata'}

def parse_operand_list(c, close):
    args = []
    c.ws()
    if c.eat(close): return args
    while True:
        args.append(parse_operand(c)); c.ws()
        if c.eat(','):
            c.ws()
            if c.eat(close): return args
            continue
        c.expect(close); return args

def parse_rvalue(txt):
    c = Cur(txt)
    if re.match(r'[a-z_][\w:]* as fn\(', txt):
        return ('use', ('const', txt.split(' as fn(')[0]))
    if c.startswith('copy ') or c.startswith('move ') or c.startswith('const ') or c.startswith('no_retag '):
        op = parse_operand(c)
        if c.eat(' as '):
            j = txt.rfind(' (')
            ty = txt[c.i:j]; kind = txt[j+2:-1]
            return ('cast', op, ty, kind)
        if not c.eof(): raise SyntaxError("trailing in use: %r" % c.rest())
        return ('use', op)
    if c.eat('&raw const ') or c.eat('&raw mut '):
        c.eat('(fake) ')
        return ('ref', parse_place(c), 'raw')
    if c.eat('&mut '): return ('ref', parse_place(c), 'mut')
    if c.eat('&'):
        c.eat('fake shallow ')
        return ('ref', parse_place(c), 'shared')
    m = re.compile(r'([A-Za-z]+)\(').match(txt)
    if m and m.group(1) in BINOPS:
        c.i = m.end(); a = parse_operand(c); c.expect(','); b = parse_operand(c); c.expect(')')
        return ('binop', m.group(1), a, b)
    if m and m.group(1) in UNOPS:
        c.i = m.end(); a = parse_operand(c); c.expect(')')
        return ('unop', m.group(1), a)
    if m and m.group(1) == 'discriminant':
        c.i = m.end(); p = parse_place(c); c.expect(')'); return ('discr', p)
    if m and m.group(1) == 'Len':
        c.i = m.end(); p = parse_place(c); c.expect(')'); return ('len', p)
    if m and m.group(1) == 'CopyForDeref':
        c.i = m.end(); p = parse_place(c); c.expect(')'); return ('use', ('copy', p))
    if m and m.group(1) == 'ShallowInitBox':
        c.i = m.end(); a = parse_operand(c); return ('shallowbox', a)
    if c.eat('('):
        return ('tuple', parse_operand_list(c, ')'))
    if c.eat('['):
        c.ws()
        if c.eat(']'): return ('array', [])
        first = parse_operand(c)
        if c.eat('; '):
            return ('repeat', first, c.s[c.i:-1])
        args = [first]
        while c.eat(','):
            c.ws(); args.append(parse_operand(c))
        c.expect(']')
        return ('array', args)
    if c.startswith('{closure@') or c.startswith('{coroutine'):
        j = scan_balanced(txt, 1, ['}']); name = txt[:j+1]; c.i = j + 1; c.ws()
        fields = []
        if c.eat('{'):
            fields = parse_named_fields(c)
        return ('closure', name, fields)
    # ADT aggregate: Path(args) | Path { f: v } | Path
    j = scan_balanced(txt, 0, ['(', ' {'])
    path = txt[:j].strip(); c.i = j
    if c.eat('('):
        return ('adt', path, parse_operand_list(c, ')'), None)
    c.ws()
    if c.eat('{'):
        nf = parse_named_fields(c)
        return ('adt', path, [v for _, v in nf], [n for n, _ in nf])
    return ('adt', path, [], None)

def parse_named_fields(c):
    out = []
    c.ws()
    if c.eat('}'): return out
    while True:
        c.ws()
        m = re.compile(r'([A-Za-z_0-9]+): ').match(c.s, c.i)
        if not m: raise SyntaxError("bad field at %r" % c.rest()[:60])
        c.i = m.end()
        out.append((m.group(1), parse_operand(c))); c.ws()
        if c.eat(','):
            c.ws()
            if c.eat('}'): return out
            continue
        c.ws(); c.expect('}'); return out

# ---------------------------------------------------------------- statements / terminators
def parse_targets(t):
    # "[return: bb1, unwind continue]" or "bb28" or "[success: bb3, unwind: bb9]" or "unwind continue"
    ret = None
    m = re.search(r'(?:return|success): bb(\d+)', t)
    if m: ret = int(m.group(1))
    return ret

def split_call(txt):
    """txt = 'CALLEE(ARGS)'; returns (callee, [operands])"""
    # find the '(' that starts the arg list: the last top-level '(' whose matching ')' ends the string
    assert txt.endswith(')'), txt
    depth = 0; i = len(txt) - 1
    # scan backwards to find matching '('
    inq = None
    j = i
    # forward scan to find top-level parens positions (robust w.r.t. quotes)
    pos = 0; stack = []; start = None
    n = len(txt)
    while pos < n:
        ch = txt[pos]
        if ch == '"' or (ch == "'" and is_char_lit(txt, pos)):
            pos = skip_quoted(txt, pos); continue
        if ch == 'b' and pos + 1 < n and txt[pos+1] == '"' and (pos == 0 or not (txt[pos-1].isalnum() or txt[pos-1] == '_')):
            pos = skip_quoted(txt, pos + 1); continue
        if ch == '(' :
            stack.append(pos)
        elif ch == ')':
            st = stack.pop()
            if pos == n - 1: start = st
        pos += 1
    callee = txt[:start]
    c = Cur(txt, start + 1)
    args = parse_operand_list(c, ')')
    return callee, args

def parse_stmt(line):
    """returns ('assign', place, rvalue) | ('nop',) | terminator tuples"""
    l = line
    if l.startswith(('StorageLive', 'StorageDead', 'nop', 'FakeRead', 'Retag', 'PlaceMention', 'AscribeUserType', 'Coverage', 'ConstEvalCounter', 'Deinit', 'BackwardIncompatibleDropHint')):
        return ('nop',)
    if l.startswith('goto -> bb'): return ('goto', int(l[10:-1]))
    if l == 'return;': return ('return',)
    if l == 'unreachable;': return ('unreachable',)
    if l.startswith('resume'): return ('resume',)
    if l.startswith('switchInt('):
        j = scan_balanced(l, 10, [') -> ['])
        op = parse_operand(Cur(l[10:j]))
        tg = l[j+6:-2]
        targets = []; otherwise = None
        for part in tg.split(', '):
            k, v = part.split(': ')
            if k == 'otherwise': otherwise = int(v[2:])
            else:
                kv = k
                if kv.startswith('-'): ival = int(kv)
                else: ival = int(kv)
                targets.append((ival, int(v[2:])))
        return ('switch', op, targets, otherwise)
    if l.startswith('drop('):
        j = scan_balanced(l, 5, [')'])
        p = parse_place(Cur(l[5:j]))
        return ('drop', p, parse_targets(l[j:]))
    if l.startswith('assert('):
        c = Cur(l, 7)
        neg = c.eat('!')
        cond = parse_operand(c)
        c.expect(', ')
        msg_end = skip_quoted(l, c.i)
        msg = l[c.i:msg_end]
        return ('assert', cond, not neg, msg, parse_targets(l[msg_end:]))
    if l.startswith('discriminant('):
        m = re.match(r'discriminant\((.*)\) = (\d+);$', l)
        return ('setdiscr', parse_place(Cur(m.group(1))), int(m.group(2)))
    # assignment or call
    # find ' = ' at top level after a place
    c = Cur(l)
    try:
        save = 0
        p = parse_place(c)
        if c.eat(' = '):
            rest = l[c.i:]
            k = find_arrow(rest)
            if k is not None:
                callee, args = split_call(rest[:k])
                return ('call', p, callee, args, parse_targets(rest[k+4:]))
            assert rest.endswith(';'), l
            return ('assign', p, parse_rvalue(rest[:-1]))
    except SyntaxError:
        raise
    raise SyntaxError("cannot parse stmt: %r" % l)

def find_arrow(rest):
    # a call statement looks like 'callee(args) -> [return: bbN, unwind ...];' or 'callee(args) -> unwind continue;' or '-> bbN;'
    j = scan_balanced(rest, 0, [' -> [', ' -> unwind', ' -> bb'])
    if j >= len(rest): return None
    return j

def parse_diverging_call(l):
    k = find_arrow(l)
    if k is None: return None
    callee, args = split_call(l[:k])
    return ('call', None, callee, args, parse_targets(l[k+4:]))

class Body:
    def __init__(self, name, header):
        self.name = name; self.header = header
        self.nargs = 0; self.local_ty = {}; self.blocks = {}; self.kind = 'fn'
        self.raw = None

ITEM_RE = re.compile(r'^(fn|const|static) (.*)$')
STATIC_ALLOCS = {}        # alloc id -> name of the static it backs

def split_items(text):
    """yield (kind, header_line, [body lines]) for each top-level item; also allocs"""
    lines = text.split('\n')
    i = 0; n = len(lines)
    items = []; allocs = {}
    while i < n:
        ln = lines[i]
        if ln.startswith(('fn ', 'const ', 'static ')) and ln.endswith('{'):
            j = i + 1
            while j < n and lines[j] != '}': j += 1
            items.append((ln, lines[i+1:j])); i = j + 1; continue
        m = re.match(r'^(?:const|static) (?:mut )?([\w:]+): ([^=]+) = const (.*);$', ln)
        if m:
            SIMPLE_CONSTS[m.group(1)] = m.group(3); i += 1; continue
        ms_ = re.match(r'^alloc(\d+) \(static: ([\w:]+),', ln)
        if ms_: STATIC_ALLOCS[int(ms_.group(1))] = ms_.group(2)
        m = re.match(r'^alloc(\d+) \(.*size: (\d+).*\) \{$', ln)
        if m:
            j = i + 1; data = []
            while j < n and lines[j] != '}':
                data.append(lines[j]); j += 1
            allocs[int(m.group(1))] = data; i = j + 1; continue
        i += 1
    return items, allocs

def header_name(h):
    # 'fn NAME(_1: T, ...) -> RET {'  | 'const NAME: TY = {'
    if h.startswith('fn '):
        j = scan_balanced(h, 3, ['('])
        return 'fn', h[3:j], h[j:]
    if h.startswith('const '):
        j = scan_balanced(h, 6, [': '])
        return 'const', h[6:j], h[j:]
    if h.startswith('static '):
        j = scan_balanced(h, 7, [': '])
        return 'static', h[7:j].replace('mut ', ''), h[j:]

def parse_body(header, lines, lazy=True):
    kind, name, rest = header_name(header)
    b = Body(name, header); b.kind = kind
    if kind == 'fn':
        # count args
        j = scan_balanced(rest, 1, [')'])
        argtxt = rest[1:j]
        b.nargs = len(re.findall(r'(?:^|, )_(\d+): ', argtxt)) if argtxt.strip() else 0
        for m in re.finditer(r'(?:^|, )_(\d+): ', argtxt):
            pass
        # arg types
        pos = 0
        for m in re.finditer(r'_(\d+): ', argtxt):
            k = scan_balanced(argtxt, m.end(), [', _'])
            b.local_ty[int(m.group(1))] = argtxt[m.end():k]
        m = re.search(r'\) -> (.*) \{$', rest)
        b.local_ty[0] = m.group(1) if m else '()'
    b.raw = lines
    return b

LET_RE = re.compile(r'^\s*let (?:mut )?_(\d+): (.*);$')
BB_RE = re.compile(r'^    bb(\d+)(?: \(cleanup\))?: \{$')

def ensure_parsed(b):
    if b.raw is None: return
    lines = b.raw; b.raw = None
    cur = None
    for ln in lines:
        m = LET_RE.match(ln)
        if m and cur is None:
            b.local_ty[int(m.group(1))] = m.group(2); continue
        m = BB_RE.match(ln)
        if m:
            cur = []; b.blocks[int(m.group(1))] = cur; continue
        if cur is None: continue
        s = ln.strip()
        if s == '}' : cur = None if ln.startswith('    }') else cur; continue
        if not s or s.startswith('//'): continue
        try:
            st = parse_stmt(s)
        except Exception as e:
            # maybe a diverging call without destination
            st = None
            try: st = parse_diverging_call(s)
            except Exception: pass
            if st is None:
                st = ('unparsed', s, repr(e))
        cur.append(st)

def load(path):
    text = open(path).read()
    items, allocs = split_items(text)
    bodies = {}
    DUPS.clear()
    for h, lines in items:
        b = parse_body(h, lines)
        if b.name in bodies: DUPS.setdefault(b.name, [bodies[b.name]]).append(b)
        else: bodies[b.name] = b
    return bodies, allocs

DUPS = {}
SIMPLE_CONSTS = {}

if __name__ == '__main__':
    bodies, allocs = load(sys.argv[1])
    print(len(bodies), 'items', len(allocs), 'allocs')
    pat = sys.argv[2] if len(sys.argv) > 2 else None
    bad = 0; tot = 0
    for name, b in bodies.items():
        if pat and not re.search(pat, name): continue
        ensure_parsed(b)
        for bb, sts in b.blocks.items():
            for st in sts:
                tot += 1
                if st[0] == 'unparsed':
                    bad += 1
                    if bad < 40: print(name[:60], '::', st[1][:160], st[2][:80])
    print('stmts', tot, 'unparsed', bad)
