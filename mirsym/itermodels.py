# Unified lazy iterator model + a wider std surface (mem, Vec/slice, str/String, maps).  Imported after models.py: patterns registered
# here take precedence.  The library deliberately covers the neighbours of what the crate uses today, so that a source edit that
# reaches for another std API stays decidable instead of turning the check inconclusive.
import re, z3
from .core import *
from . import core as ms
from . import models as mo
from .models import V, some, NONE, ok, err, elems, pystr, toelems, tobytes, skey, sorted_items, demonic_perm, split_top, encode_char, decode_char, Dec, concretize

class It:
    """lazy iterator: nxt() -> item | STOP; bck() likewise from the back (None if not double-ended); size() -> remaining or None"""
    __slots__ = ('nxt', 'bck', 'size')
    def __init__(self, nxt, bck=None, size=None): self.nxt = nxt; self.bck = bck; self.size = size
STOP = object()
def mk(nxt, bck=None, size=None): return Native('It', it=It(nxt, bck, size))

def from_list(items):
    st = {'lo': 0, 'hi': len(items)}
    def nxt():
        if st['lo'] >= st['hi']: return STOP
        st['lo'] += 1; return items[st['lo'] - 1]
    def bck():
        if st['lo'] >= st['hi']: return STOP
        st['hi'] -= 1; return items[st['hi']]
    return mk(nxt, bck, lambda: st['hi'] - st['lo'])
def from_refs(backing, lo, hi):
    st = {'lo': lo, 'hi': hi}
    def nxt():
        if st['lo'] >= st['hi']: return STOP
        st['lo'] += 1; return Ref(backing, st['lo'] - 1)
    def bck():
        if st['lo'] >= st['hi']: return STOP
        st['hi'] -= 1; return Ref(backing, st['hi'])
    return mk(nxt, bck, lambda: st['hi'] - st['lo'])

def range_items(M, lo, hi, inclusive=False):
    if lo.sym() or hi.sym():
        if M.branch(M.binop('Gt' if inclusive else 'Ge', lo, hi)): return []
        for n in range(1, mo.RANGE_MAX + 1):
            top = M.binop('Add', lo, Int(lo.w, lo.s, n - 1 if inclusive else n))
            if M.branch(band(M.binop('Eq', top, hi), M.binop('Le' if inclusive else 'Lt', lo, top))):
                return [M.binop('Add', lo, Int(lo.w, lo.s, i)) if i else lo for i in range(n)]
        raise Unsupported("symbolic range longer than %d elements" % mo.RANGE_MAX)
    n = hi.v - lo.v + (1 if inclusive else 0)
    if n > 200000: raise Unsupported("range of %d elements" % n)
    return [Int(lo.w, lo.s, x) for x in range(lo.v, lo.v + max(n, 0))]

def to_it(M, x, by_ref=False, tystr=''):
    """anything iterable -> Native It"""
    v = x
    if isinstance(v, Ref):
        by_ref = True
        while isinstance(v, Ref): v = v.load()
    if isinstance(v, Native):
        k = v.kind
        if k == 'It': return v
        if k in ('Vec', 'String') and k == 'Vec':
            return from_refs(v.d['b'], 0, len(v.d['b'])) if by_ref else from_list(list(v.d['b']))
        if k in ('BTreeMap', 'HashMap'):
            es = sorted_items(v.d['m'])
            if k == 'HashMap': es = demonic_perm(M, es)
            if by_ref: return from_list([Agg('tuple', 0, [Ref(e, 0), Ref(e, 1)]) for e in es])
            return from_list([Agg('tuple', 0, [e[0], e[1]]) for e in es])
        if k in ('HashSet', 'BTreeSet'):
            es = sorted_items(v.d['m'])
            if k == 'HashSet': es = demonic_perm(M, es)
            return from_list([Ref(e, 0) if by_ref else e[0] for e in es])
        # legacy iterator kinds produced by models.py
        if k in ('SliceIter', 'IntoIter', 'MapIter', 'Enumerate', 'RevIter', 'BTreeIter', 'HashIter', 'Cloned', 'FilterMap', 'RangeI64'):
            return from_list(list(mo.iter_items(M, v)))
    if isinstance(v, Slice):
        return from_refs(v.b, v.lo, v.hi)
    if isinstance(v, Agg):
        if v.ty == 'RangeFrom':
            st = {'cur': v.fields[0]}
            def nxt():
                x = st['cur']; st['cur'] = M.binop('Add', x, Int(x.w, x.s, 1)); return x
            return mk(nxt)
        if v.ty in ('Range', 'RangeInclusive') or (v.ty == 'tuple' and False):
            return from_list(range_items(M, v.fields[0], v.fields[1], v.ty == 'RangeInclusive'))
        if v.ty == 'Option':
            if v.variant == 0: return from_list([])
            return from_list([Ref(v.fields, 0) if by_ref else v.fields[0]])
        if v.ty == 'Result':
            if v.variant == 1: return from_list([])
            return from_list([Ref(v.fields, 0) if by_ref else v.fields[0]])
        if v.ty == 'array': return from_refs(v.fields, 0, len(v.fields)) if by_ref else from_list(list(v.fields))
    if isinstance(v, Agg):
        key = crate_iter_next(M, v.ty)
        if key is not None:
            cell = x if isinstance(x, Ref) else Ref([v], 0)
            def nxt():
                r = M.call(key, [cell])
                return STOP if r.variant == 0 else r.fields[0]
            return mk(nxt)
    raise Unsupported("not iterable: %r (%s)" % (type(v).__name__ if not isinstance(v, (Native, Agg)) else (v.kind if isinstance(v, Native) else v.ty), tystr[:60]))

def callf(M, f, args):
    """call a closure / fn item / fn pointer with the given argument list"""
    while isinstance(f, Ref): f = V(f)              # &F, &&F, &mut F are callable like F
    while isinstance(f, Native) and f.kind == 'Box':            # Box<dyn Fn..>: call what is inside
        f = f.d['slot'][0]
        while isinstance(f, Ref): f = V(f)
    if isinstance(f, Native) and f.kind == 'FnItem':
        name = f.d['name']
        if name.startswith('@native:'): return ms.NATIVE_FNS[name[8:]](M, args, name)
        if name in M.bodies: return M.call(name, args)
        return M.do_call(name, args, None)          # a std function passed as a value (`map(Box::new)`): models first
    if isinstance(f, Native) and f.kind == 'ZST':
        key = M.lookup(f.d['name'])
        if key is None:
            return M.do_call(f.d['name'], args, None)
        return M.call(key, args)
    if isinstance(f, Agg) and f.ty.startswith('{closure@'):
        body = closure_body(M, f.ty)
        hdr = body.header
        byref = re.search(r'\(_1: &', hdr) is not None
        return M.call(body.name, [Ref([f], 0) if byref else f] + list(args))
    raise Unsupported("not callable: %r" % (f,))
_cb = {}
def closure_body(M, cty):
    if cty in _cb: return _cb[cty]
    # prefer the FnMut / Fn body (takes &mut / & closure); a FnOnce shim may exist as well
    best = None
    for name, b in M.bodies.items():
        if '{closure#' in name and cty in b.header.split(') ->')[0].split(',')[0] + ')':
            if best is None or '(_1: &' in b.header: best = b
    if best is None: raise Unsupported("closure body not found for " + cty)
    _cb[cty] = best
    return best

def generic_clone(M, x, ty=None):
    if isinstance(x, (Int, bool)) or x is None or (not isinstance(x, (Agg, Native, Ref, Slice, Dec)) and z3.is_expr(x)): return x
    if isinstance(x, Dec): return x
    if isinstance(x, (Ref, Slice)): return x            # shared references are Copy
    if ty:
        try: return mo.clone_val(M, x, ty)
        except Unsupported: pass
    if isinstance(x, Native):
        k = x.kind
        if k == 'String': return Native('String', b=list(x.d['b']))
        if k == 'Vec': return Native('Vec', b=[generic_clone(M, e) for e in x.d['b']])
        if k in ('Arc', 'Rc', 'FnItem', 'ZST', 'PathBuf'): return x
        if k == 'Box': return Native('Box', slot=[generic_clone(M, x.d['slot'][0])])
        if k in ('BTreeMap', 'HashMap', 'HashSet', 'BTreeSet'): return Native(k, m={kk: [generic_clone(M, e[0]), generic_clone(M, e[1])] for kk, e in x.d['m'].items()})
        raise Unsupported("clone of " + k)
    if isinstance(x, Agg):
        if x.ty in ('tuple', 'Option', 'Result', 'array'): return Agg(x.ty, x.variant, [generic_clone(M, f) for f in x.fields])
        key = M.lookup('<%s as Clone>::clone' % x.ty)
        if key is not None: return M.call(key, [Ref([x], 0)])
        return Agg(x.ty, x.variant, [generic_clone(M, f) for f in x.fields])
    raise Unsupported("clone of %r" % (x,))

def first_generic(c, marker):
    """the first generic argument of the path segment `marker` in a callee string, e.g. Iter<'_, T> -> T"""
    i = c.find(marker + '<')
    if i < 0: return None
    j = mp_scan(c, i + len(marker) + 1)
    parts = [p for p in split_top(c[i + len(marker) + 1:j]) if not p.startswith("'")]
    return parts[0] if parts else None
def mp_scan(s, i):
    from . import mirparse as mp
    return mp.scan_balanced(s, i, ['>'])

# ------------------------------------------------------------------ IntoIterator / iter()
@model_re(r'^<.* as IntoIterator>::into_iter$')
def _(M, a, c):
    ty = re.match(r'^<(.*) as IntoIterator>::into_iter$', norm_name(c)).group(1)
    return to_it(M, a[0], by_ref=ty.startswith('&'), tystr=ty)
@model_re(r'^core::slice::<impl \[.*\]>::iter(_mut)?$|^Vec::iter(_mut)?$')
def _(M, a, c): return to_it(M, a[0], by_ref=True)
@model_re(r'^(BTreeMap|HashMap)::(iter|iter_mut)$')
def _(M, a, c): return to_it(M, a[0], by_ref=True)
@model_re(r'^(BTreeMap|HashMap)::(keys|values|values_mut|into_keys|into_values)$')
def _(M, a, c):
    fn = norm_name(c).split('::')[-1]; m = V(a[0]); es = sorted_items(m.d['m'])
    if m.kind == 'HashMap': es = demonic_perm(M, es)
    idx = 0 if 'keys' in fn else 1
    return from_list([(e[idx] if fn.startswith('into_') else Ref(e, idx)) for e in es])
@model_re(r'^(HashSet|BTreeSet)::iter$')
def _(M, a, c): return to_it(M, a[0], by_ref=True)
@model_re(r'^core::str::<impl str>::(chars|bytes|char_indices)$')
def _(M, a, c):
    fn = norm_name(c).split('::')[-1]; s = mo.as_slice(a[0])
    if isinstance(s, Ref): s = mo.as_slice(deref_all(s))
    if fn == 'char_indices': return Native('CharIndices', s=s, pos=0)
    if fn == 'bytes': return from_list(list(s.items()))
    st = {'pos': 0, 'tail': None}
    def nxt():
        if st['tail'] is not None: return st['tail'].pop(0) if st['tail'] else STOP
        if st['pos'] >= len(s): return STOP
        ch, w = decode_char(M, s, st['pos']); st['pos'] += w; return ch
    def bck():
        # from the back: decode what is left forward once (valid UTF-8), then hand it out in reverse
        if st['tail'] is None:
            st['tail'] = []
            while st['pos'] < len(s):
                ch, w = decode_char(M, s, st['pos']); st['pos'] += w; st['tail'].append(ch)
        return st['tail'].pop() if st['tail'] else STOP
    return mk(nxt, bck, None)
@model_re(r'^Option::(iter|iter_mut)$')
def _(M, a, c): return to_it(M, a[0], by_ref=True)

# ------------------------------------------------------------------ Iterator methods
def _it(M, x):
    v = V(x) if isinstance(x, Ref) else x
    if isinstance(v, Native) and v.kind == 'It': return v.d['it']
    if isinstance(v, Native) and v.kind == 'CharIndices':
        st = {'tail': None}
        def nxt():
            if st['tail'] is not None: return st['tail'].pop(0) if st['tail'] else STOP
            r = ms.m_ci_next(M, [Ref([v], 0)], '')
            return STOP if r.variant == 0 else r.fields[0]
        def bck():
            if st['tail'] is None:
                st['tail'] = []
                while True:
                    r = ms.m_ci_next(M, [Ref([v], 0)], '')
                    if r.variant == 0: break
                    st['tail'].append(r.fields[0])
            return st['tail'].pop() if st['tail'] else STOP
        return It(nxt, bck)
    return to_it(M, x).d['it']
def drain(it):
    out = []
    while True:
        x = it.nxt()
        if x is STOP: return out
        out.append(x)

_CIN = {}
def crate_iter_next(M, ty):
    """the `Iterator::next` of a type defined in the crate (found by its signature), or None"""
    tn = re.sub(r'<.*', '', ty).split('::')[-1]
    if not re.fullmatch(r'[A-Z]\w*', tn) or tn in ('Range', 'Option', 'Result'): return None
    if tn not in _CIN:
        hits = [n for n, b in M.bodies.items() if n.endswith('::next') and re.search(r'\(_1: &mut (?:\w+::)*' + tn + r'(?:<[^)]*>)?\) -> Option<', b.header)]
        _CIN[tn] = hits[0] if len(hits) == 1 else None
    return _CIN[tn]
ADAPT = ('cycle', 'scan', 'map', 'filter', 'filter_map', 'enumerate', 'rev', 'zip', 'chain', 'skip', 'take', 'cloned', 'copied', 'step_by', 'take_while', 'skip_while', 'by_ref', 'peekable', 'inspect', 'flat_map', 'flatten', 'map_while', 'fuse')
CONSUME = ('next', 'next_back', 'collect', 'count', 'last', 'nth', 'fold', 'all', 'any', 'find', 'find_map', 'position', 'sum', 'product', 'min', 'max', 'for_each', 'len', 'size_hint', 'rposition', 'unzip', 'partition',
           'min_by_key', 'max_by_key', 'min_by', 'max_by', 'try_fold', 'reduce', 'eq', 'rfind', 'nth_back', 'is_empty')
@model_re(r'^<.* as (Iterator|DoubleEndedIterator|ExactSizeIterator)>::(\w+)$|^core::iter::(Iterator|DoubleEndedIterator|ExactSizeIterator)::(\w+)$')
def _(M, a, c):
    nm = norm_name(c); fn = nm.split('::')[-1]
    recv = a[0]
    rv = V(recv) if isinstance(recv, Ref) else recv
    if fn == 'next' and isinstance(rv, Agg):
        key = crate_iter_next(M, rv.ty)
        if key is not None: return M.call(key, [recv if isinstance(recv, Ref) else Ref([rv], 0)])
    if isinstance(rv, Agg) and rv.ty == 'Range' and fn == 'next':
        lo, hi = rv.fields
        if M.branch(M.binop('Ge', lo, hi)): return NONE()
        rv.fields[0] = M.binop('Add', lo, Int(lo.w, lo.s, 1)); return some(lo)
    if isinstance(rv, Native) and rv.kind == 'Args' and fn == 'next':
        return some(pystr(rv.d['l'].pop(0))) if rv.d['l'] else NONE()
    if isinstance(rv, Native) and rv.kind == 'CharIndices' and fn == 'next':
        return ms.m_ci_next(M, [recv if isinstance(recv, Ref) else Ref([rv], 0)], c)
    it = _it(M, recv)
    if fn in ADAPT: return adapt(M, fn, it, a, c)
    if fn in CONSUME: return consume(M, fn, it, a, c)
    raise Unsupported("iterator method " + fn)

def adapt(M, fn, it, a, c):
    if fn in ('by_ref', 'fuse'): return a[0] if isinstance(V(a[0]) if isinstance(a[0], Ref) else a[0], Native) and (V(a[0]) if isinstance(a[0], Ref) else a[0]).kind == 'It' else Native('It', it=it)
    if fn == 'map':
        f = a[1]
        def w(g):
            def h():
                x = g()
                return STOP if x is STOP else callf(M, f, [x])
            return h
        return mk(w(it.nxt), w(it.bck) if it.bck else None, it.size)
    if fn == 'inspect':
        f = a[1]
        def nxt():
            x = it.nxt()
            if x is not STOP: callf(M, f, [Ref([x], 0)])
            return x
        return mk(nxt, None, it.size)
    if fn in ('cloned', 'copied'):
        ty = None
        m = re.search(r"Iter<'_, (.*)> as Iterator>::(cloned|copied)", norm_name(c))
        if m and '<' not in m.group(1).split(',')[0] and ',' not in m.group(1): ty = m.group(1)
        def w(g):
            def h():
                x = g()
                return STOP if x is STOP else generic_clone(M, deref_all(x), ty)
            return h
        return mk(w(it.nxt), w(it.bck) if it.bck else None, it.size)
    if fn == 'enumerate':
        st = {'n': 0}
        def nxt():
            x = it.nxt()
            if x is STOP: return STOP
            st['n'] += 1; return Agg('tuple', 0, [usize(st['n'] - 1), x])
        def bck():
            if it.size is None: raise Unsupported("rev of enumerate over an unsized iterator")
            rem = it.size(); x = it.bck()
            if x is STOP: return STOP
            return Agg('tuple', 0, [usize(st['n'] + rem - 1), x])
        return mk(nxt, bck if it.bck else None, it.size)
    if fn == 'rev':
        if it.bck is None: raise Unsupported("rev of a single-ended iterator")
        return mk(it.bck, it.nxt, it.size)
    if fn in ('filter', 'take_while', 'skip_while'):
        f = a[1]; st = {'done': False, 'skipping': True}
        def nxt():
            while True:
                if fn == 'take_while' and st['done']: return STOP
                x = it.nxt()
                if x is STOP: return STOP
                if fn == 'skip_while' and not st['skipping']: return x
                keep = M.branch(callf(M, f, [Ref([x], 0)]))
                if fn == 'filter':
                    if keep: return x
                elif fn == 'take_while':
                    if keep: return x
                    st['done'] = True; return STOP
                else:
                    if not keep: st['skipping'] = False; return x
        def bck():
            while True:
                x = it.bck()
                if x is STOP: return STOP
                if M.branch(callf(M, f, [Ref([x], 0)])): return x
        return mk(nxt, bck if (fn == 'filter' and it.bck) else None, None)
    if fn in ('filter_map', 'map_while'):
        f = a[1]
        def nxt():
            while True:
                x = it.nxt()
                if x is STOP: return STOP
                r = callf(M, f, [x])
                if r.variant == 1: return r.fields[0]
                if fn == 'map_while': return STOP
        return mk(nxt, None, None)
    if fn in ('zip', 'chain'):
        other = _it(M, a[1])
        if fn == 'zip':
            def nxt():
                x = it.nxt()
                if x is STOP: return STOP
                y = other.nxt()
                if y is STOP: return STOP
                return Agg('tuple', 0, [x, y])
            return mk(nxt, None, (lambda: min(it.size(), other.size())) if it.size and other.size else None)
        st = {'first': True}
        def nxt():
            if st['first']:
                x = it.nxt()
                if x is not STOP: return x
                st['first'] = False
            return other.nxt()
        return mk(nxt, None, (lambda: it.size() + other.size()) if it.size and other.size else None)
    if fn in ('skip', 'take', 'step_by'):
        n = a[1]
        if n.sym(): raise Unsupported("symbolic %s count" % fn)
        n = n.v; st = {'n': 0, 'first': True}
        def nxt():
            if fn == 'skip':
                while st['n'] < n:
                    st['n'] += 1
                    if it.nxt() is STOP: return STOP
                return it.nxt()
            if fn == 'take':
                if st['n'] >= n: return STOP
                st['n'] += 1; return it.nxt()
            if st['first']: st['first'] = False; return it.nxt()
            for _ in range(n - 1):
                if it.nxt() is STOP: return STOP
            return it.nxt()
        return mk(nxt, None, None)
    if fn == 'cycle':
        st = {'seen': [], 'i': None}
        def nxt():
            if st['i'] is None:
                x = it.nxt()
                if x is not STOP: st['seen'].append(x); return generic_clone(M, x)
                if not st['seen']: return STOP
                st['i'] = 0
            x = st['seen'][st['i'] % len(st['seen'])]; st['i'] += 1; return generic_clone(M, x)
        return mk(nxt)
    if fn == 'scan':
        st = {'acc': a[1], 'done': False}; f = a[2]
        def nxt():
            if st['done']: return STOP
            x = it.nxt()
            if x is STOP: return STOP
            cell = [st['acc']]; r = callf(M, f, [Ref(cell, 0), x]); st['acc'] = cell[0]
            if r.variant == 0: st['done'] = True; return STOP
            return r.fields[0]
        return mk(nxt)
    if fn == 'peekable':
        st = {'buf': []}
        def nxt(): return st['buf'].pop(0) if st['buf'] else it.nxt()
        r = mk(nxt, None, None); r.d['peek'] = st; r.d['src'] = it
        return r
    if fn in ('flat_map', 'flatten'):
        f = a[1] if fn == 'flat_map' else None; st = {'cur': None}
        def nxt():
            while True:
                if st['cur'] is not None:
                    x = st['cur'].nxt()
                    if x is not STOP: return x
                    st['cur'] = None
                o = it.nxt()
                if o is STOP: return STOP
                st['cur'] = _it(M, callf(M, f, [o]) if f is not None else o)
        return mk(nxt, None, None)
    raise Unsupported("iterator adaptor " + fn)

def collect_into(M, items, tgt, c):
    tgt = tgt.strip()
    if tgt.startswith(('Vec<', 'VecDeque<')) or tgt in ('Vec', 'Vec<_>'): return Native('Vec', b=items)
    if tgt == 'String' or tgt.startswith('String'):
        out = []
        for x in items:
            x = deref_all(x)
            if isinstance(x, Int): out += encode_char(M, x)
            else: out += toelems(x)
        return Native('String', b=out)
    if tgt.startswith(('BTreeMap', 'HashMap')):
        m = {}
        for t in items: m[skey(t.fields[0])] = [t.fields[0], t.fields[1]]
        return Native('BTreeMap' if tgt.startswith('BTreeMap') else 'HashMap', m=m)
    if tgt.startswith(('HashSet', 'BTreeSet')):
        m = {}
        for s in items: m[skey(s)] = [s, UNIT]
        return Native('HashSet' if tgt.startswith('HashSet') else 'BTreeSet', m=m)
    if tgt.startswith(('Result<', 'std::result::Result<', 'Option<')):
        isres = not tgt.startswith('Option<')
        inner = split_top(tgt[tgt.index('<') + 1:-1])[0]
        good = []
        for x in items:
            if (isres and x.variant == 1) or (not isres and x.variant == 0): return x if isres else NONE()
            good.append(x.fields[0])
        r = collect_into(M, good, inner, c)
        return ok(r) if isres else some(r)
    if tgt.startswith('Box<[') or tgt.startswith('Rc<[') or tgt.startswith('Arc<['): return Native('Vec', b=items)
    raise Unsupported("collect into " + tgt)

def consume(M, fn, it, a, c):
    if fn == 'next':
        x = it.nxt(); return NONE() if x is STOP else some(x)
    if fn == 'next_back':
        if it.bck is None: raise Unsupported("next_back on a single-ended iterator")
        x = it.bck(); return NONE() if x is STOP else some(x)
    if fn == 'len':
        if it.size is None: raise Unsupported("len of an unsized iterator")
        return usize(it.size())
    if fn == 'is_empty':
        if it.size is None: raise Unsupported("is_empty of an unsized iterator")
        return it.size() == 0
    if fn == 'size_hint':
        if it.size is None: return Agg('tuple', 0, [usize(0), NONE()])
        n = it.size(); return Agg('tuple', 0, [usize(n), some(usize(n))])
    if fn == 'collect':
        m = re.search(r'::collect::<(.*)>$', c.strip())
        if not m: raise Unsupported("collect without a target type: " + c[:80])
        # lazily: a Result / Option target stops at the first failure
        tgt = m.group(1).strip()
        if tgt.startswith(('Result<', 'std::result::Result<', 'Option<')):
            isres = not tgt.startswith('Option<'); good = []
            while True:
                x = it.nxt()
                if x is STOP: break
                if (isres and x.variant == 1) or (not isres and x.variant == 0): return x if isres else NONE()
                good.append(x.fields[0])
            inner = split_top(tgt[tgt.index('<') + 1:-1])[0]
            r = collect_into(M, good, inner, c)
            return ok(r) if isres else some(r)
        return collect_into(M, drain(it), tgt, c)
    if fn == 'count': return usize(len(drain(it)))
    if fn == 'last':
        xs = drain(it); return some(xs[-1]) if xs else NONE()
    if fn in ('nth', 'nth_back'):
        n = a[1]
        if n.sym(): raise Unsupported("symbolic nth")
        g = it.nxt if fn == 'nth' else it.bck
        for _ in range(n.v):
            if g() is STOP: return NONE()
        x = g(); return NONE() if x is STOP else some(x)
    if fn == 'fold':
        acc = a[1]; f = a[2]
        while True:
            x = it.nxt()
            if x is STOP: return acc
            acc = callf(M, f, [acc, x])
    if fn == 'reduce':
        f = a[1]; acc = it.nxt()
        if acc is STOP: return NONE()
        while True:
            x = it.nxt()
            if x is STOP: return some(acc)
            acc = callf(M, f, [acc, x])
    if fn == 'try_fold':
        # the closure returns Option / Result (Try): stop at the first None / Err
        acc = a[1]; f = a[2]
        res = re.search(r'try_fold::<[^,]*, .*?, (Option|std::result::Result|Result)<', c)
        while True:
            x = it.nxt()
            if x is STOP:
                return some(acc) if (res and res.group(1) == 'Option') else ok(acc)
            r = callf(M, f, [acc, x])
            if r.ty == 'Option':
                if r.variant == 0: return r
                acc = r.fields[0]
            else:
                if r.variant == 1: return r
                acc = r.fields[0]
    if fn in ('min_by', 'max_by'):
        f = a[1]; best = STOP
        while True:
            x = it.nxt()
            if x is STOP: return NONE() if best is STOP else some(best)
            if best is STOP: best = x; continue
            v = callf(M, f, [Ref([best], 0), Ref([x], 0)]).variant        # cmp(best, x)
            if fn == 'min_by' and v == 2: best = x                      # first minimum is kept
            if fn == 'max_by' and v <= 1: best = x                      # last maximum is kept
    if fn in ('all', 'any'):
        f = a[1]
        while True:
            x = it.nxt()
            if x is STOP: return fn == 'all'
            r = M.branch(callf(M, f, [x]))
            if fn == 'all' and not r: return False
            if fn == 'any' and r: return True
    if fn in ('find', 'rfind'):
        f = a[1]; g = it.nxt if fn == 'find' else it.bck
        while True:
            x = g()
            if x is STOP: return NONE()
            if M.branch(callf(M, f, [Ref([x], 0)])): return some(x)
    if fn == 'find_map':
        f = a[1]
        while True:
            x = it.nxt()
            if x is STOP: return NONE()
            r = callf(M, f, [x])
            if r.variant == 1: return r
    if fn in ('position', 'rposition'):
        f = a[1]
        if fn == 'rposition':
            if it.size is None: raise Unsupported("rposition unsized")
            i = it.size()
            while True:
                x = it.bck()
                if x is STOP: return NONE()
                i -= 1
                if M.branch(callf(M, f, [x])): return some(usize(i))
        i = 0
        while True:
            x = it.nxt()
            if x is STOP: return NONE()
            if M.branch(callf(M, f, [x])): return some(usize(i))
            i += 1
    if fn in ('sum', 'product'):
        xs = [deref_all(x) for x in drain(it)]
        m = re.search(r'::(?:sum|product)::<(\w+)>', c); ty = m.group(1) if m else 'i64'
        w, s = INT_TY.get(ty, (64, True))
        acc = Int(w, s, 0 if fn == 'sum' else 1)
        for x in xs:
            t = M.binop('AddWithOverflow' if fn == 'sum' else 'MulWithOverflow', acc, x)
            if M.branch(t.fields[1]): raise Panic("attempt to %s with overflow" % ('add' if fn == 'sum' else 'multiply'))
            acc = t.fields[0]
        return acc
    if fn in ('min', 'max'):
        xs = drain(it)
        if not xs: return NONE()
        best = xs[0]
        for x in xs[1:]:
            bx, xx = deref_all(best), deref_all(x)
            if not isinstance(bx, Int): raise Unsupported("min/max of non-integers")
            gt = M.branch(M.binop('Ge' if fn == 'max' else 'Lt', xx, bx))
            if gt: best = x
        return some(best)
    if fn in ('min_by_key', 'max_by_key'):
        f = a[1]; xs = drain(it)
        if not xs: return NONE()
        best = xs[0]; bk = callf(M, f, [Ref([best], 0)])
        for x in xs[1:]:
            k = callf(M, f, [Ref([x], 0)])
            if not isinstance(k, Int): raise Unsupported("min_by_key on non-integer keys")
            if M.branch(M.binop('Ge' if fn == 'max_by_key' else 'Lt', k, bk)): best = x; bk = k
        return some(best)
    if fn == 'for_each':
        f = a[1]
        for x in iter(it.nxt, STOP): callf(M, f, [x])
        return UNIT
    if fn == 'unzip':
        xs = drain(it)
        return Agg('tuple', 0, [Native('Vec', b=[t.fields[0] for t in xs]), Native('Vec', b=[t.fields[1] for t in xs])])
    if fn == 'partition':
        f = a[1]; yes = []; no = []
        for x in drain(it): (yes if M.branch(callf(M, f, [Ref([x], 0)])) else no).append(x)
        return Agg('tuple', 0, [Native('Vec', b=yes), Native('Vec', b=no)])
    if fn == 'eq':
        xs = drain(it); ys = drain(_it(M, a[1]))
        if len(xs) != len(ys): return False
        r = True
        for x, y in zip(xs, ys):
            x, y = deref_all(x), deref_all(y)
            if isinstance(x, Int): r = band(r, M.binop('Eq', x, y))
            else: raise Unsupported("Iterator::eq on non-integers")
        return r
    raise Unsupported("iterator consumer " + fn)

@model_re(r'^<(Vec|VecDeque)<.*> as Extend<.*>>::extend$|^Vec::extend_from_slice$|^<String as Extend<.*>>::extend$')
def _(M, a, c):
    v = V(a[0])
    if v.kind == 'String':
        for x in drain(_it(M, a[1])):
            x = deref_all(x); v.d['b'].extend(encode_char(M, x) if isinstance(x, Int) else toelems(x))
        return UNIT
    clone = 'extend_from_slice' in c
    for x in drain(_it(M, a[1])):
        elem_is_ref = re.match(r'^<(?:Vec|VecDeque)<&', norm_name(c)) is not None       # a container of references keeps the references
        v.d['b'].append(generic_clone(M, deref_all(x)) if (clone or isinstance(x, Ref) and 'Extend<&' in c and not elem_is_ref) else x)
    return UNIT
@model_re(r'^<(BTreeMap|HashMap|HashSet|BTreeSet)<.*> as Extend<.*>>::extend$')
def _(M, a, c):
    m = V(a[0]); byref = 'Extend<(&' in c or 'Extend<&' in c
    for x in drain(_it(M, a[1])):
        if m.kind in ('HashSet', 'BTreeSet'):
            k = generic_clone(M, deref_all(x)) if byref else x
            if skey(k) not in m.d['m']: m.d['m'][skey(k)] = [k, UNIT]
        else:
            k, v = x.fields
            if byref: k, v = generic_clone(M, deref_all(k)), generic_clone(M, deref_all(v))
            # an existing key keeps its key object, the value is replaced (std semantics)
            if skey(k) in m.d['m']: m.d['m'][skey(k)][1] = v
            else: m.d['m'][skey(k)] = [k, v]
    return UNIT
@model_re(r'^<(Vec|BTreeMap|HashMap|HashSet|BTreeSet|String|VecDeque)<?.*>? as FromIterator<.*>>::from_iter$')
def _(M, a, c):
    tgt = re.match(r'^<(.*) as FromIterator', norm_name(c)).group(1)
    return collect_into(M, drain(_it(M, a[0])), tgt, c)

# ------------------------------------------------------------------ mem
@model_re(r'^std::mem::(take|replace|swap)$|^core::mem::(take|replace|swap)$')
def _(M, a, c):
    fn = norm_name(c).split('::')[-1]
    if fn == 'swap':
        x, y = a[0].load(), a[1].load(); a[0].store(y); a[1].store(x); return UNIT
    old = a[0].load()
    if fn == 'replace': a[0].store(a[1]); return old
    m = re.search(r'::take::<(.*)>$', c.strip()); ty = m.group(1) if m else ''
    a[0].store(default_of(M, ty, old)); return old
def default_of(M, ty, like=None):
    ty = ty.strip()
    if ty.startswith('Vec<') or ty.startswith('VecDeque<'): return Native('Vec', b=[])
    if ty == 'String': return Native('String', b=[])
    if ty.startswith(('BTreeMap<', 'HashMap<', 'HashSet<', 'BTreeSet<')): return Native(ty[:ty.index('<')], m={})
    if ty.startswith('Option<'): return NONE()
    if ty in INT_TY: return Int(INT_TY[ty][0], INT_TY[ty][1], 0)
    if ty == 'bool': return False
    if ty.startswith('(') and isinstance(like, Agg): return Agg('tuple', 0, [default_of(M, t, f) for t, f in zip(split_top(ty[1:-1]), like.fields)])
    raise Unsupported("Default for " + ty)
@model_re(r'^<.* as Default>::default$')
def _(M, a, c):
    key = M.lookup(c) or M.lookup(norm_name(c))
    if key is not None: return M.call(key, a)        # a (derived) impl of the crate
    return default_of(M, re.match(r'^<(.*) as Default>::default$', norm_name(c)).group(1))

# ------------------------------------------------------------------ Vec / slice
def _vec(x):
    v = V(x)
    if isinstance(v, Slice): return v
    return v
def _list_of(x):
    v = V(x) if isinstance(x, Ref) else x
    if isinstance(v, Slice): return v.b, v.lo, v.hi
    if isinstance(v, Native) and v.kind in ('Vec', 'String'): return v.d['b'], 0, len(v.d['b'])
    if isinstance(v, Agg) and v.ty == 'array': return v.fields, 0, len(v.fields)
    raise Unsupported("not a slice: %r" % (v,))
@model_re(r'^Vec::(append|remove|swap_remove|clear|reverse|first|last|first_mut|last_mut|get|get_mut|contains|split_off|drain|retain|dedup|capacity|reserve|shrink_to_fit|resize|swap|as_slice|as_mut_slice|to_vec|iter)$|'
          r'^core::slice::<impl \[.*\]>::(first|last|first_mut|last_mut|get_mut|contains|reverse|swap|split_at|split_first|split_last|starts_with|ends_with|to_vec|concat|join|iter|windows|chunks|copy_from_slice|clone_from_slice|fill)$|'
          r'^std::slice::<impl \[.*\]>::(to_vec|concat|join|into_vec|sort|sort_unstable)$')
def _(M, a, c):
    fn = norm_name(c).split('::')[-1]
    b, lo, hi = _list_of(a[0]); n = hi - lo
    if fn in ('concat', 'join'):
        parts = [deref_all(x) for x in b[lo:hi]]
        is_str = any((isinstance(p, Native) and p.kind == 'String') or (isinstance(p, Slice) and p.is_str) for p in parts) or ('[String]' in c or '[&str]' in c)
        out = []
        sep = None
        if fn == 'join':
            sv = a[1]
            sep = encode_char(M, sv) if isinstance(sv, Int) and sv.w == 32 else ([sv] if isinstance(sv, Int) else list(_list_of(sv)[0][_list_of(sv)[1]:_list_of(sv)[2]]))
        for i, p in enumerate(parts):
            if i and sep is not None: out += [generic_clone(M, x) for x in sep]
            pb, plo, phi = _list_of(p)
            out += [generic_clone(M, x) for x in pb[plo:phi]]
        return Native('String' if is_str else 'Vec', b=out)
    isvec = isinstance(V(a[0]) if isinstance(a[0], Ref) else a[0], Native)
    if fn == 'iter': return from_refs(b, lo, hi)
    if fn in ('first', 'first_mut'): return some(Ref(b, lo)) if n else NONE()
    if fn in ('last', 'last_mut'): return some(Ref(b, hi - 1)) if n else NONE()
    if fn in ('capacity',): return usize(n)
    if fn in ('reserve', 'shrink_to_fit'): return UNIT
    if fn in ('as_slice', 'as_mut_slice'): return Slice(b, lo, hi)
    if fn in ('to_vec', 'into_vec'): return Native('Vec', b=[generic_clone(M, x) for x in b[lo:hi]])
    if fn == 'clear': del b[:]; return UNIT
    if fn == 'reverse': b[lo:hi] = b[lo:hi][::-1]; return UNIT
    if fn == 'append':
        o = V(a[1]); b.extend(o.d['b']); del o.d['b'][:]; return UNIT
    if fn in ('remove', 'swap_remove'):
        k = concretize(M, a[1], n - 1) if n else None
        if k is None: raise Panic("%s index out of bounds" % fn)
        if fn == 'remove': return b.pop(k)
        x = b[k]; b[k] = b[-1]; b.pop(); return x
    if fn == 'swap':
        i = concretize(M, a[1], n - 1) if n else None; j = concretize(M, a[2], n - 1) if n else None
        if i is None or j is None: raise Panic("swap index out of bounds")
        b[lo + i], b[lo + j] = b[lo + j], b[lo + i]; return UNIT
    if fn in ('get_mut', 'get'):
        return mo.MODELS_GET(M, [Slice(b, lo, hi), a[1]], c)
    if fn == 'contains':
        x = deref_all(a[1]); r = False
        for e in b[lo:hi]:
            if isinstance(e, Int): r = bor(r, M.binop('Eq', e, x))
            elif isinstance(e, Native) and e.kind == 'String': r = bor(r, ms.m_str_eq(M, [e, x], c))
            else: r = bor(r, generic_eq(M, e, x))
        return r
    if fn == 'split_off':
        k = concretize(M, a[1], n)
        if k is None: raise Panic("split_off at > len")
        tail = b[k:]; del b[k:]; return Native('Vec', b=tail)
    if fn == 'split_at':
        k = concretize(M, a[1], n)
        if k is None: raise Panic("split_at mid > len")
        return Agg('tuple', 0, [Slice(b, lo, lo + k), Slice(b, lo + k, hi)])
    if fn == 'split_first': return some(Agg('tuple', 0, [Ref(b, lo), Slice(b, lo + 1, hi)])) if n else NONE()
    if fn == 'split_last': return some(Agg('tuple', 0, [Ref(b, hi - 1), Slice(b, lo, hi - 1)])) if n else NONE()
    if fn in ('starts_with', 'ends_with'):
        ob, olo, ohi = _list_of(a[1]); m = ohi - olo
        if m > n: return False
        seg = b[lo:lo + m] if fn == 'starts_with' else b[hi - m:hi]; r = True
        for x, y in zip(seg, ob[olo:ohi]):
            if not isinstance(x, Int): raise Unsupported("starts_with on non-integers")
            r = band(r, M.binop('Eq', x, y))
        return r
    if fn in ('copy_from_slice', 'clone_from_slice'):
        ob, olo, ohi = _list_of(a[1])
        if ohi - olo != n: raise Panic("source slice length does not match destination slice length")
        b[lo:hi] = [generic_clone(M, x) for x in ob[olo:ohi]]; return UNIT
    if fn == 'fill':
        for i in range(lo, hi): b[i] = generic_clone(M, a[1])
        return UNIT
    if fn == 'resize':
        if a[1].sym(): raise Unsupported("symbolic resize")
        while len(b) > a[1].v: b.pop()
        while len(b) < a[1].v: b.append(generic_clone(M, a[2]))
        return UNIT
    if fn == 'drain':
        r = a[1]
        if isinstance(r, Agg) and r.ty in ('Range', 'RangeFrom', 'RangeTo', 'RangeFull', 'RangeInclusive'):
            s = 0; e = n
            if r.ty == 'Range': s, e = r.fields[0].v, r.fields[1].v
            elif r.ty == 'RangeFrom': s = r.fields[0].v
            elif r.ty == 'RangeTo': e = r.fields[0].v
            if not (s <= e <= n): raise Panic("drain range out of bounds")
            out = b[s:e]; del b[s:e]; return from_list(out)
        raise Unsupported("drain range")
    if fn == 'retain':
        keep = [x for x in list(b) if M.branch(callf(M, a[1], [Ref([x], 0)]))]; b[:] = keep; return UNIT
    if fn in ('windows', 'chunks'):
        k = a[1].v
        if k == 0: raise Panic("size is zero")
        if fn == 'windows': return from_list([Slice(b, lo + i, lo + i + k) for i in range(0, n - k + 1)])
        return from_list([Slice(b, lo + i, min(lo + i + k, hi)) for i in range(0, n, k)])
    raise Unsupported("Vec/slice method " + fn)
def _slice_get(M, a, c):
    for pat, f in ms.MODEL_PATTERNS:
        if pat.pattern == r'^core::slice::<impl \[.*\]>::get$': return f(M, a, c)
    raise Unsupported("slice get")
mo.MODELS_GET = _slice_get
@model_re(r'^alloc::vec::from_elem$|^std::vec::from_elem$')
def _(M, a, c):
    if a[1].sym(): raise Unsupported("vec![x; n] with symbolic n")
    return Native('Vec', b=[generic_clone(M, a[0]) for _ in range(a[1].v)])

# ------------------------------------------------------------------ str / String
ENUMS.setdefault('Cow', ['Borrowed', 'Owned'])
def byte_eq(M, x, y):
    """equality of two string elements; a Dec element stands for the decimal digits (and sign) of a symbolic integer and never equals a
    byte outside [-0-9]"""
    if isinstance(x, Dec) or isinstance(y, Dec):
        o = y if isinstance(x, Dec) else x
        if isinstance(o, Dec): return True if o is (x if o is y else y) else (_ for _ in ()).throw(Unsupported("comparison of two rendered symbolic integers"))
        if isinstance(o, Int) and not o.sym() and not (0x30 <= o.v <= 0x39 or o.v == 0x2d): return False
        raise Unsupported("a pattern may match inside the rendering of a symbolic integer")
    return M.binop('Eq', x, y)
def _bytes(x):
    v = x
    while isinstance(v, Ref): v = V(v)
    if isinstance(v, Agg) and v.ty.startswith('Cow') and v.fields: x = v.fields[0]        # Cow::Borrowed(&str) / Cow::Owned(String) built by the crate
    s = mo.as_slice(x)
    if isinstance(s, Ref): s = mo.as_slice(deref_all(s))
    return s
@model_re(r'^core::str::<impl str>::(is_empty|as_bytes|starts_with|ends_with|contains|is_char_boundary|to_owned|trim|trim_start|trim_end|find|get|as_ptr|to_string|to_lowercase|to_uppercase|eq_ignore_ascii_case|repeat|split_at)$|'
          r'^String::(as_str|as_bytes|push|push_str|clear|truncate|pop|insert|insert_str|capacity|reserve|with_capacity|from_utf8_lossy|from_utf8_unchecked|into_boxed_str|as_mut_str|chars|bytes|remove)$|^<String as From<.*>>::from$|^<str as ToOwned>::to_owned$|^<String as FromStr>::from_str$|'
          r'^std::str::from_utf8$|^core::str::from_utf8$|^from_utf8$|^str::from_utf8$|^std::string::String::from_utf8_lossy$|^<Cow<\'_, str> as (Deref|ToString|AsRef<str>)>::(deref|to_string|as_ref)$|^Cow::<\'_, str>::(into_owned|to_mut)$|^Cow::(into_owned|to_mut)$|^<String as (AsRef<str>|Borrow<str>|AsRef<\[u8\]>)>::(as_ref|borrow)$')
def _(M, a, c):
    nm = norm_name(c); fn = nm.split('::')[-1]
    if fn == 'with_capacity': return Native('String', b=[])
    if fn in ('from',):
        x = a[0]
        if isinstance(x, Int): return Native('String', b=encode_char(M, x))
        return Native('String', b=list(_bytes(x).items()))
    if fn == 'from_str': return ok(Native('String', b=list(_bytes(a[0]).items())))
    if fn in ('from_utf8_lossy', 'from_utf8') and (nm.startswith('String::from_utf8_lossy') or 'str::from_utf8' in nm or nm == 'from_utf8' or nm.endswith('String::from_utf8_lossy')):
        bs = list(_bytes(a[0]).items()) if not (isinstance(a[0], Native) and a[0].kind == 'Vec') else a[0].d['b']
        if any(isinstance(b, Dec) or b.sym() for b in bs):
            if M.branch(mo.utf8_valid_formula(bs)):
                return Native('String', b=list(bs)) if fn == 'from_utf8_lossy' else ok(Slice(bs, 0, len(bs), True))
            raise Unsupported("lossy / failed UTF-8 conversion of symbolic bytes")
        raw = bytes(b.v for b in bs)
        if fn == 'from_utf8_lossy': return Native('String', b=elems(raw.decode('utf-8', 'replace')))
        try: raw.decode('utf-8')
        except UnicodeDecodeError as e: return err(Native('FromUtf8Error', valid_up_to=e.start, error_len=(None if 'unexpected end' in e.reason else e.end - e.start)))
        return ok(Slice(bs, 0, len(bs), True))
    if fn == 'from_utf8_unchecked': return Native('String', b=a[0].d['b'])
    s = _bytes(a[0]); items = s.items(); n = len(items)
    owner = V(a[0]) if isinstance(a[0], Ref) else a[0]
    if fn in ('as_str', 'as_bytes', 'deref', 'as_ref', 'borrow', 'as_mut_str', 'into_boxed_str'): return Slice(s.b, s.lo, s.hi, fn not in ('as_bytes',))
    if fn in ('to_owned', 'to_string', 'into_owned'): return Native('String', b=list(items))
    if fn == 'to_mut': return a[0]
    if fn == 'is_empty': return n == 0
    if fn in ('capacity',): return usize(n)
    if fn == 'reserve': return UNIT
    if fn == 'chars': return MODELS_STR_ITER(M, a, 'core::str::<impl str>::chars')
    if fn == 'bytes': return from_list(list(items))
    if fn == 'push': owner.d['b'].extend(encode_char(M, a[1])); return UNIT
    if fn == 'push_str': owner.d['b'].extend(_bytes(a[1]).items()); return UNIT
    if fn == 'clear': del owner.d['b'][:]; return UNIT
    if fn == 'truncate':
        if a[1].sym(): raise Unsupported("symbolic truncate")
        if a[1].v < n:
            check_boundary(M, items, a[1].v); del owner.d['b'][a[1].v:]
        return UNIT
    if fn == 'is_char_boundary':
        k = a[1]
        if k.sym(): raise Unsupported("symbolic is_char_boundary")
        if k.v == 0 or k.v == n: return True
        if k.v > n: return False
        b = items[k.v]; return bnot(z3.And(z3.UGE(b.z(), 0x80), z3.ULE(b.z(), 0xBF))) if b.sym() else not (0x80 <= b.v <= 0xBF)
    if fn in ('starts_with', 'ends_with', 'contains', 'find'):
        pat = a[1]
        pb = encode_char(M, pat) if isinstance(pat, Int) else list(_bytes(pat).items())
        m = len(pb)
        def eq_at(i):
            r = True
            for x, y in zip(items[i:i + m], pb): r = band(r, byte_eq(M, x, y))
            return r
        if fn == 'starts_with': return eq_at(0) if m <= n else False
        if fn == 'ends_with': return eq_at(n - m) if m <= n else False
        for i in range(0, n - m + 1):
            if M.branch(eq_at(i)): return True if fn == 'contains' else some(usize(i))
        return False if fn == 'contains' else NONE()
    if fn in ('trim', 'trim_start', 'trim_end'):
        lo, hi = 0, n
        def ws(b): return M.branch(z3.Or(b.z() == 0x20, z3.And(z3.UGE(b.z(), 9), z3.ULE(b.z(), 13))))
        if fn in ('trim', 'trim_start'):
            while lo < hi and ws(items[lo]): lo += 1
        if fn in ('trim', 'trim_end'):
            while hi > lo and ws(items[hi - 1]): hi -= 1
        return Slice(s.b, s.lo + lo, s.lo + hi, True)
    if fn in ('pop', 'insert', 'insert_str', 'remove') and isinstance(V(a[0]) if isinstance(a[0], Ref) else a[0], Native):
        st = V(a[0]) if isinstance(a[0], Ref) else a[0]; b = st.d['b']
        if fn == 'pop':
            if not b: return NONE()
            k = len(b) - 1
            while k > 0 and M.branch(band(M.binop('Ge', b[k], U(8, 0x80)), M.binop('Lt', b[k], U(8, 0xC0)))): k -= 1
            ch, w = decode_char(M, Slice(b, 0, len(b), True), k); del b[k:]; return some(ch)
        if a[1].sym(): raise Unsupported("String::%s at a symbolic position" % fn)
        k = a[1].v
        if k > len(b) or (0 < k < len(b) and not b[k].sym() and 0x80 <= b[k].v < 0xC0): raise Panic("String::%s: position %d is not a char boundary" % (fn, k))
        if fn == 'insert': b[k:k] = encode_char(M, a[2]); return UNIT
        if fn == 'insert_str': b[k:k] = list(_bytes(a[2]).items()); return UNIT
        ch, w = decode_char(M, Slice(b, 0, len(b), True), k); del b[k:k + w]; return ch
    if fn in ('to_lowercase', 'to_uppercase', 'eq_ignore_ascii_case', 'repeat', 'get', 'split_at', 'pop', 'insert', 'insert_str', 'remove', 'as_ptr'):
        raise Unsupported("str::" + fn)
    raise Unsupported("str method " + fn)
def check_boundary(M, items, k):
    if 0 < k < len(items):
        b = items[k]
        if M.branch(z3.And(z3.UGE(b.z(), 0x80), z3.ULE(b.z(), 0xBF))): raise Panic("byte index %d is not a char boundary" % k)
def MODELS_STR_ITER(M, a, name):
    for pat, f in ms.MODEL_PATTERNS:
        if pat.pattern.startswith(r'^core::str::<impl str>::(chars|bytes|char_indices)$'): return f(M, a, name)
    raise Unsupported("chars")
@model_re(r'^char::methods::<impl char>::(len_utf8|is_alphabetic|is_numeric|is_whitespace|is_alphanumeric|to_digit|is_ascii|is_ascii_punctuation|is_ascii_lowercase|is_ascii_uppercase|is_ascii_hexdigit|is_digit|is_control|to_ascii_lowercase|to_ascii_uppercase)$')
def _(M, a, c):
    fn = norm_name(c).split('::')[-1]; ch = a[0].load() if isinstance(a[0], Ref) else a[0]; z = ch.z()
    def rng(lo, hi): return z3.And(z3.UGE(z, lo), z3.ULE(z, hi))
    if fn == 'len_utf8':
        if M.branch(z3.ULT(z, 0x80)): return usize(1)
        if M.branch(z3.ULT(z, 0x800)): return usize(2)
        return usize(3) if M.branch(z3.ULT(z, 0x10000)) else usize(4)
    if fn == 'is_ascii': return z3.simplify(z3.ULT(z, 0x80)) if ch.sym() else ch.v < 0x80
    simple = {'is_ascii_lowercase': rng(0x61, 0x7a), 'is_ascii_uppercase': rng(0x41, 0x5a), 'is_ascii_hexdigit': z3.Or(rng(0x30, 0x39), rng(0x41, 0x46), rng(0x61, 0x66)),
              'is_ascii_punctuation': z3.Or(rng(0x21, 0x2f), rng(0x3a, 0x40), rng(0x5b, 0x60), rng(0x7b, 0x7e))}
    if fn in simple:
        r = z3.simplify(simple[fn]); return True if z3.is_true(r) else False if z3.is_false(r) else r
    if fn in ('is_alphabetic', 'is_numeric', 'is_whitespace', 'is_alphanumeric', 'is_control'):
        # Unicode predicates: exact on ASCII; on non-ASCII characters the tables are not modelled
        if not M.branch(z3.ULT(z, 0x80)): raise Unsupported("Unicode table lookup (%s) on a non-ASCII character" % fn)
        al = z3.Or(rng(0x41, 0x5a), rng(0x61, 0x7a)); d = rng(0x30, 0x39)
        r = {'is_alphabetic': al, 'is_numeric': d, 'is_alphanumeric': z3.Or(al, d), 'is_whitespace': z3.Or(z == 0x20, rng(9, 13)), 'is_control': z3.Or(z3.ULT(z, 0x20), z == 0x7f)}[fn]
        r = z3.simplify(r); return True if z3.is_true(r) else False if z3.is_false(r) else r
    if fn in ('to_digit', 'is_digit'):
        radix = a[1].v
        d = rng(0x30, min(0x39, 0x30 + radix - 1))
        if M.branch(d): return some(U(32, z3.simplify(z - 0x30))) if fn == 'to_digit' else True
        if radix > 10:
            if M.branch(rng(0x61, 0x61 + radix - 11)): return some(U(32, z3.simplify(z - 0x61 + 10))) if fn == 'to_digit' else True
            if M.branch(rng(0x41, 0x41 + radix - 11)): return some(U(32, z3.simplify(z - 0x41 + 10))) if fn == 'to_digit' else True
        return NONE() if fn == 'to_digit' else False
    if fn in ('to_ascii_lowercase', 'to_ascii_uppercase'):
        up = rng(0x41, 0x5a) if fn == 'to_ascii_lowercase' else rng(0x61, 0x7a)
        if M.branch(up): return U(32, z3.simplify(z + 32 if fn == 'to_ascii_lowercase' else z - 32))
        return ch
    raise Unsupported("char::" + fn)

# ------------------------------------------------------------------ maps / sets
@model_re(r'^(BTreeMap|HashMap)::(remove|contains_key|is_empty|clear|extend|first_key_value|last_key_value|pop_first|pop_last|remove_entry|get_key_value|entry|with_capacity|retain|append)$|^(HashSet|BTreeSet)::(len|is_empty|clear|with_capacity|extend)$')
def _(M, a, c):
    nm = norm_name(c); fn = nm.split('::')[-1]
    if fn == 'with_capacity': return Native(nm.split('::')[0], m={})
    m = V(a[0]); d = m.d['m']
    if fn == 'remove':
        e = d.pop(skey(a[1]), None); return some(e[1]) if e else NONE()
    if fn == 'remove_entry':
        e = d.pop(skey(a[1]), None); return some(Agg('tuple', 0, [e[0], e[1]])) if e else NONE()
    if fn == 'contains_key': return skey(a[1]) in d
    if fn == 'get_key_value':
        e = d.get(skey(a[1])); return some(Agg('tuple', 0, [Ref(e, 0), Ref(e, 1)])) if e else NONE()
    if fn == 'is_empty': return len(d) == 0
    if fn == 'len': return usize(len(d))
    if fn == 'clear': d.clear(); return UNIT
    if fn in ('first_key_value', 'last_key_value', 'pop_first', 'pop_last'):
        if m.kind != 'BTreeMap': raise Unsupported(fn + " on " + m.kind)
        if not d: return NONE()
        k = sorted(d)[0 if 'first' in fn else -1]; e = d[k]
        if fn.startswith('pop'): del d[k]; return some(Agg('tuple', 0, [e[0], e[1]]))
        return some(Agg('tuple', 0, [Ref(e, 0), Ref(e, 1)]))
    if fn == 'extend':
        for t in drain(_it(M, a[1])):
            if m.kind in ('HashSet', 'BTreeSet'): d[skey(t)] = [t, UNIT]
            else:
                k, v = t.fields; d[skey(k)] = [generic_clone(M, deref_all(k)) if isinstance(k, Ref) else k, generic_clone(M, deref_all(v)) if isinstance(v, Ref) else v]
        return UNIT
    if fn == 'append':
        o = V(a[1]); d.update(o.d['m']); o.d['m'].clear(); return UNIT
    if fn == 'retain':
        for k in list(d):
            e = d[k]
            if not M.branch(callf(M, a[1], [Ref(e, 0), Ref(e, 1)])): del d[k]
        return UNIT
    raise Unsupported("map method " + fn)
@model_re(r'^(HashSet|BTreeSet)::(new)$|^BTreeSet::(insert|contains|remove)$')
def _(M, a, c):
    nm = norm_name(c); fn = nm.split('::')[-1]
    if fn == 'new': return Native(nm.split('::')[0], m={})
    m = V(a[0]); k = skey(a[1])
    if fn == 'insert':
        new = k not in m.d['m']; m.d['m'][k] = [a[1], UNIT]; return new
    if fn == 'contains': return k in m.d['m']
    return m.d['m'].pop(k, None) is not None

# ------------------------------------------------------------------ Arc / Rc / Mutex / RefCell neighbours
@model_re(r'^(Rc|Arc)::(new|ptr_eq|strong_count|clone|as_ptr)$|^<(Rc|Arc)<.*> as (Clone|Deref)>::(clone|deref)$')
def _(M, a, c):
    fn = norm_name(c).split('::')[-1]
    if fn == 'new': return Native('Arc', inner=a[0])
    if fn == 'ptr_eq': return V(a[0]) is V(a[1])
    if fn == 'clone': return V(a[0])
    if fn == 'deref': return Ref([V(a[0]).d['inner']], 0)
    if fn == 'as_ptr':
        # an opaque address: distinct live cells have distinct addresses; the numeric value itself must not reach an output
        o = V(a[0]); PTR_IDS.setdefault(id(o), (len(PTR_IDS) + 1) * 4096 + 0x7f0000000000); KEEP.append(o)
        return Int(64, False, PTR_IDS[id(o)])
    if fn == 'strong_count': raise Unsupported("Rc/Arc::strong_count")
    raise Unsupported("Rc/Arc::" + fn)
PTR_IDS = {}; KEEP = []
@model_re(r'^(std|core)::ptr::(const_ptr|mut_ptr)::<impl \*(const|mut) .*>::(cast|cast_const|cast_mut|addr|expose_provenance)$')
def _(M, a, c): return a[0]             # the opaque address stays what it is
@model_re(r'^(std|core)::ptr::(eq|addr_eq)$')
def _(M, a, c):
    p, q = a
    if isinstance(p, Int) and isinstance(q, Int): return M.binop('Eq', p, q)
    return (V(p) if isinstance(p, Ref) else p) is (V(q) if isinstance(q, Ref) else q)
@model_re(r'^std::sync::Mutex::<.*>::(lock|is_poisoned|into_inner|get_mut)$|^std::sync::Mutex::(lock|is_poisoned|into_inner|get_mut)$')
def _(M, a, c):
    fn = norm_name(c).split('::')[-1]; m = V(a[0])
    if fn == 'lock':
        if m.d['locked']: raise Panic("deadlock: Mutex::lock on a mutex already held by this thread (possible hang)")
        m.d['locked'] = True; return ok(Native('MutexGuard', mutex=m))
    if fn == 'is_poisoned': return False
    if fn == 'get_mut': return ok(Ref(m.d['slot'], 0))
    return ok(m.d['slot'][0])
@model_re(r'^(std::cell::)?Cell::(<.*>::)?(new|get|set|replace|take|into_inner|get_mut|update)$')
def _(M, a, c):
    fn = norm_name(c).split('::')[-1]
    if fn == 'new': return Native('Cell', slot=[a[0]])
    cell = V(a[0]) if isinstance(a[0], Ref) else a[0]
    if fn == 'get': return generic_clone(M, cell.d['slot'][0])
    if fn == 'set': cell.d['slot'][0] = a[1]; return UNIT
    if fn == 'replace': old = cell.d['slot'][0]; cell.d['slot'][0] = a[1]; return old
    if fn == 'into_inner': return cell.d['slot'][0]
    if fn == 'get_mut': return Ref(cell.d['slot'], 0)
    if fn == 'update': cell.d['slot'][0] = callf(M, a[1], [cell.d['slot'][0]]); return UNIT
    raise Unsupported("Cell::" + fn)      # (take: needs the Default of the content type)
@model_re(r'^std::cell::RefCell::(new)$|^RefCell::(new|borrow|borrow_mut|try_borrow|try_borrow_mut|into_inner)$|^<std::cell::Ref(Mut)?<.*> as Deref(Mut)?>::deref(_mut)?$')
def _(M, a, c):
    fn = norm_name(c).split('::')[-1]
    if fn == 'new': return Native('RefCell', n=0, slot=[a[0]])
    if fn in ('deref', 'deref_mut'): return Ref(V(a[0]).d['cell'].d['slot'], 0)
    cell = V(a[0])
    if fn == 'into_inner': return cell.d['slot'][0]
    mut = 'mut' in fn; bad = (cell.d['n'] != 0) if mut else (cell.d['n'] < 0)
    if bad:
        if fn.startswith('try_'): return err(Native('ZST', name='BorrowError'))
        raise Panic("already %sborrowed" % ('' if mut else 'mutably '))
    cell.d['n'] = -1 if mut else cell.d['n'] + 1
    g = Native('RefGuard', cell=cell, mut=mut)
    return ok(g) if fn.startswith('try_') else g
_old_drop = Machine.do_drop
def _do_drop(self, v, depth=0):
    if isinstance(v, Native) and v.kind == 'RefGuard':
        c = v.d['cell']; c.d['n'] = 0 if v.d['mut'] else max(0, c.d['n'] - 1); return
    return _old_drop(self, v, depth)
Machine.do_drop = _do_drop

# ------------------------------------------------------------------ ordering
ENUMS['Ordering'] = ['Less', 'Equal', 'Greater']
@model_re(r'^<&?[iu](8|16|32|64|size) as (Ord|PartialOrd)(<.*>)?>::(cmp|partial_cmp)$')
def _(M, a, c):
    x, y = deref_all(a[0]), deref_all(a[1]); fn = norm_name(c).split('::')[-1]
    v = 0 if M.branch(M.binop('Lt', x, y)) else (1 if M.branch(M.binop('Eq', x, y)) else 2)
    o = Agg('Ordering', v, [])
    o.variant = v
    return some(o) if fn == 'partial_cmp' else o
@model_re(r'^[iu](8|16|32|64|size)::(abs_diff|pow|leading_zeros|trailing_zeros|count_ones|is_positive|is_negative|unsigned_abs)$|^core::num::<impl [iu](8|16|32|64|size)>::(abs_diff|pow|is_positive|is_negative|unsigned_abs)$')
def _(M, a, c):
    fn = norm_name(c).split('::')[-1]; x = deref_all(a[0]); zero = Int(x.w, x.s, 0)
    if fn == 'is_positive': return M.binop('Gt', x, zero)
    if fn == 'is_negative': return M.binop('Lt', x, zero)
    if fn == 'unsigned_abs':
        return Int(x.w, False, (-x.v if M.branch(M.binop('Lt', x, zero)) else x.v))
    if fn == 'abs_diff':
        y = deref_all(a[1])
        return Int(x.w, False, (x.v - y.v) if M.branch(M.binop('Ge', x, y)) else (y.v - x.v))
    if fn == 'pow':
        e = deref_all(a[1])
        if e.sym(): raise Unsupported("pow with a symbolic exponent")
        r = Int(x.w, x.s, 1)
        for _ in range(e.v):
            ov = ms.mul_overflows(M, r, x) if hasattr(ms, 'mul_overflows') else None
            r2 = M.binop('Mul', r, x)
            if not x.sym() and not r.sym():
                lo_ = -(1 << (x.w - 1)) if x.s else 0; hi_ = (1 << (x.w - 1)) - 1 if x.s else (1 << x.w) - 1
                if not (lo_ <= r.v * x.v <= hi_): raise Panic("attempt to multiply with overflow")
            elif M.branch(bnot(z3.And(z3.BVMulNoOverflow(r.z(), x.z(), x.s), z3.BVMulNoUnderflow(r.z(), x.z())) if x.s else z3.BVMulNoOverflow(r.z(), x.z(), False))): raise Panic("attempt to multiply with overflow")
            r = r2
        return r
    raise Unsupported("int method " + fn)

# ------------------------------------------------------------------ {:?} of std composites and of derived impls, by value
def dbg_value(M, v, ty=''):
    """Debug rendering (not pretty) of a run-time value: integers, bools, chars (by type hint), strings, Vec / slices / arrays, tuples,
    Option / Result / Ordering, and crate types through their own (derived) impl"""
    v = deref_all(v); base = ty.lstrip('&').strip()
    if isinstance(v, bool): return elems('true' if v else 'false')
    if isinstance(v, Int):
        if base == 'char': return dbg_char(M, v)
        if v.sym(): return [Dec(v.v)] if v.s and v.w == 64 else mo.render_usize_sym(M, v)
        return elems(str(v.v))
    if z3.is_expr(v) and z3.is_bool(v): return elems('true' if M.branch(v) else 'false')
    if isinstance(v, Slice) and v.is_str: return dbg_str(M, v.items())
    if isinstance(v, Native) and v.kind == 'String': return dbg_str(M, v.d['b'])
    if isinstance(v, (Slice, Native)) and (isinstance(v, Slice) or v.kind == 'Vec'):
        b, lo, hi = _list_of(v); inner = re.sub(r'^(Vec<|\[)', '', base).rstrip('>]')
        out = elems('[')
        for i, e in enumerate(b[lo:hi]): out += (elems(', ') if i else []) + dbg_value(M, e, inner)
        return out + elems(']')
    if isinstance(v, Native) and v.kind in ('Box', 'Arc'): return dbg_value(M, v.d['slot'][0] if 'slot' in v.d else v.d['inner'])
    if isinstance(v, Agg):
        if v.ty == 'tuple':
            if not v.fields: return elems('()')
            out = elems('(')
            for i, e in enumerate(v.fields): out += (elems(', ') if i else []) + dbg_value(M, e)
            return out + (elems(',)') if len(v.fields) == 1 else elems(')'))
        if v.ty == 'array':
            out = elems('[')
            for i, e in enumerate(v.fields): out += (elems(', ') if i else []) + dbg_value(M, e)
            return out + elems(']')
        if v.ty in ('Option', 'Result', 'Ordering', 'Cow'):
            name = ENUMS[v.ty][v.variant]
            if v.ty == 'Cow': return dbg_value(M, v.fields[0])
            return elems(name) + ((elems('(') + dbg_value(M, v.fields[0]) + elems(')')) if v.fields else [])
        body = mo.find_method(M, 'fmt', r'&(?:\w+::)*' + re.escape(v.ty.split('::')[-1]) + r'(?:<[^,)]*>)?', 'Debug')
        if body is not None: return mo.run_fmt_body(M, body, v)
    raise Unsupported("Debug of %r" % (type(v).__name__ if not isinstance(v, Agg) else v.ty))
@model_re(r'^Formatter::(debug_struct_field\d_finish|debug_tuple_field\d_finish|debug_struct_fields_finish|debug_tuple_fields_finish)$')
def _(M, a, c):
    fn = norm_name(c).split('::')[-1]; f = V(a[0]); out = list(toelems(a[1]))
    rest = a[2:]
    if fn.startswith('debug_struct_field'):
        out += elems(' { ')
        for i in range(0, len(rest), 2): out += (elems(', ') if i else []) + list(toelems(rest[i])) + elems(': ') + dbg_value(M, rest[i + 1])
        out += elems(' }')
    elif fn.startswith('debug_tuple_field'):
        out += elems('(')
        for i, x in enumerate(rest): out += (elems(', ') if i else []) + dbg_value(M, x)
        out += elems(')')
    else:
        names = list(_list_of(rest[0])[0]) if fn == 'debug_struct_fields_finish' else None
        vals = _list_of(rest[-1]); vals = vals[0][vals[1]:vals[2]]
        if names is not None:
            out += elems(' { ')
            for i, x in enumerate(vals): out += (elems(', ') if i else []) + list(toelems(names[i])) + elems(': ') + dbg_value(M, x)
            out += elems(' }')
        else:
            out += elems('(')
            for i, x in enumerate(vals): out += (elems(', ') if i else []) + dbg_value(M, x)
            out += elems(')')
    f.d['buf'].append(out); return ok(UNIT)
# ------------------------------------------------------------------ derived Debug ({:?}) of the front end's types, by structure
def dbg_str(M, els, quote='"'):
    out = elems(quote)
    for e in els:
        if isinstance(e, Dec) or e.sym(): raise Unsupported("Debug of a symbolic string")
        out_b = {0x22: b'\\"', 0x5c: b'\\\\', 0x0a: b'\\n', 0x0d: b'\\r', 0x09: b'\\t', 0x00: b'\\0', 0x27: b"'"}.get(e.v)
        if quote == "'" and e.v == 0x27: out_b = b"\\'"
        if quote == "'" and e.v == 0x22: out_b = b'"'
        if out_b is None:
            out_b = bytes([e.v]) if e.v >= 0x20 and e.v != 0x7f else ('\\u{%x}' % e.v).encode()
        out += elems(out_b)
    return out + elems(quote)
def dbg_char(M, ch):
    if ch.sym(): raise Unsupported("Debug of a symbolic char")
    return dbg_str(M, encode_char(M, ch), "'")
def dbg_loc(M, t):
    a, b = t.fields
    if a.sym() or b.sym(): raise Unsupported("Debug of a symbolic location")
    return elems('(%d, %d)' % (a.v, b.v))
def dbg_token(M, t):
    name = ENUMS['Token'][t.variant]
    if not t.fields: return elems(name)
    parts = []
    for f in t.fields:
        if isinstance(f, Int):
            if f.sym(): raise Unsupported("Debug of a symbolic integer")
            parts.append(elems(str(f.v)))
        elif isinstance(f, Native) and f.kind == 'String': parts.append(dbg_str(M, f.d['b']))
        elif isinstance(f, Native) and f.kind == 'Vec':
            inner = []
            for i, x in enumerate(f.d['b']):
                if i: inner += elems(', ')
                inner += dbg_loc(M, x)
            parts.append(elems('[') + inner + elems(']'))
        else: raise Unsupported("Debug of token payload")
    out = elems(name + '(')
    for i, p in enumerate(parts):
        if i: out += elems(', ')
        out += p
    return out + elems(')')
def dbg_lexerror(M, e):
    name = ENUMS['LexError'][e.variant]
    out = elems(name + '(')
    for i, f in enumerate(e.fields):
        if i: out += elems(', ')
        if isinstance(f, Agg) and f.ty == 'tuple': out += dbg_loc(M, f)
        elif isinstance(f, Int): out += dbg_char(M, f)
        elif isinstance(f, Native) and f.kind == 'String': out += dbg_str(M, f.d['b'])
        else: raise Unsupported("Debug of LexError payload")
    return out + elems(')')
def dbg_parse_error(M, e):
    name = ENUMS['ParseError'][e.variant]; f = e.fields
    def triple(t): return elems('(') + dbg_loc(M, t.fields[0]) + elems(', ') + dbg_token(M, t.fields[1]) + elems(', ') + dbg_loc(M, t.fields[2]) + elems(')')
    def strs(v):
        out = elems('[')
        for i, s in enumerate(v.d['b']):
            if i: out += elems(', ')
            out += dbg_str(M, s.d['b'])
        return out + elems(']')
    if name == 'InvalidToken': return elems('InvalidToken { location: ') + dbg_loc(M, f[0]) + elems(' }')
    if name == 'UnrecognizedEof': return elems('UnrecognizedEof { location: ') + dbg_loc(M, f[0]) + elems(', expected: ') + strs(f[1]) + elems(' }')
    if name == 'UnrecognizedToken': return elems('UnrecognizedToken { token: ') + triple(f[0]) + elems(', expected: ') + strs(f[1]) + elems(' }')
    if name == 'ExtraToken': return elems('ExtraToken { token: ') + triple(f[0]) + elems(' }')
    if name == 'User': return elems('User { error: ') + dbg_lexerror(M, f[0]) + elems(' }')
    raise Unsupported("Debug of ParseError::" + name)
_old_render_one = mo.render_one
def _render_one(M, fa):
    ty = fa.d['ty']; kind = fa.d['fk']; base = ty.lstrip('&')
    if kind == 'debug':
        v = deref_all(fa.d['v'])
        if base.startswith('ParseError<') or base.startswith('lalrpop_util::ParseError<'): return dbg_parse_error(M, v)
        if base in ('LexError', 'lexer::LexError'): return dbg_lexerror(M, v)
        if base == 'Token': return dbg_token(M, v)
        if base in ('String', 'str'): return dbg_str(M, toelems(v))
        if base == 'char': return dbg_char(M, v)
        if base in INT_TY and base != 'char' and isinstance(v, Int) and not v.sym(): return elems(str(v.v))
        if base == '(usize, usize)': return dbg_loc(M, v)
    return _old_render_one(M, fa)
mo.render_one = _render_one

@model_re(r'^<Option<.*> as PartialEq>::(eq|ne)$')
def _(M, a, c):
    x, y = V(a[0]), V(a[1]); neg = norm_name(c).endswith('::ne')
    if x.variant != y.variant: return neg
    if x.variant == 0: return not neg
    p, q = deref_all(x.fields[0]), deref_all(y.fields[0])
    if isinstance(p, Int): r = M.binop('Eq', p, q)
    elif isinstance(p, bool) or (not isinstance(p, (Agg, Native)) and z3.is_expr(p)): r = beq(p, q)
    elif isinstance(p, Native) and p.kind == 'String': r = ms.m_str_eq(M, [p, q], c)
    elif isinstance(p, Agg) and M.lookup('<%s as PartialEq>::eq' % p.ty) is not None:
        r = M.call(M.lookup('<%s as PartialEq>::eq' % p.ty), [Ref([p], 0), Ref([q], 0)])
    else: raise Unsupported("Option<T> == for T = %r" % (p,))
    return bnot(r) if neg else r

def generic_eq(M, p, q):
    """structural PartialEq of std composites (derive semantics): returns python bool or z3 Bool"""
    p, q = deref_all(p), deref_all(q)
    if isinstance(p, Int) and isinstance(q, Int): return M.binop('Eq', p, q)
    if isinstance(p, bool) or isinstance(q, bool) or (not isinstance(p, (Agg, Native, Slice)) and z3.is_expr(p)): return beq(p, q)
    if isinstance(p, (Native, Slice)) and isinstance(q, (Native, Slice)):
        kp = p.kind if isinstance(p, Native) else 'Slice'
        if kp in ('String', 'Vec', 'Slice'):
            pb, plo, phi = _list_of(p); qb, qlo, qhi = _list_of(q)
            if phi - plo != qhi - qlo: return False
            r = True
            for x, y in zip(pb[plo:phi], qb[qlo:qhi]): r = band(r, generic_eq(M, x, y))
            return r
        if kp == 'FromUtf8Error' and isinstance(q, Native) and q.kind == 'FromUtf8Error':
            if p.d.get('sym') or q.d.get('sym'): raise Unsupported('== on Utf8Error values over symbolic bytes')
            return (p.d['valid_up_to'], p.d['error_len']) == (q.d['valid_up_to'], q.d['error_len'])
        if kp in ('Arc', 'Rc'): return generic_eq(M, p.d['inner'], q.d['inner'])
        if kp == 'Box': return generic_eq(M, p.d['slot'][0], q.d['slot'][0])
        raise Unsupported("== on " + kp)
    if isinstance(p, Agg) and isinstance(q, Agg):
        if p.ty not in ('tuple', 'Option', 'Result', 'array', 'ParseIntError', 'IntErrorKind', 'Ordering'):
            key = M.lookup('<%s as PartialEq>::eq' % p.ty)
            if key is not None: return M.call(key, [Ref([p], 0), Ref([q], 0)])
        if p.variant != q.variant or len(p.fields) != len(q.fields): return False
        r = True
        for x, y in zip(p.fields, q.fields): r = band(r, generic_eq(M, x, y))
        return r
    raise Unsupported("== on %r / %r" % (type(p).__name__, type(q).__name__))
@model_re(r'^<(std::result::Result<.*>|Result<.*>|Option<.*>|\(.*\)|Vec<.*>|\[.*\]|&\[.*\]|ParseIntError|IntErrorKind|std::cmp::Ordering) as PartialEq(<.*>)?>::(eq|ne)$')
def _(M, a, c):
    r = generic_eq(M, a[0], a[1])
    return bnot(r) if norm_name(c).endswith('::ne') else r

class _SymBytes:
    """byte string with symbolic parts, ordered lexicographically as far as the concrete parts decide"""
    __slots__ = ('b',)
    def __init__(self, b): self.b = list(b)
    def _cmp(self, o):
        for x, y in zip(self.b, o.b):
            if x is y: continue
            cx = isinstance(x, Int) and not x.sym(); cy = isinstance(y, Int) and not y.sym()
            if cx and cy:
                if x.v != y.v: return -1 if x.v < y.v else 1
                continue
            raise Unsupported("sort: the order of two strings depends on symbolic bytes")
        return (len(self.b) > len(o.b)) - (len(self.b) < len(o.b))
    def __lt__(self, o): return self._cmp(o) < 0
    def __gt__(self, o): return self._cmp(o) > 0
    def __le__(self, o): return self._cmp(o) <= 0
    def __ge__(self, o): return self._cmp(o) >= 0
    def __eq__(self, o): return self._cmp(o) == 0
    def __ne__(self, o): return self._cmp(o) != 0
def _sort_key(M, k):
    k = deref_all(k)
    if isinstance(k, Int):
        if k.sym(): raise Unsupported("sort on symbolic integer keys")
        return (0, k.v)
    if isinstance(k, (Native, Slice)) and (isinstance(k, Slice) or k.kind in ('String', 'Vec')):
        b, lo, hi = _list_of(k)
        if any(isinstance(e, Dec) or e.sym() for e in b[lo:hi]): return (1, _SymBytes(b[lo:hi]))
        return (1, _SymBytes(b[lo:hi]))
    if isinstance(k, bool): return (2, k)
    if isinstance(k, Agg) and k.ty == 'tuple': return (3, tuple(_sort_key(M, f) for f in k.fields))
    raise Unsupported("sort key %r" % (k,))
@model_re(r'^(std|core|alloc)::slice::<impl \[.*\]>::(sort|sort_unstable|sort_by_key|sort_unstable_by_key|sort_by|sort_unstable_by|sort_by_cached_key)$|^Vec::(sort|sort_by_key|sort_by|sort_unstable|dedup)$')
def _(M, a, c):
    fn = norm_name(c).split('::')[-1]; b, lo, hi = _list_of(a[0]); items = b[lo:hi]
    if fn in ('sort', 'sort_unstable'): keyed = sorted(items, key=lambda x: _sort_key(M, x))
    elif 'by_key' in fn or 'cached_key' in fn: keyed = sorted(items, key=lambda x: _sort_key(M, callf(M, a[1], [Ref([x], 0)])))
    elif fn in ('sort_by', 'sort_unstable_by'):
        import functools
        def cmp(x, y):
            o = callf(M, a[1], [Ref([x], 0), Ref([y], 0)]); return o.variant - 1
        keyed = sorted(items, key=functools.cmp_to_key(cmp))
    else: raise Unsupported("slice::" + fn)
    b[lo:hi] = keyed
    return UNIT
@model_re(r'^(std|core|alloc)::str::<impl str>::(to_lowercase|to_uppercase|to_ascii_lowercase|to_ascii_uppercase)$|^core::str::<impl str>::(to_lowercase|to_uppercase|to_ascii_lowercase|to_ascii_uppercase)$')
def _(M, a, c):
    fn = norm_name(c).split('::')[-1]; items = list(_bytes(a[0]).items()); out = []
    for e in items:
        if isinstance(e, Dec) or e.sym(): raise Unsupported("case mapping of a symbolic string")
        if e.v >= 0x80 and 'ascii' not in fn: raise Unsupported("Unicode case mapping of non-ASCII text")
        v = e.v
        if 'lower' in fn and 0x41 <= v <= 0x5a: v += 32
        if 'upper' in fn and 0x61 <= v <= 0x7a: v -= 32
        out.append(U(8, v))
    return Native('String', b=out)
@model_re(r'^<&?(String|str|&str) as (Ord|PartialOrd)(<.*>)?>::(cmp|partial_cmp|lt|le|gt|ge)$')
def _(M, a, c):
    fn = norm_name(c).split('::')[-1]; x = _sort_key(M, as_str_native(a[0])); y = _sort_key(M, as_str_native(a[1]))
    v = 0 if x < y else (1 if x == y else 2)
    if fn in ('lt', 'le', 'gt', 'ge'): return {'lt': v == 0, 'le': v <= 1, 'gt': v == 2, 'ge': v >= 1}[fn]
    o = Agg('Ordering', v, [])
    return some(o) if fn == 'partial_cmp' else o
def as_str_native(x):
    s = _bytes(x); return Slice(s.b, s.lo, s.hi, True)

# ---- io::Write on stdout / stderr
_SW = {'n': 0}
def _short_write(M, st, data):
    """`Write::write` may write any non-empty prefix of the buffer (its documented contract): demonic choice between the whole buffer
    and a short write (one byte; half of the buffer) -- the caller has to loop (`write_all`)"""
    n = len(data)
    _SW['n'] += 1
    if n >= 2 and _SW['n'] <= 3:          # (bounded: the first three `write` calls of a path are demonic)
        mo.FORK_CHOICE['n'] += 1
        sel = z3.BitVec('shortwrite%d' % mo.FORK_CHOICE['n'], 8); M.assume(z3.ULT(sel, 3))
        if M.branch(sel == 1): n = 1
        elif M.branch(sel == 2): n = max(1, n // 2)
    mo.OUT[st.d['which']].append(data[:n])
    return ok(usize(n))
@model_re(r'^std::io::(stdout|stderr)$|^(stdout|stderr)$')
def _(M, a, c): return Native('Stream', which='stdout' if 'stdout' in c else 'stderr')
@model_re(r'^(std::io::)?(Stdout|Stderr)::lock$|^<(std::io::)?(Stdout|Stderr)(Lock<.*>)? as Write>::(flush|by_ref)$')
def _(M, a, c):
    fn = norm_name(c).split('::')[-1]
    if fn == 'flush': return ok(UNIT)
    return V(a[0])
@model_re(r'^<(std::io::)?(Stdout|Stderr|StdoutLock<.*>|StderrLock<.*>|&mut (std::io::)?StdoutLock<.*>) as Write>::(write_all|write_fmt|write|write_str)$|^std::io::Write::(write_all|write_fmt|write)$')
def _(M, a, c):
    fn = norm_name(c).split('::')[-1]; st = V(a[0])
    if not (isinstance(st, Native) and st.kind == 'Stream'): raise Unsupported("Write on %r" % (st,))
    if fn == 'write_fmt': data = mo.render_args(M, a[1])
    else:
        b, lo, hi = _list_of(a[1]); data = list(b[lo:hi])
    if fn == 'write': return _short_write(M, st, data)
    mo.OUT[st.d['which']].append(data)
    return ok(UNIT)
@model_re(r'^(std|core)::mem::drop$')
def _(M, a, c):
    M.do_drop(a[0]); return UNIT
@model_re(r'^Option::flatten$')
def _(M, a, c): return a[0].fields[0] if a[0].variant == 1 else NONE()
@model_re(r'^<.* as (Fn|FnMut|FnOnce)<\(.*\)>>::(call|call_mut|call_once)$')
def _(M, a, c):
    # a call through a generic `impl Fn..` / `F: Fn..` parameter: the argument tuple is spread
    args = a[1].fields if isinstance(a[1], Agg) and a[1].ty == 'tuple' else [a[1]]
    return callf(M, a[0], list(args))
@model_re(r'^Option::unzip$')
def _(M, a, c):
    o = a[0]
    if o.variant == 0: return Agg('tuple', 0, [NONE(), NONE()])
    t = o.fields[0]; return Agg('tuple', 0, [some(t.fields[0]), some(t.fields[1])])
@model_re(r'^core::bool::<impl bool>::(then|then_some)$')
def _(M, a, c):
    fn = norm_name(c).split('::')[-1]
    if not M.branch(a[0]): return NONE()
    return some(a[1]) if fn == 'then_some' else some(callf(M, a[1], []))
@model_re(r'^(std::iter::|core::iter::)?(once|empty|repeat_n|once_with)$')
def _(M, a, c):
    fn = norm_name(c).split('::')[-1]
    if fn == 'once': return from_list([a[0]])
    if fn == 'once_with': return from_list([callf(M, a[0], [])])
    if fn == 'empty': return from_list([])
    if a[1].sym(): raise Unsupported("repeat_n with a symbolic count")
    return from_list([generic_clone(M, a[0]) for _ in range(a[1].v)])
@model_re(r'^<String as (std::fmt::|core::fmt::)?Write>::(write_fmt|write_str|write_char)$')
def _(M, a, c):
    fn = norm_name(c).split('::')[-1]; s = V(a[0])
    if fn == 'write_fmt': s.d['b'].extend(mo.render_args(M, a[1]))
    elif fn == 'write_str': s.d['b'].extend(_bytes(a[1]).items())
    else: s.d['b'].extend(encode_char(M, a[1]))
    return ok(UNIT)
@model_re(r'^Option::transpose$|^std::result::Result::transpose$|^Result::transpose$')
def _(M, a, c):
    x = a[0]
    if norm_name(c).startswith('Option'):
        # Option<Result<T, E>> -> Result<Option<T>, E>
        if x.variant == 0: return ok(NONE())
        r = x.fields[0]
        return ok(some(r.fields[0])) if r.variant == 0 else err(r.fields[0])
    # Result<Option<T>, E> -> Option<Result<T, E>>
    if x.variant == 1: return some(err(x.fields[0]))
    o = x.fields[0]
    return some(ok(o.fields[0])) if o.variant == 1 else NONE()
@model_re(r'^Peekable::(peek|peek_mut|next_if|next_if_eq)$')
def _(M, a, c):
    fn = norm_name(c).split('::')[-1]; p = V(a[0]); st = p.d.get('peek')
    if st is None: raise Unsupported("peek on an iterator that was not made by peekable()")
    if not st['buf']:
        x = p.d['src'].nxt()
        if x is STOP: return NONE()
        st['buf'].append(x)
    if fn in ('peek', 'peek_mut'): return some(Ref(st['buf'], 0))
    x = st['buf'][0]
    hit = M.branch(callf(M, a[1], [Ref([x], 0)])) if fn == 'next_if' else M.branch(generic_eq(M, x, a[1]))
    if hit: st['buf'].pop(0); return some(x)
    return NONE()
@model_re(r'^<String as Add<&str>>::add$')
def _(M, a, c):
    a[0].d['b'].extend(_bytes(a[1]).items()); return a[0]
@model_re(r'^(std::collections::)?VecDeque::(<.*>::)?(new|with_capacity|push_back|push_front|pop_back|pop_front|len|is_empty|front|back|iter|clear|get|contains|front_mut|back_mut)$')
def _(M, a, c):
    fn = norm_name(c).split('::')[-1]
    if fn in ('new', 'with_capacity'): return Native('Vec', b=[])
    v = V(a[0]); b = v.d['b']
    if fn == 'push_back': b.append(a[1]); return UNIT
    if fn == 'push_front': b.insert(0, a[1]); return UNIT
    if fn == 'pop_back': return some(b.pop()) if b else NONE()
    if fn == 'pop_front': return some(b.pop(0)) if b else NONE()
    if fn == 'len': return usize(len(b))
    if fn == 'is_empty': return len(b) == 0
    if fn in ('front', 'front_mut'): return some(Ref(b, 0)) if b else NONE()
    if fn in ('back', 'back_mut'): return some(Ref(b, len(b) - 1)) if b else NONE()
    if fn == 'iter': return from_refs(b, 0, len(b))
    if fn == 'clear': del b[:]; return UNIT
    if fn == 'get':
        k = concretize(M, a[1], len(b) - 1) if b else None
        return NONE() if k is None else some(Ref(b, k))
    if fn == 'contains':
        r = False
        for e in b: r = bor(r, generic_eq(M, e, a[1]))
        return r
    raise Unsupported("VecDeque::" + fn)
@model_re(r'^core::slice::<impl \[.*\]>::(binary_search|rotate_left|rotate_right|fill|starts_with|ends_with|concat|iter_mut|copy_from_slice|swap)$|^Vec::(dedup|dedup_by_key)$')
def _(M, a, c):
    fn = norm_name(c).split('::')[-1]; b, lo, hi = _list_of(a[0]); items = b[lo:hi]; n = hi - lo
    if fn == 'binary_search':
        ks = [_sort_key(M, x) for x in items]; k = _sort_key(M, a[1])
        import bisect
        i = bisect.bisect_left(ks, k)
        return ok(usize(i)) if i < n and ks[i] == k else err(usize(i))
    if fn in ('rotate_left', 'rotate_right'):
        if a[1].sym(): raise Unsupported("rotate by a symbolic amount")
        k = a[1].v
        if k > n: raise Panic("rotate: mid > len")
        b[lo:hi] = (items[k:] + items[:k]) if fn == 'rotate_left' else (items[n - k:] + items[:n - k]); return UNIT
    if fn == 'fill':
        for i in range(lo, hi): b[i] = generic_clone(M, a[1])
        return UNIT
    if fn in ('starts_with', 'ends_with'):
        qb, qlo, qhi = _list_of(a[1]); m = qhi - qlo
        if m > n: return False
        part = items[:m] if fn == 'starts_with' else items[n - m:]
        r = True
        for x, y in zip(part, qb[qlo:qhi]): r = band(r, generic_eq(M, x, y))
        return r
    if fn in ('dedup', 'dedup_by_key'):
        out = []
        for x in items:
            if out:
                kx = x if fn == 'dedup' else callf(M, a[1], [Ref([x], 0)]); kp = out[-1] if fn == 'dedup' else callf(M, a[1], [Ref([out[-1]], 0)])
                if M.branch(generic_eq(M, kx, kp)): continue
            out.append(x)
        b[lo:hi] = out; return UNIT
    if fn == 'iter_mut': return from_refs(b, lo, hi)
    if fn == 'swap':
        i = concretize(M, a[1], n - 1); j = concretize(M, a[2], n - 1)
        if i is None or j is None: raise Panic("index out of bounds in swap")
        b[lo + i], b[lo + j] = b[lo + j], b[lo + i]; return UNIT
    if fn == 'copy_from_slice':
        qb, qlo, qhi = _list_of(a[1])
        if qhi - qlo != n: raise Panic("source slice length does not match destination slice length")
        b[lo:hi] = list(qb[qlo:qhi]); return UNIT
    raise Unsupported("slice::" + fn)
@model_re(r'^(std::str::|core::str::)?Utf8Error::(valid_up_to|error_len)$|^FromUtf8Error::(utf8_error|into_bytes)$')
def _(M, a, c):
    fn = norm_name(c).split('::')[-1]; e = V(a[0]) if isinstance(a[0], Ref) else a[0]
    if fn == 'utf8_error': return e
    if e.d.get('sym'): raise Unsupported("Utf8Error details over symbolic bytes")
    if fn == 'valid_up_to': return usize(e.d['valid_up_to'])
    if fn == 'error_len': return NONE() if e.d['error_len'] is None else some(usize(e.d['error_len']))
    raise Unsupported(fn)
@model_re(r'^(std::char::|core::char::)?from_digit$|^char::methods::<impl char>::(from_digit|from_u32|to_ascii_uppercase|to_ascii_lowercase|is_ascii|len_utf8|eq_ignore_ascii_case|is_ascii_punctuation|is_ascii_hexdigit)$|^(std::char::|core::char::)?from_u32$')
def _(M, a, c):
    fn = norm_name(c).split('::')[-1]; x = a[0].load() if isinstance(a[0], Ref) else a[0]
    if fn == 'from_digit':
        if x.sym() or a[1].sym(): raise Unsupported("from_digit on symbolic values")
        if a[1].v > 36: raise Panic("from_digit: radix is too high (maximum 36)")
        if x.v >= a[1].v: return NONE()
        return some(Int(32, False, ord('0123456789abcdefghijklmnopqrstuvwxyz'[x.v])))
    if fn == 'from_u32':
        return M.do_call('<char as TryFrom<u32>>::try_from', [x], None).variant == 0 and some(ms.int_cast(x, 32, False)) or NONE()
    if x.sym() and fn != 'len_utf8' and fn != 'is_ascii':
        z = x.z(); up = z3.And(z3.UGE(z, 0x41), z3.ULE(z, 0x5a)); lowr = z3.And(z3.UGE(z, 0x61), z3.ULE(z, 0x7a))
        if fn == 'to_ascii_uppercase': return Int(32, False, z3.If(lowr, z - 32, z))
        if fn == 'to_ascii_lowercase': return Int(32, False, z3.If(up, z + 32, z))
        raise Unsupported("char::" + fn + " on a symbolic character")
    if fn == 'is_ascii': return M.binop('Lt', x, Int(x.w, False, 0x80))
    if fn == 'len_utf8':
        if M.branch(M.binop('Lt', x, Int(32, False, 0x80))): return usize(1)
        if M.branch(M.binop('Lt', x, Int(32, False, 0x800))): return usize(2)
        return usize(3) if M.branch(M.binop('Lt', x, Int(32, False, 0x10000))) else usize(4)
    ch = chr(x.v)
    if fn == 'to_ascii_uppercase': return Int(32, False, ord(ch.upper()) if ch.isascii() else x.v)
    if fn == 'to_ascii_lowercase': return Int(32, False, ord(ch.lower()) if ch.isascii() else x.v)
    if fn == 'is_ascii_punctuation': return ch.isascii() and ch in '!"#$%&\'()*+,-./:;<=>?@[\\]^_`{|}~'
    if fn == 'is_ascii_hexdigit': return ch in '0123456789abcdefABCDEF'
    if fn == 'eq_ignore_ascii_case':
        y = a[1].load() if isinstance(a[1], Ref) else a[1]
        return (ch.lower() if ch.isascii() else ch) == (chr(y.v).lower() if chr(y.v).isascii() else chr(y.v))
    raise Unsupported("char::" + fn)
@model_re(r'^<(HashMap|BTreeMap)<.*> as Index<.*>>::index$')
def _(M, a, c):
    m = V(a[0]); k = skey(a[1])
    if k not in m.d['m']: raise Panic("key not found in map index")
    return Ref(m.d['m'][k], 1)
@model_re(r'^<(std::cell::)?Ref(Mut)?<.*> as Deref(Mut)?>::deref(_mut)?$')
def _(M, a, c): return Ref(V(a[0]).d['cell'].d['slot'], 0)
@model_re(r'^(std::ops::)?RangeInclusive::(<.*>::)?(new|start|end|contains|is_empty)$|^(std::ops::)?Range::(<.*>::)?(contains|is_empty)$')
def _(M, a, c):
    nm = norm_name(c); fn = nm.split('::')[-1]; incl = 'RangeInclusive' in nm
    if fn == 'new': return Agg('RangeInclusive', 0, [a[0], a[1]])
    r = V(a[0]) if isinstance(a[0], Ref) else a[0]; lo, hi = r.fields[0], r.fields[1]
    if fn == 'start': return Ref(r.fields, 0)
    if fn == 'end': return Ref(r.fields, 1)
    if fn == 'is_empty': return M.binop('Gt' if incl else 'Ge', lo, hi)
    x = deref_all(a[1])
    return band(M.binop('Le', lo, x), M.binop('Le' if incl else 'Lt', x, hi))
@model_re(r'^<&[iu](8|16|32|64|128|size) as Neg>::neg$|^<[iu](8|16|32|64|128|size) as Neg>::neg$')
def _(M, a, c):
    x = deref_all(a[0]); mn = Int(x.w, x.s, -(1 << (x.w - 1)))
    if x.s and M.branch(M.binop('Eq', x, mn)): raise Panic("attempt to negate with overflow")
    return Int(x.w, x.s, -x.v)
@model_re(r'^<&[iu](8|16|32|64|128|size) as (Add|Sub|Mul|Div|Rem)<&?[iu](8|16|32|64|128|size)>>::(add|sub|mul|div|rem)$')
def _(M, a, c):
    op = norm_name(c).split('::')[-1]; x, y = deref_all(a[0]), deref_all(a[1])
    r = M.do_call('core::num::<impl %s%d>::checked_%s' % ('i' if x.s else 'u', x.w, op), [x, y], None)
    if r.variant == 0: raise Panic("attempt to %s with overflow (or a zero divisor)" % op)
    return r.fields[0]
@model_re(r'^core::str::<impl str>::(split_whitespace|split_ascii_whitespace|strip_prefix|strip_suffix|trim_matches|trim_start_matches|trim_end_matches)$')
def _(M, a, c):
    fn = norm_name(c).split('::')[-1]; s = _bytes(a[0]); items = s.items(); n = len(items)
    if fn.startswith('split_'):
        def ws(b): return M.branch(z3.Or(b.z() == 0x20, z3.And(z3.UGE(b.z(), 9), z3.ULE(b.z(), 13)))) if not isinstance(b, Dec) else False
        parts = []; i = 0
        while i < n:
            while i < n and ws(items[i]): i += 1
            j = i
            while j < n and not ws(items[j]): j += 1
            if j > i: parts.append(Slice(s.b, s.lo + i, s.lo + j, True))
            i = j
        return from_list(parts)
    pat = a[1]
    while isinstance(pat, Ref): pat = V(pat)
    pb = encode_char(M, pat) if isinstance(pat, Int) else list(_bytes(pat).items()); m = len(pb)
    def eq_at(i):
        r = True
        for x, y in zip(items[i:i + m], pb): r = band(r, M.binop('Eq', x, y))
        return r
    if fn == 'strip_prefix': return some(Slice(s.b, s.lo + m, s.hi, True)) if m <= n and M.branch(eq_at(0)) else NONE()
    if fn == 'strip_suffix': return some(Slice(s.b, s.lo, s.hi - m, True)) if m <= n and M.branch(eq_at(n - m)) else NONE()
    lo, hi = 0, n
    if m == 0: return Slice(s.b, s.lo, s.hi, True)
    if fn in ('trim_matches', 'trim_start_matches'):
        while hi - lo >= m and M.branch(eq_at(lo)): lo += m
    if fn in ('trim_matches', 'trim_end_matches'):
        while hi - lo >= m and M.branch(eq_at(hi - m)): hi -= m
    return Slice(s.b, s.lo + lo, s.lo + hi, True)
@model_re(r'^<(Option|std::result::Result|Result|Cow|\().* as Clone>::clone$')
def _(M, a, c): return generic_clone(M, deref_all(a[0]))
@model_re(r'^<(\(.*\)|Option<.*>|&?\[.*\]|Vec<.*>) as (Ord|PartialOrd)(<.*>)?>::(cmp|partial_cmp|lt|le|gt|ge)$')
def _(M, a, c):
    fn = norm_name(c).split('::')[-1]
    v = generic_cmp(M, deref_all(a[0]), deref_all(a[1]))
    if fn in ('lt', 'le', 'gt', 'ge'): return {'lt': v == 0, 'le': v <= 1, 'gt': v == 2, 'ge': v >= 1}[fn]
    o = Agg('Ordering', v, [])
    return some(o) if fn == 'partial_cmp' else o
def generic_cmp(M, p, q):
    """derive / std `Ord` of composites: 0 Less, 1 Equal, 2 Greater (forks on symbolic integers)"""
    p, q = deref_all(p), deref_all(q)
    if isinstance(p, Int) and isinstance(q, Int): return 0 if M.branch(M.binop('Lt', p, q)) else (1 if M.branch(M.binop('Eq', p, q)) else 2)
    if isinstance(p, bool): return (p > q) - (p < q) + 1
    if isinstance(p, (Slice, Native)) and (isinstance(p, Slice) or p.kind in ('String', 'Vec')):
        pb, plo, phi = _list_of(p); qb, qlo, qhi = _list_of(q)
        for x, y in zip(pb[plo:phi], qb[qlo:qhi]):
            r = generic_cmp(M, x, y)
            if r != 1: return r
        return ((phi - plo) > (qhi - qlo)) - ((phi - plo) < (qhi - qlo)) + 1
    if isinstance(p, Agg) and isinstance(q, Agg):
        if p.ty not in ('tuple', 'Option', 'Result', 'array', 'Ordering'):
            key = M.lookup('<%s as Ord>::cmp' % p.ty)
            if key is not None: return M.call(key, [Ref([p], 0), Ref([q], 0)]).variant
        if p.variant != q.variant: return 0 if p.variant < q.variant else 2
        for x, y in zip(p.fields, q.fields):
            r = generic_cmp(M, x, y)
            if r != 1: return r
        return 1
    raise Unsupported("cmp on %r" % (type(p).__name__,))
@model_re(r'^Ordering::(then|then_with|reverse|is_eq|is_ne|is_lt|is_gt|is_le|is_ge)$|^std::cmp::Ordering::(then|then_with|reverse|is_eq|is_ne|is_lt|is_gt|is_le|is_ge)$')
def _(M, a, c):
    fn = norm_name(c).split('::')[-1]; o = a[0]; v = o.variant
    if fn == 'then': return o if v != 1 else a[1]
    if fn == 'then_with': return o if v != 1 else callf(M, a[1], [])
    if fn == 'reverse': return Agg('Ordering', 2 - v, [])
    return {'is_eq': v == 1, 'is_ne': v != 1, 'is_lt': v == 0, 'is_gt': v == 2, 'is_le': v <= 1, 'is_ge': v >= 1}[fn]
@model_re(r'^<[iu](8|16|32|64|128|size) as Ord>::(clamp|min|max)$|^(std|core)::cmp::(min|max)$')
def _(M, a, c):
    fn = norm_name(c).split('::')[-1]; x = deref_all(a[0])
    if not isinstance(x, Int): raise Unsupported("cmp::%s on non-integers" % fn)
    if fn == 'clamp':
        lo, hi = deref_all(a[1]), deref_all(a[2])
        if M.branch(M.binop('Gt', lo, hi)): raise Panic("clamp: min > max")
        if M.branch(M.binop('Lt', x, lo)): return lo
        return hi if M.branch(M.binop('Gt', x, hi)) else x
    y = deref_all(a[1]); xlt = M.branch(M.binop('Lt', x, y))
    if fn == 'min': return x if (xlt or M.branch(M.binop('Eq', x, y))) else y
    return y if (xlt or M.branch(M.binop('Eq', x, y))) else x
@model_re(r'^<([\w:]+) as PartialOrd>::(lt|le|gt|ge)$|^<([\w:]+) as Ord>::(max|min)$')
def _(M, a, c):
    # provided methods over the crate's own `partial_cmp` / `cmp`
    nm = norm_name(c); fn = nm.split('::')[-1]; ty = re.match(r'^<([\w:]+) as', nm).group(1)
    if fn in ('lt', 'le', 'gt', 'ge'):
        o = M.do_call('<%s as PartialOrd>::partial_cmp' % ty, a, None)
        if o.variant == 0: return False
        v = o.fields[0].variant
        return {'lt': v == 0, 'le': v <= 1, 'gt': v == 2, 'ge': v >= 1}[fn]
    x, y = a
    v = M.do_call('<%s as Ord>::cmp' % ty, [Ref([x], 0), Ref([y], 0)], None).variant
    if fn == 'max': return x if v == 2 else y
    return x if v <= 1 else y
@model_re(r'^core::str::<impl str>::(rsplit|splitn|rsplitn|rsplit_once)$')
def _(M, a, c):
    fn = norm_name(c).split('::')[-1]; s = _bytes(a[0]); items = s.items(); n = len(items)
    lim = None
    if fn in ('splitn', 'rsplitn'):
        if a[1].sym(): raise Unsupported("splitn with a symbolic count")
        lim = a[1].v; pat = a[2]
    else: pat = a[1]
    while isinstance(pat, Ref): pat = V(pat)
    pb = encode_char(M, pat) if isinstance(pat, Int) else list(_bytes(pat).items()); m = len(pb)
    if m == 0: raise Unsupported("split with an empty pattern")
    def eq_at(i):
        r = True
        for x, y in zip(items[i:i + m], pb): r = band(r, byte_eq(M, x, y))
        return r
    def sl(p, q): return Slice(s.b, s.lo + p, s.lo + q, True)
    if fn in ('splitn',):
        parts = []; start = 0; i = 0
        while i + m <= n and (lim is None or len(parts) < lim - 1):
            if M.branch(eq_at(i)): parts.append(sl(start, i)); i += m; start = i
            else: i += 1
        if lim != 0: parts.append(sl(start, n))
        return from_list(parts)
    # from the back
    parts = []; end = n; i = n - m
    while i >= 0 and (lim is None or len(parts) < lim - 1):
        if M.branch(eq_at(i)):
            parts.append(sl(i + m, end)); end = i; i -= m
            if fn == 'rsplit_once': return some(Agg('tuple', 0, [sl(0, end), parts[0]]))
        else: i -= 1
    if fn == 'rsplit_once': return NONE()
    if lim != 0: parts.append(sl(0, end))
    return from_list(parts)
@model_re(r'^core::num::<impl ([iu])(8|16|32|64|128|size)>::(from_str_radix|leading_zeros|trailing_zeros|count_ones|count_zeros|checked_pow|wrapping_pow|is_power_of_two|swap_bytes)$')
def _(M, a, c):
    m = re.match(r'^core::num::<impl ([iu])(\w+)>::(\w+)$', norm_name(c)); sg = m.group(1) == 'i'; w = 64 if m.group(2) == 'size' else int(m.group(2)); fn = m.group(3)
    if fn == 'from_str_radix':
        bs = _bytes(a[0]).items()
        if any(isinstance(b, Dec) or b.sym() for b in bs) or a[1].sym(): raise Unsupported("from_str_radix on symbolic text")
        txt = bytes(b.v for b in bs).decode('utf-8', 'replace'); rad = a[1].v
        try:
            if not txt or txt in '+-' or any(ch == '_' or ch.isspace() for ch in txt): raise ValueError
            v = int(txt, rad)
        except ValueError: return err(Agg('ParseIntError', 0, [Agg('IntErrorKind', 0 if not txt else 1, [])]))
        lo = -(1 << (w - 1)) if sg else 0; hi = (1 << (w - 1)) - 1 if sg else (1 << w) - 1
        if txt.startswith('-') and not sg: return err(Agg('ParseIntError', 0, [Agg('IntErrorKind', 1, [])]))
        if v > hi: return err(Agg('ParseIntError', 0, [Agg('IntErrorKind', 2, [])]))
        if v < lo: return err(Agg('ParseIntError', 0, [Agg('IntErrorKind', 3, [])]))
        return ok(Int(w, sg, v))
    x = deref_all(a[0])
    if fn in ('checked_pow', 'wrapping_pow'):
        e = deref_all(a[1])
        if x.sym() or e.sym(): raise Unsupported("pow on symbolic operands")
        v = x.v ** e.v; lo = -(1 << (w - 1)) if sg else 0; hi = (1 << (w - 1)) - 1 if sg else (1 << w) - 1
        if fn == 'wrapping_pow': return Int(w, sg, v)
        return some(Int(w, sg, v)) if lo <= v <= hi else NONE()
    if x.sym(): raise Unsupported("bit counting on a symbolic integer")
    u = x.v & ((1 << w) - 1); bits = bin(u)[2:].zfill(w)
    if fn == 'leading_zeros': return Int(32, False, len(bits) - len(bits.lstrip('0')))
    if fn == 'trailing_zeros': return Int(32, False, w if u == 0 else len(bits) - len(bits.rstrip('0')))
    if fn == 'count_ones': return Int(32, False, bits.count('1'))
    if fn == 'count_zeros': return Int(32, False, bits.count('0'))
    if fn == 'is_power_of_two': return bits.count('1') == 1
    raise Unsupported("int method " + fn)
@model_re(r'^char::methods::<impl char>::(to_uppercase|to_lowercase)$')
def _(M, a, c):
    fn = norm_name(c).split('::')[-1]; x = a[0].load() if isinstance(a[0], Ref) else a[0]
    if x.sym(): raise Unsupported("case mapping of a symbolic character")
    ch = chr(x.v); r = ch.upper() if fn == 'to_uppercase' else ch.lower()
    return from_list([Int(32, False, ord(y)) for y in r])
@model_re(r'^(std::iter::|core::iter::)?(from_fn|successors|repeat|repeat_with)$')
def _(M, a, c):
    fn = norm_name(c).split('::')[-1]
    if fn == 'from_fn':
        f = a[0]
        def nxt():
            r = callf(M, f, []); return STOP if r.variant == 0 else r.fields[0]
        return mk(nxt)
    if fn == 'successors':
        st = {'cur': a[0]}; f = a[1]
        def nxt():
            cur = st['cur']
            if cur.variant == 0: return STOP
            v = cur.fields[0]; st['cur'] = callf(M, f, [Ref([v], 0)]); return v
        return mk(nxt)
    if fn == 'repeat':
        v = a[0]; return mk(lambda: generic_clone(M, v))
    f = a[0]; return mk(lambda: callf(M, f, []))
@model_re(r'^core::slice::<impl \[.*\]>::(split|chunks_exact|rchunks|splitn)$')
def _(M, a, c):
    fn = norm_name(c).split('::')[-1]; b, lo, hi = _list_of(a[0])
    if fn == 'chunks_exact':
        if a[1].sym(): raise Unsupported("chunks_exact with a symbolic size")
        k = a[1].v; n = hi - lo
        return from_list([Slice(b, lo + i, lo + i + k) for i in range(0, n - n % k, k)])
    if fn == 'split':
        parts = []; start = lo
        for i in range(lo, hi):
            if M.branch(callf(M, a[1], [Ref(b, i)])): parts.append(Slice(b, start, i)); start = i + 1
        parts.append(Slice(b, start, hi))
        return from_list(parts)
    raise Unsupported("slice::" + fn)
@model_re(r'^BTreeMap::(<.*>::)?(range|first_key_value|last_key_value|pop_first|pop_last|values_mut|iter_mut|retain)$|^HashMap::(<.*>::)?(values_mut|iter_mut|retain)$|^BTreeSet::(<.*>::)?(first|last|intersection|union|difference|range|is_subset|pop_first|pop_last)$|^HashSet::(<.*>::)?(intersection|union|difference|is_subset)$')
def _(M, a, c):
    nm = norm_name(c); fn = nm.split('::')[-1]; m = V(a[0]); isset = nm.startswith(('BTreeSet', 'HashSet')); hashed = nm.startswith(('HashMap', 'HashSet'))
    es = sorted_items(m.d['m'])
    if hashed: es = demonic_perm(M, es)
    if fn in ('first_key_value', 'last_key_value', 'first', 'last'):
        if not es: return NONE()
        e = es[0] if fn.startswith('first') else es[-1]
        return some(Ref(e, 0)) if isset else some(Agg('tuple', 0, [Ref(e, 0), Ref(e, 1)]))
    if fn in ('pop_first', 'pop_last'):
        if not es: return NONE()
        e = es[0] if fn == 'pop_first' else es[-1]; del m.d['m'][skey(e[0])]
        return some(e[0]) if isset else some(Agg('tuple', 0, [e[0], e[1]]))
    if fn == 'values_mut': return from_list([Ref(e, 1) for e in es])
    if fn == 'iter_mut': return from_list([Agg('tuple', 0, [Ref(e, 0), Ref(e, 1)]) for e in es])
    if fn == 'retain':
        for e in es:
            keep = M.branch(callf(M, a[1], [Ref(e, 0)] if isset else [Ref(e, 0), Ref(e, 1)]))
            if not keep: del m.d['m'][skey(e[0])]
        return UNIT
    if fn == 'range':
        r = a[1]; ty = r.ty if isinstance(r, Agg) else ''
        def inr(k):
            k = deref_all(k); f = r.fields
            if ty == 'Range': return M.branch(band(M.binop('Le', f[0], k), M.binop('Lt', k, f[1])))
            if ty == 'RangeInclusive': return M.branch(band(M.binop('Le', f[0], k), M.binop('Le', k, f[1])))
            if ty == 'RangeFrom': return M.branch(M.binop('Le', f[0], k))
            if ty == 'RangeTo': return M.branch(M.binop('Lt', k, f[0]))
            if ty == 'RangeFull' or not ty: return True
            raise Unsupported("map range over " + ty)
        sel = [e for e in es if inr(e[0])]
        return from_list([Ref(e, 0) for e in sel] if isset else [Agg('tuple', 0, [Ref(e, 0), Ref(e, 1)]) for e in sel])
    other = V(a[1]).d['m']
    if fn == 'intersection': return from_list([Ref(e, 0) for e in es if skey(e[0]) in other])
    if fn == 'difference': return from_list([Ref(e, 0) for e in es if skey(e[0]) not in other])
    if fn == 'union': return from_list([Ref(e, 0) for e in es] + [Ref(e, 0) for e in (sorted_items(other) if not hashed else demonic_perm(M, sorted_items(other))) if skey(e[0]) not in m.d['m']])
    if fn == 'is_subset': return all(skey(e[0]) in other for e in es)
    raise Unsupported("map / set method " + fn)
@model_re(r'^(HashMap|BTreeMap|HashSet|BTreeSet)::(<.*>::)?(len|is_empty|clear)$')
def _(M, a, c):
    fn = norm_name(c).split('::')[-1]; m = V(a[0])
    if fn == 'len': return usize(len(m.d['m']))
    if fn == 'is_empty': return len(m.d['m']) == 0
    m.d['m'].clear(); return UNIT
@model_re(r'^<[iu](8|16|32|64|128|size) as (Add|Sub|Mul|Div|Rem)Assign<&?[iu](8|16|32|64|128|size)>>::(add|sub|mul|div|rem)_assign$')
def _(M, a, c):
    op = norm_name(c).split('::')[-1].split('_')[0]; cell = a[0]; x = cell.load(); y = deref_all(a[1])
    r = M.do_call('core::num::<impl %s%d>::checked_%s' % ('i' if x.s else 'u', x.w, op), [x, y], None)
    if r.variant == 0: raise Panic("attempt to %s with overflow (or a zero divisor)" % op)
    cell.store(r.fields[0]); return UNIT
@model_re(r'^<[A-Z]\w? as (PartialOrd|Ord|PartialEq)(<.*>)?>::(eq|ne|lt|le|gt|ge|cmp|partial_cmp|max|min)$')
def _(M, a, c):
    # comparison through a bare type parameter: decided on the run-time values
    fn = norm_name(c).split('::')[-1]
    if fn in ('eq', 'ne'):
        r = generic_eq(M, a[0], a[1]); return bnot(r) if fn == 'ne' else r
    v = generic_cmp(M, deref_all(a[0]), deref_all(a[1]))
    if fn in ('lt', 'le', 'gt', 'ge'): return {'lt': v == 0, 'le': v <= 1, 'gt': v == 2, 'ge': v >= 1}[fn]
    if fn == 'max': return a[0] if v == 2 else a[1]
    if fn == 'min': return a[0] if v <= 1 else a[1]
    o = Agg('Ordering', v, [])
    return some(o) if fn == 'partial_cmp' else o
# ---- map entry API
@model_re(r'^(BTreeMap|HashMap)::entry$')
def _(M, a, c):
    # the std enum: hash_map::Entry = Occupied | Vacant, btree_map::Entry = Vacant | Occupied
    mp_ = V(a[0]); occ = skey(a[1]) in mp_.d['m']; btree = norm_name(c).startswith('BTreeMap')
    variant = (1 if occ else 0) if btree else (0 if occ else 1)
    return Agg('Entry', variant, [Native('Entry', map=mp_, key=a[1])])
def _entry(e):
    while isinstance(e, Ref): e = V(e)
    return e.fields[0] if isinstance(e, Agg) else e
@model_re(r'(^|::)(OccupiedEntry|VacantEntry)(::<.*>)?::(get|get_mut|into_mut|insert|insert_entry|key|into_key|remove|remove_entry)$')
def _(M, a, c):
    nm = norm_name(c); fn = nm.split('::')[-1]; occ = 'OccupiedEntry' in nm; e = _entry(a[0]); d = e.d['map'].d['m']; k = skey(e.d['key'])
    if fn == 'key': return Ref(d[k], 0) if occ else Ref([e.d['key']], 0)
    if fn == 'into_key': return e.d['key']
    if occ:
        if fn in ('get', 'get_mut', 'into_mut'): return Ref(d[k], 1)
        if fn == 'insert': old = d[k][1]; d[k][1] = a[1]; return old
        if fn == 'remove': return d.pop(k)[1]
        if fn == 'remove_entry': kv = d.pop(k); return Agg('tuple', 0, [kv[0], kv[1]])
    else:
        if fn == 'insert': d[k] = [e.d['key'], a[1]]; return Ref(d[k], 1)
    raise Unsupported("entry method " + nm)
@model_re(r'^(std::collections::(btree_map|hash_map)::)?Entry::<.*>::(or_insert|or_insert_with|or_default|and_modify|key)$|^Entry::(or_insert|or_insert_with|or_default|and_modify|key)$|^std::collections::(btree_map|hash_map)::Entry::(or_insert|or_insert_with|or_default|and_modify|key)$')
def _(M, a, c):
    fn = norm_name(c).split('::')[-1]; e = _entry(a[0]); d = e.d['map'].d['m']; k = skey(e.d['key'])
    if fn == 'key': return Ref([e.d['key']], 0)
    if fn == 'and_modify':
        if k in d: callf(M, a[1], [Ref(d[k], 1)])
        return a[0]
    if k not in d:
        if fn == 'or_insert': v = a[1]
        elif fn == 'or_insert_with': v = callf(M, a[1], [])
        else:
            m = re.search(r'Entry::<(.*)>::or_default', c) or re.search(r"Entry<(.*)> *>::or_default", c)
            tys = [t for t in split_top(m.group(1)) if not t.startswith("'")] if m else []
            v = default_of(M, tys[-1].strip() if tys else 'Vec<()>')
        d[k] = [e.d['key'], v]
    return Ref(d[k], 1)
@model_re(r'^(std|core|alloc)::str::<impl str>::repeat$')
def _(M, a, c):
    if a[1].sym(): raise Unsupported("str::repeat with a symbolic count")
    items = list(_bytes(a[0]).items()); return Native('String', b=items * a[1].v)
@model_re(r'^core::str::<impl str>::(find|rfind|split_once|lines|split|char_indices)$')
def _(M, a, c):
    fn = norm_name(c).split('::')[-1]; s = _bytes(a[0]); items = s.items(); n = len(items)
    if fn in ('find', 'rfind'):
        pat = a[1]; pv = deref_all(pat) if isinstance(pat, Ref) else pat
        charset = None; pred = None
        if isinstance(pv, Agg) and pv.ty == 'array' and all(isinstance(x, Int) for x in pv.fields): charset = pv.fields
        elif isinstance(pv, Slice) and not pv.is_str and all(isinstance(x, Int) and x.w == 32 for x in pv.items()): charset = pv.items()
        elif isinstance(pv, Agg) and pv.ty.startswith('{closure@'): pred = pv
        elif isinstance(pv, Native) and pv.kind in ('FnItem', 'ZST'): pred = pv
        if charset is not None or pred is not None:
            # character-wise search: first (last) character that is in the set / satisfies the predicate
            pos = 0; hits = []
            while pos < n:
                ch, w = decode_char(M, s, pos)
                if charset is not None:
                    r = False
                    for x in charset: r = bor(r, M.binop('Eq', ch, x))
                    hit = M.branch(r)
                else: hit = M.branch(callf(M, pred, [ch]))
                if hit:
                    if fn == 'find': return some(usize(pos))
                    hits.append(pos)
                pos += w
            return some(usize(hits[-1])) if hits else NONE()
        if isinstance(pat, Int): pb = encode_char(M, pat)
        else:
            try: pb = list(_bytes(pat).items())
            except Exception: pb = None
        if pb is None: raise Unsupported("str::find with this pattern kind")
        m = len(pb); rng = range(0, n - m + 1) if fn == 'find' else range(n - m, -1, -1)
        for i in rng:
            r = True
            for x, y in zip(items[i:i + m], pb): r = band(r, M.binop('Eq', x, y))
            if M.branch(r): return some(usize(i))
        return NONE()
    if fn == 'char_indices': return Native('CharIndices', s=s, pos=0)
    if fn in ('split', 'lines', 'split_once'):
        if fn == 'lines': pb = [Int(8, False, 10)]
        else:
            pat = a[1]
            while isinstance(pat, Ref): pat = V(pat)
            if isinstance(pat, Int): pb = encode_char(M, pat)
            else:
                try: pb = list(_bytes(pat).items())
                except Exception: raise Unsupported("str::%s with this pattern kind" % fn)
        m = len(pb)
        if m == 0: raise Unsupported("str::%s with an empty pattern" % fn)
        parts = []; start = 0; i = 0; found = False
        def eqb(x, y):
            # a Dec element stands for the decimal digits (and sign) of a symbolic integer: it never equals a byte outside [-0-9]
            if isinstance(x, Dec) or isinstance(y, Dec):
                o = y if isinstance(x, Dec) else x
                if isinstance(o, Int) and not o.sym() and not (0x30 <= o.v <= 0x39 or o.v == 0x2d): return False
                raise Unsupported("str::%s: pattern may match inside the rendering of a symbolic integer" % fn)
            return M.binop('Eq', x, y)
        while i + m <= n:
            r = True
            for x, y in zip(items[i:i + m], pb): r = band(r, eqb(x, y))
            if M.branch(r):
                parts.append((start, i)); i += m; start = i; found = True
                if fn == 'split_once': break
            else: i += 1
        parts.append((start, n))
        def sl(p): return Slice(s.b, s.lo + p[0], s.lo + p[1], True)
        if fn == 'split_once': return some(Agg('tuple', 0, [sl(parts[0]), sl(parts[1])])) if found else NONE()
        if fn == 'lines':
            if parts[-1][0] == parts[-1][1]: parts.pop()
            out = []
            for (p, q) in parts:
                if q > p and M.branch(eqb(items[q - 1], Int(8, False, 13))): q -= 1
                out.append((p, q))
            parts = out
        return from_list([sl(p) for p in parts])
    raise Unsupported("str::" + fn)

# ---- Unicode predicates on non-ASCII characters: the table is taken from Python's unicodedata as explicit code-point ranges
import unicodedata as _ud
_UNI = {}
def _uni_ranges(pred):
    if pred in _UNI: return _UNI[pred]
    f = {'is_numeric': lambda ch: _ud.category(ch) in ('Nd', 'Nl', 'No'), 'is_alphabetic': lambda ch: ch.isalpha() or _ud.category(ch) == 'Nl',
         'is_alphanumeric': lambda ch: ch.isalpha() or _ud.category(ch) in ('Nd', 'Nl', 'No'), 'is_whitespace': lambda ch: ch.isspace() and ch not in '\x1c\x1d\x1e\x1f',
         'is_control': lambda ch: _ud.category(ch) == 'Cc', 'is_lowercase': lambda ch: ch.islower(), 'is_uppercase': lambda ch: ch.isupper()}[pred]
    rs = []; start = None
    for cp in range(0x80, 0x110000):
        if 0xD800 <= cp <= 0xDFFF: hit = False
        else: hit = f(chr(cp))
        if hit and start is None: start = cp
        if not hit and start is not None: rs.append((start, cp - 1)); start = None
    if start is not None: rs.append((start, 0x10FFFF))
    _UNI[pred] = rs
    return rs
@model_re(r'^char::methods::<impl char>::(is_numeric|is_alphabetic|is_alphanumeric|is_whitespace|is_control|is_lowercase|is_uppercase)$')
def _(M, a, c):
    fn = norm_name(c).split('::')[-1]; ch = a[0].load() if isinstance(a[0], Ref) else a[0]; z = ch.z()
    def rng(lo, hi): return z3.And(z3.UGE(z, lo), z3.ULE(z, hi))
    al = z3.Or(rng(0x41, 0x5a), rng(0x61, 0x7a)); d = rng(0x30, 0x39)
    ascii_part = {'is_alphabetic': al, 'is_numeric': d, 'is_alphanumeric': z3.Or(al, d), 'is_whitespace': z3.Or(z == 0x20, rng(9, 13)), 'is_control': z3.Or(z3.ULT(z, 0x20), z == 0x7f),
                  'is_lowercase': rng(0x61, 0x7a), 'is_uppercase': rng(0x41, 0x5a)}[fn]
    if not ch.sym():
        if ch.v < 0x80:
            r = z3.simplify(ascii_part); return z3.is_true(r)
        return any(lo <= ch.v <= hi for lo, hi in _uni_ranges(fn))
    if M.branch(z3.ULT(z, 0x80)):
        r = z3.simplify(ascii_part); return True if z3.is_true(r) else False if z3.is_false(r) else r
    rs = _uni_ranges(fn)
    return z3.Or(*[rng(lo, hi) for lo, hi in rs]) if rs else False

# ---- range indexing of Vec / slices / str / String (panicking Index and checked get)
def _range_bounds(M, r, n):
    """r: Agg Range* value; returns (lo, hi) python ints or None when out of bounds (forks on symbolic bounds)"""
    ty = r.ty if isinstance(r, Agg) else ''
    f = r.fields if isinstance(r, Agg) else []
    lo, hi = 0, n
    def cv(x, mx):
        return concretize(M, x, mx)
    if ty in ('Range', 'std::ops::Range'):
        lo = cv(f[0], n); hi = cv(f[1], n) if lo is not None else None
    elif ty == 'RangeFrom': lo = cv(f[0], n)
    elif ty == 'RangeTo': hi = cv(f[0], n)
    elif ty == 'RangeFull' or (isinstance(r, Native) and r.kind == 'ZST'): pass
    elif ty == 'RangeInclusive':
        lo = cv(f[0], n); h2 = cv(f[1], n - 1) if (lo is not None and n > 0) else None
        hi = None if h2 is None else h2 + 1
    elif ty == 'RangeToInclusive':
        h2 = cv(f[0], n - 1) if n > 0 else None; hi = None if h2 is None else h2 + 1
    else: raise Unsupported("range type " + ty)
    if lo is None or hi is None or lo > hi: return None
    return lo, hi
ENUMS.setdefault('RangeFull', ['RangeFull'])
@model_re(r'^String::(replace_range|drain)$|^Vec::(drain|splice)$')
def _(M, a, c):
    fn = norm_name(c).split('::')[-1]; v = V(a[0]); b = v.d['b']
    r = _range_bounds(M, a[1], len(b))
    if r is None: raise Panic("range out of bounds in %s" % fn)
    lo, hi = r
    if fn == 'replace_range':
        # (char-boundary panics are not modelled: the bytes at lo / hi must be concrete ASCII or the edges)
        for k in (lo, hi):
            if 0 < k < len(b) and not isinstance(b[k], Dec):
                # documented panic: the range must lie on char boundaries (a byte 0x80..0xBF continues a character)
                x = b[k]
                if M.branch(band(M.binop('Ge', x, Int(8, False, 0x80)), M.binop('Lt', x, Int(8, False, 0xC0)))): raise Panic("replace_range: byte index %d is not a char boundary" % k)
        b[lo:hi] = list(_bytes(a[2]).items()); return UNIT
    removed = b[lo:hi]
    if fn == 'splice':
        b[lo:hi] = list(drain(_it(M, a[2])))
    else: del b[lo:hi]
    return from_list(removed)
@model_re(r'^<&+(?:mut )?([^ ]+|.*) as PartialEq(<.*>)?>::(eq|ne)$')
def _(M, a, c):
    r = generic_eq(M, a[0], a[1])
    return bnot(r) if norm_name(c).endswith('::ne') else r
@model_re(r'^<([\w:]+) as PartialEq>::ne$')
def _(M, a, c):
    # the provided method: !eq
    ty = re.match(r'^<([\w:]+) as PartialEq>::ne$', norm_name(c)).group(1)
    return bnot(M.do_call('<%s as PartialEq>::eq' % ty, a, None))
@model_re(r'^<(Vec<.*>|\[.*\]|str|String) as Index(Mut)?<(std::ops::)?Range(From|To|Full|Inclusive|ToInclusive)?(<usize>)?>>::index(_mut)?$|^core::str::<impl str>::get(_mut)?$|^core::slice::<impl \[.*\]>::get(_mut)?$')
def _(M, a, c):
    nm = norm_name(c); checked = nm.split('::')[-1].startswith('get')
    is_str = nm.startswith(('<str', '<String')) or 'impl str' in nm
    b, lo0, hi0 = _list_of(a[0]); n = hi0 - lo0
    idx = a[1]
    if isinstance(idx, Int):
        k = concretize(M, idx, n - 1) if n > 0 else None
        if k is None:
            if checked: return NONE()
            raise Panic("index out of bounds: the len is %d" % n)
        return some(Ref(b, lo0 + k)) if checked else Ref(b, lo0 + k)
    rb = _range_bounds(M, idx, n)
    if rb is None:
        if checked: return NONE()
        raise Panic("range out of bounds for a sequence of length %d" % n)
    lo, hi = rb
    if is_str:
        for k in (lo, hi):
            if 0 < k < n:
                e = b[lo0 + k]
                if M.branch(z3.And(z3.UGE(e.z(), 0x80), z3.ULE(e.z(), 0xBF))):
                    if checked: return NONE()
                    raise Panic("byte index %d is not a char boundary" % k)
    sl = Slice(b, lo0 + lo, lo0 + hi, is_str)
    return some(sl) if checked else sl
@model_re(r'^<.* as (std::io::)?Write>::(write_all|write_fmt|write|flush)$')
def _(M, a, c):
    fn = norm_name(c).split('::')[-1]; st = V(a[0])
    if not (isinstance(st, Native) and st.kind == 'Stream'): raise Unsupported("Write on %r" % (st,))
    if fn == 'flush': return ok(UNIT)
    if fn == 'write_fmt': data = mo.render_args(M, a[1])
    else:
        b, lo, hi = _list_of(a[1]); data = list(b[lo:hi])
    if fn == 'write': return _short_write(M, st, data)
    mo.OUT[st.d['which']].append(data)
    return ok(UNIT)
