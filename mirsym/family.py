# Running a family of script templates through the real pipeline (`main`, symbolically) and comparing every path, under its path
# condition, with the reference semantics (ref/) in lock-step.  Every path's witness is replayed on the native binary.
import os, re, json, time, subprocess, hashlib
import z3
from . import harness as H, explore as X, models, template as T
from .core import Panic, Unsupported, PathEnd, Int
from ref import sem, front

SCRIPT = 't.sd'

# ---------------------------------------------------------------- piece comparison under a solver
def _term_of_piece(p):
    return p[1]
def eval_pieces(mdl, ps):
    out = b''
    for p in ps:
        if isinstance(p, bytes): out += p
        elif p[0] == 'dec':
            t = p[1]
            v = t if isinstance(t, int) else mdl.eval(t, model_completion=True).as_signed_long()
            out += str(v).encode()
        else:
            t = p[1]
            out += bytes([t if isinstance(t, int) else mdl.eval(t, model_completion=True).as_long()])
    return out
def sat_model(s, extra=None):
    if extra is not None:
        s.push(); s.add(extra)
    r = s.check(); m = s.model() if r == z3.sat else None
    if extra is not None: s.pop()
    return r, m

def compare_pieces(s, real, ref):
    """returns None if equal for every model of s; ('diff', model) if some model distinguishes them; ('unknown', why)"""
    a = list(normalise(real)); b = list(normalise(ref))
    def term_vs_bytes(t, bs, w):
        """a symbolic piece against the head of a concrete byte run: returns (verdict, rest of bytes)"""
        if w == 8:
            r, m = sat_model(s, t != z3.BitVecVal(bs[0], 8))
            return (r, m), bs[1:]
        mm = re.match(rb'-?\d+', bs)
        if not mm: return (z3.sat, None), bs
        r, m = sat_model(s, t != z3.BitVecVal(int(mm.group()), 64))
        return (r, m), bs[mm.end():]
    while a or b:
        if not a or not b: break
        x, y = a[0], b[0]
        if isinstance(x, bytes) and isinstance(y, bytes):
            n = min(len(x), len(y))
            if x[:n] != y[:n]: break
            a[0] = x[n:]; b[0] = y[n:]
            if not a[0]: a.pop(0)
            if not b[0]: b.pop(0)
            continue
        if not isinstance(x, bytes) and not isinstance(y, bytes):
            if x[0] != y[0]: break
            r, m = sat_model(s, x[1] != y[1])
            if r == z3.sat: return ('diff', m)
            if r != z3.unsat: return ('unknown', 'solver')
            a.pop(0); b.pop(0); continue
        # one symbolic, one concrete
        sym, conc, la, lb = (x, y, a, b) if not isinstance(x, bytes) else (y, x, b, a)
        (r, m), rest = term_vs_bytes(sym[1], conc, 64 if sym[0] == 'dec' else 8)
        if r == z3.sat:
            if m is None: break
            return ('diff', m)
        if r != z3.unsat: return ('unknown', 'solver')
        la.pop(0)
        if rest: lb[0] = rest
        else: lb.pop(0)
    if not a and not b: return None
    # decide on a model; equal concrete renderings under one model do not prove equality
    r, m = sat_model(s)
    if r != z3.sat: return ('unknown', 'solver')
    if eval_pieces(m, normalise(real)) != eval_pieces(m, normalise(ref)): return ('diff', m)
    return ('unknown', 'piece shapes differ: %r vs %r' % (a[:4], b[:4]))
def kind(p): return 'b' if isinstance(p, bytes) else p[0]
def normalise(ps):
    out = []
    for p in ps:
        if not isinstance(p, bytes) and isinstance(p[1], int):
            p = str(p[1]).encode() if p[0] == 'dec' else bytes([p[1]])
        elif not isinstance(p, bytes):
            t = z3.simplify(p[1])
            if z3.is_bv_value(t): p = str(t.as_signed_long()).encode() if p[0] == 'dec' else bytes([t.as_long()])
            else: p = (p[0], t)
        if isinstance(p, bytes):
            if not p: continue
            if out and isinstance(out[-1], bytes): out[-1] += p; continue
        out.append(p)
    return out

# ---------------------------------------------------------------- diagnostics
DIAG_RE = re.compile(rb"^t\.sd:(\d+):(\d+): (?:in '([^']*)': )?(.*)$", re.S)
def split_pieces_first_line(ps):
    """stderr pieces -> (first line pieces, rest pieces)"""
    first = []; rest = []; done = False
    for p in ps:
        if done: rest.append(p); continue
        if isinstance(p, bytes) and b'\n' in p:
            i = p.index(b'\n'); first.append(p[:i]); rest.append(p[i + 1:]); done = True
        else: first.append(p)
    return first, rest

def check_diagnostic(s, err_pieces, referr, aspects):
    """compares the real stderr with what the statements prescribe for the reference's error. returns list of (aspect, detail)"""
    problems = []
    first, rest = split_pieces_first_line(normalise(err_pieces))
    head = first[0] if first and isinstance(first[0], bytes) else b''
    flat = b''.join(p if isinstance(p, bytes) else b'\x00' for p in first)
    m = DIAG_RE.match(flat)
    if not m:
        problems.append(('format', 'first stderr line is not `<path>:<line>:<col>: <message>`: %r' % flat[:120])); return problems
    line, col = int(m.group(1)), int(m.group(2)); msg = m.group(4)
    if line < 1: problems.append(('format', 'line %d < 1' % line))
    if not getattr(referr, 'in_slot', False) and re.match(rb"^(\d+:\d+: |in '[^']*': )", msg): problems.append(('format', 'the message itself starts with another position / function prefix: %r' % msg[:100]))
    if not msg.strip(): problems.append(('format', 'empty message'))
    # internal identifiers: the names of the interpreter's own error variants (read from the current source), e.g. a wrapper that the
    # renderer failed to unwrap and printed through its derived Display
    from .core import ENUMS
    for vn in ENUMS.get('Error', []) + ENUMS.get('MainError', []) + ENUMS.get('ParseError', []) + ENUMS.get('LexError', []):
        if len(vn) > 6 and re.search(rb'\b' + vn.encode() + rb'\b', msg):
            problems.append(('format', 'message contains the internal identifier %s: %r' % (vn, msg[:100]))); break
    if referr.loc is not None and referr.kind not in ('lex-intoverflow',):
        if (line, col) != tuple(referr.loc): problems.append(('position', 'reported %d:%d, expected %d:%d (%s)' % (line, col, referr.loc[0], referr.loc[1], referr.kind)))
    k = referr.kind; info = referr.info
    if k in ('op-types', 'eq-types'):
        pat = re.escape(info['op'].encode()) + rb"'.*'" + info['lhs'].encode() + rb"'.*'" + info['rhs'].encode() + rb"'"
        if k == 'eq-types' and info.get('n_mismatches', 1) > 1:
            pass    # which mismatching pair is named is traversal-dependent
        elif not re.search(pat, msg): problems.append(('message', 'type diagnostic does not name operator and operand types in order: %r' % msg[:120]))
    if k in ('break-outside-loop', 'continue-outside-loop', 'return-outside-fn'):
        word = k.split('-')[0].encode(); others = [w for w in (b'break', b'continue', b'return') if w != word]
        if word not in msg or any(re.search(rb"'" + w + rb"'", msg) for w in others):
            problems.append(('message', "the diagnostic for a stray `%s` names another construct: %r" % (word.decode(), msg[:100])))
    if k == 'type-context' and info.get('got'):
        mm = re.search(rb"got '([a-z]+)'", msg)
        if mm and mm.group(1).decode() != info['got']:
            problems.append(('message', "type diagnostic says got '%s' for a value of type '%s'" % (mm.group(1).decode(), info['got'])))
    if k == 'redeclare' and info.get('prev') and tuple(info['prev']) != (0, 0):
        pl, pc_ = info['prev']
        if ('%d:%d' % (pl, pc_)).encode() not in msg: problems.append(('message', 'redeclaration diagnostic does not cite the earlier position %d:%d: %r' % (pl, pc_, msg[:100])))
    if k in ('int-overflow', 'mod-zero'):
        # message must name the operation and both operands, in order
        seq = []
        after = False
        for p in first:
            if isinstance(p, bytes):
                txt = p
                if not after:
                    mm = re.match(rb"^t\.sd:\d+:\d+: (?:in '[^']*': )?", txt)
                    if mm: txt = txt[mm.end():]; after = True
                for tok in re.finditer(rb'-?\d+|[-+*/%]', txt): seq.append(('lit', tok.group()))
            else: seq.append(p)
        want = [info['lhs'], info['op'].encode(), info['rhs']]
        if not match_operand_seq(s, seq, want): problems.append(('message', 'arithmetic diagnostic does not name `lhs op rhs`: %r' % (first,)))
    # stack trace
    exp = [b"  t.sd:%d:%d: in '%s'" % (l[0], l[1], c.encode()) for (l, c) in referr.stack]
    restb = b''.join(p if isinstance(p, bytes) else b'\x00' for p in rest)
    lines = restb.split(b'\n')
    if lines and lines[-1] == b'': lines.pop()
    if exp:
        if lines[:1] != [b'Stacktrace:'] or lines[1:] != exp:
            problems.append(('stack', 'stack trace %r, expected %r' % (lines, [b'Stacktrace:'] + exp)))
        inner = referr.stack and True
    elif lines:
        problems.append(('stack', 'unexpected text after the diagnostic: %r' % lines[:3]))
    return [p for p in problems if p[0] in aspects]

def match_operand_seq(s, seq, want):
    """seq: [('lit', bytes) | ('dec', term)], want: [lhs, op bytes, rhs] with lhs/rhs python ints or z3 terms. looks for a
    contiguous-in-order occurrence lhs, op, rhs"""
    def same(x, w):
        if isinstance(w, bytes): return x[0] == 'lit' and x[1] == w
        if x[0] == 'lit':
            try: xv = int(x[1])
            except ValueError: return False
            if isinstance(w, int): return xv == w
            r, _ = sat_model(s, w != z3.BitVecVal(xv, 64)); return r == z3.unsat
        if x[0] == 'dec':
            wz = z3.BitVecVal(w, 64) if isinstance(w, int) else w
            r, _ = sat_model(s, x[1] != wz); return r == z3.unsat
        return False
    # negative literal operands appear as '-' 'digits' merged by the regex (-?\d+), but a binary '-' directly before digits
    # would merge too; try all alignments
    n = len(seq)
    for i in range(n):
        for j in range(i + 1, n):
            for k2 in range(j + 1, n):
                if same(seq[i], want[0]) and same(seq[j], want[1]) and same(seq[k2], want[2]): return True
    return False

# ---------------------------------------------------------------- one template
ALL_ASPECTS = ('exit', 'stdout', 'stderr-empty', 'format', 'position', 'message', 'stack', 'panic', 'hang')

def path_fn_for(tmpl, aspects, assume=None, ref_prog=None):
    text = T.placeholder_text(tmpl['src'])
    def pf(M):
        M.symvars = {}
        M.max_dec = tmpl.get('max_dec'); M.truncated = 0
        for h in T.holes_of(tmpl['src']): T.sym_for(M, h)
        if assume is not None:
            for c in assume(M.symvars): M.assume(c)
        def hook(Mx, which, r):
            if r.variant == 0: T.substitute(Mx, r.fields[0])
        models.PARSE_HOOK[0] = hook
        status = 'ok'; code = None; out = []; err = []; detail = ''
        try:
            code, out, err = H.run_cli(M, SCRIPT, text.encode())
        except Panic as e:
            status = 'panic'; detail = str(e)[:300]
            out = models.flat(models.OUT['stdout']); err = models.flat(models.OUT['stderr'])
        finally:
            models.PARSE_HOOK[0] = None
        outp = models.pieces(out); errp = models.pieces(err)
        obs = {'real': status, 'code': code, 'detail': detail, 'violations': [], 'silent': [], 'unknown': [], 'cases': 0, 'ref': []}
        # prediction for the native replay of this path's witness
        r, m = sat_model(M.solver)
        if r != z3.sat: raise PathEnd('infeasible at end')
        obs['wit'] = {k: X.model_value(m, v) for k, v in M.symvars.items()}
        obs['truncated'] = M.truncated
        obs['pred'] = {'code': code if status == 'ok' else 101, 'out': eval_pieces(m, outp).decode('latin1'), 'err': eval_pieces(m, errp).decode('latin1'), 'panic': status == 'panic'}
        if status == 'panic' and 'step limit' in detail:
            obs['real'] = 'hang'
        # lock-step reference
        def wit_of(mdl):
            return {k: X.model_value(mdl, v) for k, v in M.symvars.items()}
        def on_case(outcome, s, it):
            obs['cases'] += 1
            if outcome[0] == 'unspecified':
                obs['silent'].append(outcome[1]); obs['ref'].append('unspecified')
                # a crash is a violation whatever the reference says about the rest
                if len(outcome) > 2 and obs['real'] == 'ok' and code == 103 and s is not None and 'stdout' in aspects:
                    # an unspecified *print*: if the run fails there, stdout must be exactly the output of the prints completed before
                    d0 = compare_pieces(s, outp, outcome[2])
                    if d0 is not None and d0[0] == 'diff':
                        obs['violations'].append({'aspect': 'stdout', 'what': 'a failing print left a fragment on stdout: %r, completed prints %r' % (eval_pieces(d0[1], outp)[:160], eval_pieces(d0[1], outcome[2])[:160]), 'wit': wit_of(d0[1]), 'ref': 'unspecified-print'})
                if obs['real'] == 'ok' and code == 103 and 'format' in aspects:
                    # whatever the reference leaves open: a failure is reported as one located diagnostic
                    first, _rest = split_pieces_first_line(normalise(errp))
                    flat = b''.join(p if isinstance(p, bytes) else b'\x00' for p in first)
                    if not DIAG_RE.match(flat):
                        obs['violations'].append({'aspect': 'format', 'what': 'first stderr line is not `<path>:<line>:<col>: <message>`: %r' % flat[:160], 'wit': obs['wit'], 'ref': 'unspecified-format'})
                if obs['real'] == 'hang' and ('budget' in outcome[1] or 'recursion' in outcome[1]):
                    pass        # the program does not terminate under the reference either: not a program the properties speak about
                elif obs['real'] in ('panic', 'hang') and s is not None:
                    r0, mdl0 = sat_model(s)
                    a0 = 'panic' if obs['real'] == 'panic' else 'hang'
                    if r0 == z3.sat and a0 in aspects:
                        obs['violations'].append({'aspect': a0, 'what': 'internal panic: ' + detail, 'wit': wit_of(mdl0), 'ref': 'unspecified'})
                elif obs['real'] in ('panic', 'hang') and ('panic' in aspects):
                    obs['violations'].append({'aspect': 'panic' if obs['real'] == 'panic' else 'hang', 'what': 'internal panic: ' + detail, 'wit': obs['wit'], 'ref': 'unspecified'})
                return
            r, mdl = sat_model(s)
            if r != z3.sat:
                if r != z3.unsat: obs['unknown'].append('solver unknown in reference case')
                return
            obs['ref'].append(outcome[0] if outcome[0] == 'ok' else 'error:' + outcome[2].kind)
            def viol(aspect, what, mdl2=None):
                if aspect in aspects:
                    obs['violations'].append({'aspect': aspect, 'what': what[:400], 'wit': wit_of(mdl2 or mdl),
                                              'ref': outcome[0] if outcome[0] == 'ok' else 'error:' + outcome[2].kind})
            if obs['real'] in ('panic', 'hang'):
                viol('panic' if obs['real'] == 'panic' else 'hang', 'internal panic: ' + detail); return
            exp_code = 0 if outcome[0] == 'ok' else 103
            if code != exp_code:
                viol('exit', 'exit status %s, reference expects %d (%s); stderr %r' % (code, exp_code, obs['ref'][-1], eval_pieces(mdl, errp)[:160]))
                return
            d = compare_pieces(s, outp, outcome[1])
            if d is not None:
                if d[0] == 'diff': viol('stdout', 'stdout %r, reference %r' % (eval_pieces(d[1], outp)[:200], eval_pieces(d[1], outcome[1])[:200]), d[1])
                else: obs['unknown'].append('stdout comparison: ' + d[1])
            if outcome[0] == 'ok':
                if errp: viol('stderr-empty', 'stderr not empty on success: %r' % eval_pieces(mdl, errp)[:160])
            else:
                for aspect, what in check_diagnostic(s, errp, outcome[2], aspects): viol(aspect, what)
        if ref_prog is None:
            obs['unknown'].append('no reference program')
        elif isinstance(ref_prog, Exception):
            # the reference front end rejects the template: the real run must report a lexical / syntax error before running anything
            if isinstance(ref_prog, front.FrontUnspecified): obs['silent'].append('front: ' + str(ref_prog))
            else:
                obs['cases'] = 1; obs['ref'].append('syntax')
                if obs['real'] == 'panic' and 'panic' in aspects: obs['violations'].append({'aspect': 'panic', 'what': detail, 'wit': wit_of(m), 'ref': 'syntax'})
                elif code != 103 and 'exit' in aspects: obs['violations'].append({'aspect': 'exit', 'what': 'reference rejects the text (%s) but exit status is %s' % (ref_prog, code), 'wit': wit_of(m), 'ref': 'syntax'})
                elif outp and 'stdout' in aspects: obs['violations'].append({'aspect': 'stdout', 'what': 'output before a syntax error', 'wit': wit_of(m), 'ref': 'syntax'})
        else:
            holes = dict(M.symvars)
            sem.run_reference(ref_prog, list(M.solver.assertions()), holes, on_case)
        return obs
    return pf

def parse_reference(tmpl):
    try: return front.parse_prog(T.placeholder_text(tmpl['src']))
    except (front.RefSyntaxError, front.FrontUnspecified) as e: return e

def native_run(binary, src, workdir):
    os.makedirs(workdir, exist_ok=True)
    p = os.path.join(workdir, SCRIPT)
    with open(p, 'wb') as f: f.write(src if isinstance(src, bytes) else src.encode())
    try:
        r = subprocess.run([binary, SCRIPT], cwd=workdir, stdout=subprocess.PIPE, stderr=subprocess.PIPE, timeout=20, stdin=subprocess.DEVNULL)
        # the engine's environment stub answers `<CWD>` for the working directory; the native run echoes the real one
        wd = os.path.realpath(workdir).encode()
        return r.returncode, r.stdout, r.stderr.replace(wd, b'<CWD>').replace(os.path.abspath(workdir).encode(), b'<CWD>')
    except subprocess.TimeoutExpired:
        return 'timeout', b'', b''

def replay_matches(native, pred):
    code, out, err = native
    if pred.get('panic'):
        return code == 101 or (isinstance(code, int) and code < 0) or code == 'timeout' and False
    return code == pred['code'] and out == pred['out'].encode('latin1') and err == pred['err'].encode('latin1')

def run_template(M, tmpl, aspects, binary, workdir, par=16, timeout=600):
    """returns dict: rows, stats, replay stats, violations (with native confirmation), inconclusive list"""
    ref_prog = parse_reference(tmpl)
    pf = path_fn_for(tmpl, aspects, tmpl.get('assume'), ref_prog)
    rows, stats = X.explore(M, pf, par=par, timeout=timeout, tag=tmpl['name'][:20])
    res = {'name': tmpl['name'], 'stats': stats, 'paths': len(rows), 'replayed': 0, 'replay_ok': 0, 'violations': [], 'inconclusive': [],
           'silent': 0, 'cases': 0, 'ref_kinds': {}, 'samples': []}
    if stats['timed_out']:
        # a sampled program (random family) that does not finish within its budget is dropped from the sample and reported as such: the
        # paths explored so far are still checked; a template that is part of a stated bound makes the run inconclusive
        if tmpl.get('droppable'): res['dropped'] = 'exploration stopped at the %ss budget' % timeout
        else: res['inconclusive'].append('exploration timed out after %ss' % timeout)
    for r in rows:
        if r['status'] != 'ok':
            res['inconclusive'].append('%s: %s' % (r['status'], r['detail'][:300])); continue
        o = r['obs']
        res['cases'] += o['cases']; res['silent'] += len(o['silent'])
        if o.get('truncated'): res['truncated_paths'] = res.get('truncated_paths', 0) + 1
        for sr in o['silent']: res.setdefault('silent_reasons', {}); res['silent_reasons'][sr] = res['silent_reasons'].get(sr, 0) + 1
        for k in o['ref']: res['ref_kinds'][k] = res['ref_kinds'].get(k, 0) + 1
        for u in o['unknown']: res['inconclusive'].append('oracle: ' + u)
        # engine validation: replay this path's witness natively
        wit = o.get('wit', r['wit'])
        src = T.instantiate(tmpl['src'], wit)
        nat = native_run(binary, src, workdir)
        res['replayed'] += 1
        if replay_matches(nat, o['pred']): res['replay_ok'] += 1
        else:
            res['inconclusive'].append('engine/native disagreement on witness %r: native=%r predicted=%r' % (wit, (nat[0], nat[1][:120], nat[2][:200]), o['pred']))
        if len(res['samples']) < 3:
            res['samples'].append({'template': tmpl['name'], 'witness': wit, 'steps': r['steps'], 'reference': o['ref'], 'exit': o['code'], 'stdout': o['pred']['out'][:80]})
        for v in o['violations']:
            vsrc = T.instantiate(tmpl['src'], v['wit'])
            vn = native_run(binary, vsrc, workdir)
            conf = confirm_violation(v, vsrc, vn)
            v2 = dict(v); v2['template'] = tmpl['name']; v2['script'] = vsrc; v2['native'] = {'code': vn[0], 'out': vn[1].decode('latin1')[:300], 'err': vn[2].decode('latin1')[:400]}
            v2['confirmed'] = conf
            if conf: res['violations'].append(v2)
            else: res['inconclusive'].append('candidate violation not reproduced natively: %r' % (v2,))
    return res

def confirm_violation(v, src, nat):
    """the native binary, on the witness script, must itself contradict the reference (run concretely)"""
    code, out, err = nat
    if v['aspect'] == 'panic': return code == 101 or (isinstance(code, int) and code < 0)
    if v['aspect'] == 'hang': return code == 'timeout'
    ref = sem.run_concrete(src)
    if ref[0] == 'unspecified' and v.get('ref') == 'unspecified-print':
        return code == 103 and ref[3] is not None and out != ref[3]
    if ref[0] == 'unspecified' and v.get('ref') == 'unspecified-format':
        return code == 103 and not DIAG_RE.match(err.split(b'\n')[0])
    if ref[0] == 'unspecified': return False
    if ref[0] == 'syntax': exp_code = 103
    else: exp_code = 0 if ref[0] == 'ok' else 103
    if v['aspect'] == 'exit': return code != exp_code
    if v['aspect'] == 'stdout': return out != ref[1]
    if v['aspect'] == 'stderr-empty': return code == 0 and err != b''
    if v['aspect'] in ('format', 'position', 'message', 'stack'):
        if code != 103 or ref[0] not in ('error',): return False
        probs = check_diagnostic(z3.Solver(), [err], ref[2], (v['aspect'],))
        return len(probs) > 0
    return False
