# Path exploration: run a path function under a Machine, forking the process at every branch the solver cannot decide.
# Every finished path appends one JSON row to a results file; the root collects them.
import os, sys, json, time, tempfile, traceback, signal
import z3
from . import core as ms
from .core import Panic, PathEnd, Unsupported, Int
from .models import Exit

def model_value(mdl, v):
    if isinstance(v, Int): v = v.z() if v.sym() else v.v
    if isinstance(v, (int, bool)): return v
    r = mdl.eval(v, model_completion=True)
    if z3.is_bool(r): return z3.is_true(r)
    if z3.is_bv(r): return r.as_signed_long() if r.size() == 64 else r.as_long()
    if z3.is_int(r): return r.as_long()
    return str(r)

def explore(M, path_fn, par=16, timeout=None, tag='x'):
    """Explores all paths of path_fn(M). path_fn returns a JSON-serialisable dict (its observations / oracle verdicts)
    and may raise Panic / Unsupported / PathEnd / Exit.  Symbolic inputs must be registered in M.symvars (name -> z3 term)
    so that each row carries a witness.  Returns (rows, stats)."""
    import re as _re
    fd, res = tempfile.mkstemp(prefix='mirsym-%s-' % _re.sub(r'[^A-Za-z0-9_.-]', '_', tag), suffix='.jsonl', dir=os.environ.get('VERIF_TMP', '/var/tmp/seed-verif'))
    os.close(fd)
    t0 = time.time()
    ms.set_parallel(par)
    sys.stdout.flush(); sys.stderr.flush()
    pid = os.fork()
    if pid == 0:
        try:
            os.setpgid(0, 0)
        except OSError: pass
        M.is_child = True; M.kids = []; M.holds_slot = False
        M.steps0 = M.steps; M.nfork = 0; M.nquery = 0; M.solver_s = 0.0
        row = {'status': 'ok', 'detail': '', 'obs': None}
        try:
            try:
                row['obs'] = path_fn(M)
            except Exit as e:
                row['status'] = 'exit'; row['detail'] = str(e.code)
        except Panic as e: row['status'] = 'panic'; row['detail'] = str(e)[:500]
        except PathEnd as e: row['status'] = 'pathend'; row['detail'] = str(e)[:300]
        except Unsupported as e: row['status'] = 'unsupported'; row['detail'] = str(e)[:500]
        except BaseException as e:
            row['status'] = 'unsupported'; row['detail'] = 'internal: ' + ''.join(traceback.format_exception_only(type(e), e))[:400] + ' @ ' + traceback.format_exc()[-600:]
        try:
            if row['status'] != 'pathend':
                wit = {}
                if getattr(M, 'symvars', None):
                    if M.solver.check() == z3.sat:
                        mdl = M.solver.model()
                        for k, v in M.symvars.items(): wit[k] = model_value(mdl, v)
                    else:
                        row['status'] = 'pathend'; row['detail'] = 'infeasible at end'
                row['wit'] = wit
                row['steps'] = M.steps - M.steps0; row['nquery'] = M.nquery; row['solver_s'] = round(M.solver_s, 4)
                row['ndec'] = len(M.pc)
                if getattr(M, 'post', None): M.post(row)
            if row['status'] != 'pathend':
                with open(res, 'a') as f: f.write(json.dumps(row) + '\n')
        except BaseException as e:
            with open(res, 'a') as f: f.write(json.dumps({'status': 'unsupported', 'detail': 'row writer: %r' % (e,), 'wit': {}, 'steps': 0}) + '\n')
        try: M.finish()
        finally: os._exit(0)
    # root
    deadline = None if timeout is None else t0 + timeout
    timed_out = False
    while True:
        r, st = os.waitpid(pid, os.WNOHANG)
        if r != 0: break
        if deadline is not None and time.time() > deadline:
            timed_out = True
            try: os.killpg(pid, signal.SIGKILL)
            except OSError: pass
            os.waitpid(pid, 0); break
        time.sleep(0.02)
    rows = []
    with open(res) as f:
        for l in f:
            try: rows.append(json.loads(l))
            except ValueError: rows.append({'status': 'unsupported', 'detail': 'corrupt row', 'wit': {}, 'steps': 0})
    os.remove(res)
    stats = {'paths': len(rows), 'wall_s': round(time.time() - t0, 2), 'timed_out': timed_out,
             'steps': sum(r.get('steps', 0) for r in rows), 'queries': sum(r.get('nquery', 0) for r in rows),
             'solver_s': round(sum(r.get('solver_s', 0) for r in rows), 2)}
    if not rows and not timed_out:
        rows.append({'status': 'unsupported', 'detail': 'exploration produced no path (crashed child?)', 'wit': {}, 'steps': 0})
    return rows, stats
