# Symbolic *source text*: scripts whose bytes are (partly) solver variables, run through `main` or the lexer alone.
import z3
from . import harness as H, models
from .core import *

def sym_byte(M, name):
    if not hasattr(M, 'symvars'): M.symvars = {}
    v = z3.BitVec(name, 8); M.symvars[name] = v
    return U(8, v)

def text(M, parts):
    """parts: list of bytes | ('sym', name, constraint_fn or None).  returns list of Int (u8)"""
    out = []
    for p in parts:
        if isinstance(p, (bytes, str)): out += models.elems(p)
        else:
            b = sym_byte(M, p[1])
            if len(p) > 2 and p[2] is not None: M.assume(p[2](b.v))
            out.append(b)
    return out

def in_set(chars):
    cs = [c if isinstance(c, int) else ord(c) for c in chars]
    return lambda b: z3.Or(*[b == c for c in cs])
def not_in(chars):
    cs = [c if isinstance(c, int) else ord(c) for c in chars]
    return lambda b: z3.And(*[b != c for c in cs])
ASCII = lambda b: z3.ULT(b, 0x80)

def is_cont(b): return z3.And(z3.UGE(b, 0x80), z3.ULE(b, 0xBF))

def true_loc(bs, k):
    """specification: 1-based (line, col) of the character that starts at byte offset k of the byte terms bs (list of z3 bv8 / ints):
    line = 1 + number of LF before k; col = number of character starts in (last LF before k, k]"""
    z = [b if not isinstance(b, int) else z3.BitVecVal(b, 8) for b in bs]
    line = z3.IntVal(1) + z3.Sum([z3.If(z[j] == 10, 1, 0) for j in range(k)]) if k > 0 else z3.IntVal(1)
    col = z3.IntVal(0)
    for j in range(k + 1):
        if j < k: col = z3.If(z[j] == 10, 0, z3.If(z3.Not(is_cont(z[j])), col + 1, col))
        else: col = z3.If(z3.Not(is_cont(z[j])), col + 1, col)
    return line, col

def stop_after_parse(M):
    """replace eval_prog by a stub: the front-end checks end where evaluation would begin"""
    M.overrides = getattr(M, 'overrides', {})
    M.evaluator_entered = [0]
    def stub(Mx, args):
        Mx.evaluator_entered[0] += 1
        return ok(UNIT)
    # the evaluation entry point is recognised by its signature (it takes the parsed program), not by its name
    import re as _re
    hits = [name for name, b in M.bodies.items() if b.kind == 'fn' and '{closure' not in name and _re.search(r': &(ast::)?Prog\b', b.header) and 'Result<()' in b.header.split(') ->')[-1]]
    if not hits: hits = [name for name in M.bodies if name == 'eval_prog' or name.endswith('::eval_prog')]
    if not hits: raise Unsupported('evaluation entry point (a function taking &Prog) not found')
    for name in hits: M.overrides[name] = stub
