# Harness layer: build a Machine over the MIR of /repo's working tree, run `main` on a script, load the repo's test scripts.
import os, re, glob, time
import z3
from . import mirparse as mp
from . import core as ms
from .core import *
from . import models
from . import itermodels
from .models import Exit, OUT, ENV
from . import build

_LOADED = {}
STEP_BUDGET = 2_000_000
def load_mir(path):
    if path not in _LOADED:
        _LOADED[path] = mp.load(path)
    return _LOADED[path]

def make_machine(mir_path=None):
    if mir_path is None: mir_path = build.mir_dump()[0]
    bodies, allocs = load_mir(mir_path)
    srcs = glob.glob(os.path.join(build.REPO, 'src/**/*.rs'), recursive=True)
    ms.SRC_ROOT = build.REPO
    ms.load_enums_from_source(srcs)
    ENUMS['__Symbol'] = ['Variant%d' % i for i in range(64)]
    M = Machine(bodies, allocs); M.is_child = False
    models.init(M)
    return M

def run_cli(M, path, src):
    """run seed's `main` with argv = [seed, path] and the file content `src` (bytes, or a list of Int bytes).
    returns (exit code, stdout elements, stderr elements) -- see models.pieces / conc; raises Panic / Unsupported / PathEnd"""
    OUT['stdout'] = []; OUT['stderr'] = []
    from . import itermodels as _im
    _im._SW['n'] = 0
    ENV['args'] = ['seed', path]; ENV['files'] = {path: src}
    M.step_limit = M.steps + STEP_BUDGET
    code = 0
    try:
        M.call('main', [])
    except Exit as e:
        code = e.code
    return code, models.flat(OUT['stdout']), models.flat(OUT['stderr'])

def conc(els):
    """element list -> python bytes (must be concrete)"""
    return bytes(e.v for e in els)

def load_tests(repo=None):
    repo = repo or build.REPO
    tests = []
    for f in sorted(glob.glob(os.path.join(repo, 'tests/stdout/*test'))):
        ext = f.endswith('.xtest'); stem = os.path.basename(f).rsplit('.', 1)[0]
        cur = None; sec = 0
        for line in open(f).read().split('\n'):
            if line.startswith('=' * 50):
                if cur: tests.append(cur)
                name = line[50:].strip()
                if not name: cur = None; continue
                cur = {'file': stem, 'name': name, 'src': '', 'code': 0, 'stdout': '', 'stderr': '', 'x': ext}; sec = 0; continue
            if cur is None: continue
            if line == '-' * 50: sec += 1; continue
            if ext:
                if sec == 0: cur['code'] = int(line.split(': ')[1])
                elif sec == 1: cur['src'] += line + '\n'
                elif sec == 2: cur['stdout'] += line + '\n'
                elif sec == 3: cur['stderr'] += line + '\n'
            else:
                if sec == 0: cur['src'] += line + '\n'
                elif sec == 1: cur['stdout'] += line + '\n'
    return tests
