// Kani harnesses (E2): the *compiled* arithmetic kernel against an independent 128-bit oracle.
// Included into a scratch copy of src/eval/mod.rs as `#[cfg(kani)] mod verif_kani { include!(..) }` (child module: private items reachable).
use super::*;

fn check_arith(op: BinaryOp, exact: impl Fn(i128, i128) -> i128) {
    let a: i64 = kani::any();
    let b: i64 = kani::any();
    let r = apply_binary_operation(&op, &(1, 1), &Value::Int(a), &Value::Int(b));
    let e = exact(a as i128, b as i128);
    let fits = e <= i64::MAX as i128 && e >= i64::MIN as i128;
    match &r {
        Ok(Value::Int(v)) => { assert!(fits); assert!((*v as i128) == e); },
        Ok(_) => assert!(false),
        Err(_) => assert!(!fits),
    }
    kani::cover!(r.is_ok(), "some pair succeeds");
    kani::cover!(r.is_err(), "some pair overflows");
    std::mem::forget(r);
}

#[kani::proof]
fn arith_sum() { check_arith(BinaryOp::Sum, |a, b| a + b); }
#[kani::proof]
fn arith_sub() { check_arith(BinaryOp::Sub, |a, b| a - b); }
#[kani::proof]
fn arith_mul() { check_arith(BinaryOp::Mul, |a, b| a * b); }

fn check_cmp(op: BinaryOp, exact: impl Fn(i64, i64) -> bool) {
    let a: i64 = kani::any();
    let b: i64 = kani::any();
    let r = apply_binary_operation(&op, &(1, 1), &Value::Int(a), &Value::Int(b));
    match &r {
        Ok(Value::Bool(v)) => assert!(*v == exact(a, b)),
        _ => assert!(false),
    }
    std::mem::forget(r);
}
#[kani::proof]
fn cmp_lt() { check_cmp(BinaryOp::Lt, |a, b| (a as i128) < (b as i128)); }
#[kani::proof]
fn cmp_lte() { check_cmp(BinaryOp::Lte, |a, b| (a as i128) <= (b as i128)); }
#[kani::proof]
fn cmp_gt() { check_cmp(BinaryOp::Gt, |a, b| (a as i128) > (b as i128)); }
#[kani::proof]
fn cmp_gte() { check_cmp(BinaryOp::Gte, |a, b| (a as i128) >= (b as i128)); }
#[kani::proof]
fn cmp_eq() { check_cmp(BinaryOp::Eq, |a, b| (a as i128) == (b as i128)); }
#[kani::proof]
fn cmp_ne() { check_cmp(BinaryOp::Ne, |a, b| (a as i128) != (b as i128)); }

// zero divisor and MIN / -1 must be reported; (32-bit slice of the quotient/remainder relation: the full 64-bit query does not finish)
#[kani::proof]
fn div_mod_error_domain() {
    let a: i64 = kani::any();
    let b: i64 = kani::any();
    let d = apply_binary_operation(&BinaryOp::Div, &(1, 1), &Value::Int(a), &Value::Int(b));
    let m = apply_binary_operation(&BinaryOp::Mod, &(1, 1), &Value::Int(a), &Value::Int(b));
    assert!(d.is_err() == (b == 0 || (a == i64::MIN && b == -1)));
    assert!(m.is_err() == (b == 0));
    std::mem::forget(d); std::mem::forget(m);
}
