# prototype: a selector/hole family through the whole pipeline, with forking
import sys, os, time, json, re
sys.path.insert(0, '/var/tmp/probe')
import z3
import runner, evalmodels2, mirsym as ms
from mirsym import *
t0 = time.time()
M = runner.make_machine()
HOLES = {}
SYMS = {}
def subst(v):
    if isinstance(v, Agg):
        if v.ty == 'RawExpr' and ENUMS['RawExpr'][v.variant] == 'Int' and isinstance(v.fields[0], Int) and not v.fields[0].sym() and 770000 <= v.fields[0].v < 770100:
            k = v.fields[0].v - 770000
            if k not in HOLES: HOLES[k] = Int(64, True, z3.BitVec('h%d' % k, 64))
            v.fields[0] = HOLES[k]; return
        for f in v.fields: subst(f)
    elif isinstance(v, Native):
        for x in v.d.get('b', []) if v.kind == 'Vec' else v.d.get('slot', []) if v.kind == 'Box' else []: subst(x)
orig_parse = None
for i, (pat, f) in enumerate(ms.MODEL_PATTERNS):
    if pat.pattern == r'^(Prog|Expr)Parser::parse$': orig_parse = f; idx = i
PROG = []
def parse_hook(Mx, a, c):
    r = orig_parse(Mx, a, c)
    if r.variant == 0:
        subst(r.fields[0])
        if 'ProgParser' in c: PROG.append(r.fields[0])
    return r
ms.MODEL_PATTERNS[idx] = (ms.MODEL_PATTERNS[idx][0], parse_hook)
# symbolic ints in output
_old_render_one = evalmodels2.render_one
def render_one(Mx, fa):
    v = deref_all(fa.d['v'])
    if isinstance(v, Int) and v.sym():
        key = b'<<%d>>' % len(SYMS); SYMS[key] = v; return key
    return _old_render_one(Mx, fa)
evalmodels2.render_one = render_one
src = open(sys.argv[1], 'rb').read()
RES = '/var/tmp/probe/fam_results.jsonl'; open(RES, 'w').close()
status = 'ok'; detail = ''
try:
    code, so, se = runner.run_cli(M, 't.sd', src)
    detail = 'exit=%d out=%r err=%r' % (code, so, se[:120])
except Panic as e: status = 'panic'; detail = str(e)
except Unsupported as e: status = 'unsupported'; detail = str(e)[:200]
import refsem
verdict = ''
def pieces_real(b):
    out = []; i = 0
    for m in re.finditer(rb'<<(\d+)>>', b):
        if m.start() > i: out.append(b[i:m.start()])
        out.append(SYMS[m.group(0)]); i = m.end()
    if i < len(b): out.append(b[i:])
    return out
def pieces_ref(vals):
    out = []
    for v in vals:
        if v[0] == 'int':
            if isinstance(v[1], int): out.append(str(v[1]).encode())
            elif z3.is_bv_value(v[1]): out.append(str(v[1].as_signed_long()).encode())
            else: out.append(Int(64, True, v[1]))
        elif v[0] == 'bool': out.append(b'true' if v[1] is True or z3.is_true(v[1]) else b'false')
        elif v[0] == 'null': out.append(b'<null>')
        out.append(b'\n')
    # merge adjacent bytes
    m = []
    for p in out:
        if isinstance(p, bytes) and m and isinstance(m[-1], bytes): m[-1] += p
        else: m.append(p)
    return m
if status == 'ok' and PROG:
    try: ast = [refsem.imp_stmt(st) for st in PROG[0].fields[0].d['b']]
    except NotImplementedError as e: ast = None
    real = pieces_real(so)
    def on_case(outcome, s):
        global verdict
        if s.check() != z3.sat: return
        exp_code = 0 if outcome[0] == 'ok' else 103
        ref = pieces_ref(outcome[1])
        okk = (exp_code == code) and len(ref) == len(real)
        if okk:
            for a, b in zip(ref, real):
                if isinstance(a, bytes) != isinstance(b, bytes): okk = False; break
                if isinstance(a, bytes):
                    if a != b: okk = False; break
                else:
                    s.push(); s.add(a.z() != b.z()); bad = s.check() == z3.sat; s.pop()
                    if bad: okk = False; break
        if not okk:
            mdl = s.model()
            verdict += ' MISMATCH[ref=%s code=%d wit=%s]' % (ref, exp_code, {k: mdl.eval(h.v, model_completion=True).as_signed_long() for k, h in HOLES.items()})
        else: verdict += ' agree'
    try:
        if ast is None: raise NotImplementedError('import')
        refsem.lockstep(list(M.solver.assertions()), ast, on_case)
    except NotImplementedError as e:
        verdict = ' ref-unsupported(%s)' % e
    detail += ' ||' + verdict
wit = {}
if M.solver.check() == z3.sat:
    mdl = M.solver.model(); wit = {k: mdl.eval(h.v, model_completion=True).as_signed_long() for k, h in HOLES.items()}
with open(RES, 'a') as f: f.write(json.dumps({'status': status, 'detail': detail, 'wit': wit, 'steps': M.steps}) + '\n')
if M.is_child: os._exit(0)
rows = [json.loads(l) for l in open(RES)]
print('paths', len(rows), 'time %.1fs' % (time.time() - t0))
for r in rows: print(r['status'], r['wit'], r['detail'][:260])
