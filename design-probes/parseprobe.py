import sys, os, time, json, re
import z3
import mirparse as mp
import mirsym as ms
from mirsym import *
import evalmodels
t0 = time.time()
bodies, allocs = mp.load('/var/tmp/probe/seed.mir')
ms.load_enums_from_source(['/repo/src/lexer/mod.rs', '/repo/src/ast.rs', '/repo/src/eval/value.rs', '/repo/src/eval/error.rs', '/repo/src/eval/mod.rs', '/repo/src/eval/bind.rs'])
# generated parser enums: __Symbol variants are Variant0..N in order
for modname in ('Prog', 'Expr'):
    ENUMS['__Symbol'] = ['Variant%d' % i for i in range(40)]
M = Machine(bodies, allocs); M.is_child = False
src = sys.argv[1].encode().decode('unicode_escape').encode('latin1') if len(sys.argv) > 1 else b'x := 1 + 2 * 3\nobs(x)\n'
bs = [U(8, x) for x in src]; inp = Slice(bs, 0, len(bs), True)
LN = find_fn(M, r'^lexer::<impl at src/lexer/mod.rs:\d+:1: \d+:\d+>::new$'); LX = find_fn(M, r'^lexer::<impl at src/lexer/mod.rs:\d+:1: \d+:\d+>::next$')
P = '__parse__Prog::'
PH = Native('ZST', name='PhantomData')
def drive(M, next_token):
    """transcription of lalrpop_util::state_machine::Parser::drive/parse/parse_eof (no error recovery)"""
    states = Native('Vec', b=[Int(16, True, 0)]); symbols = Native('Vec', b=[])
    last_location = Agg('tuple', 0, [usize(0), usize(0)])
    eofa = M.const('parser::' + P + '__EOF_ACTION')
    def top(): return states.d['b'][-1]
    def reduce(idx, la_start):
        return M.call(P + '__reduce', [Int(16, True, idx), la_start, Ref([states], 0), Ref([symbols], 0), PH])
    def unrecognized(tok):
        exp = M.call(P + '__expected_tokens_from_states', [Slice(states.d['b'], 0, len(states.d['b'])), PH]) if False else None
        return ('UnrecognizedToken' if tok is not None else 'UnrecognizedEof', tok, vcopy(last_location))
    while True:
        t = next_token()
        if t is None:
            while True:
                a = eofa.b[eofa.lo + top().v].v
                if a < 0:
                    r = reduce(-(a + 1), NONE())
                    if r.variant == 1: return ('result', r.fields[0])
                else: return ('error', unrecognized(None))
        if t.variant == 1: return ('error', ('User', t.fields[0]))
        triple = t.fields[0]
        last_location = vcopy(triple.fields[2])
        ti = M.call(P + '__token_to_integer', [Ref(triple.fields, 1), PH])
        if ti.variant == 0: return ('error', unrecognized(triple))
        idx = ti.fields[0]
        while True:
            a = M.call(P + '__action', [top(), idx]).v
            if a > 0:
                sym = M.call(P + '__token_to_symbol', [idx, triple.fields[1], PH])
                states.d['b'].append(Int(16, True, a - 1)); symbols.d['b'].append(Agg('tuple', 0, [triple.fields[0], sym, triple.fields[2]]))
                break
            elif a < 0:
                r = reduce(-(a + 1), some(Ref(triple.fields, 0)))
                if r.variant == 1: return ('error', ('ExtraToken', triple))
            else:
                return ('error', unrecognized(triple))
lx = M.call(LN, [inp]); cell = [lx]
def next_token():
    r = M.call(LX, [Ref(cell, 0)])
    return None if r.variant == 0 else r.fields[0]
try:
    kind, res = drive(M, next_token)
    print(kind, 'steps', M.steps, 'time %.2f' % (time.time() - t0))
    if kind == 'result':
        print('result variant', res.variant)
        if res.variant == 0:
            prog = res.fields[0]
            print('stmts:', [ENUMS['Stmt'][s.variant] for s in prog.fields[0].d['b']])
    else:
        print(res[0], res[2] if len(res) > 2 else '')
except (Panic, Unsupported) as e:
    print(type(e).__name__, str(e)[:300], 'steps', M.steps)

if kind == 'result' and res.variant == 0:
    E = ENUMS
    def S(s): return Native('String', b=[U(8, x) for x in s.encode()])
    OBS = []
    def obs(Mx, args, callee):
        this, av = args
        OBS.append(av.d['b'][0]); return ok(Agg('SourcedValue', 0, [Agg('Value', 0, []), NONE()]))
    evalmodels.NATIVE_FNS['obs'] = obs
    def empty_obj(): return Native('Arc', inner=Native('Mutex', locked=False, slot=[Native('BTreeMap', m={})]))
    tf = Agg('TypeFunctions', 0, [empty_obj() for _ in range(6)])
    builtins = Agg('Builtins', 0, [empty_obj(), tf])
    ctx = Agg('EvaluationContext', 0, [Ref([builtins], 0), Native('PathBuf')])
    scopes = Agg('ScopeStack', 0, [Native('Vec', b=[])])
    globs = Native('Vec', b=[Agg('tuple', 0, [Agg('RawExpr', E['RawExpr'].index('Var'), [S('obs')]), Agg('SourcedValue', 0, [Agg('Value', E['Value'].index('BuiltinFunc'), [S('obs'), Native('FnItem', name='@native:obs')]), NONE()])])])
    s0 = M.steps
    try:
        r = M.call('eval_prog', [Ref([ctx], 0), Ref([scopes], 0), globs, Ref([prog], 0)])
        def show(sv):
            v = sv.fields[0]; k = E['Value'][v.variant]
            if k == 'Int': return v.fields[0].v
            if k == 'Bool': return v.fields[0]
            if k == 'Str': return bytes(b.v for b in v.fields[0].d['b'])
            if k == 'List': return [show(x) for x in v.fields[0].d['inner'].d['slot'][0].d['b']]
            return k
        print('eval', 'Ok' if r.variant == 0 else 'Err(%s)' % E['Error'][r.fields[0].variant], 'obs=', [show(o) for o in OBS], 'eval steps', M.steps - s0, 'time %.2f' % (time.time() - t0))
    except (Panic, Unsupported) as e:
        print(type(e).__name__, str(e)[:300], 'obs so far', len(OBS), 'steps', M.steps)
