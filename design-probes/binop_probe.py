import sys, os, time, json, re
import z3
import mirparse as mp
import mirsym as ms
from mirsym import *
t0 = time.time()
bodies, allocs = mp.load('/var/tmp/probe/seed.mir')
ms.load_enums_from_source(['/repo/src/lexer/mod.rs', '/repo/src/ast.rs', '/repo/src/eval/value.rs', '/repo/src/eval/error.rs', '/repo/src/eval/mod.rs'])
M = Machine(bodies, allocs); M.is_child = False
opname = sys.argv[1]
a = Int(64, True, z3.BitVec('a', 64)); b = Int(64, True, z3.BitVec('b', 64))
op = Agg('BinaryOp', ENUMS['BinaryOp'].index(opname), [])
loc = Agg('tuple', 0, [usize(1), usize(3)])
lhs = Agg('Value', ENUMS['Value'].index('Int'), [a]); rhs = Agg('Value', ENUMS['Value'].index('Int'), [b])
status = 'ok'; detail = ''
try:
    r = M.call('apply_binary_operation', [Ref([op], 0), Ref([loc], 0), Ref([lhs], 0), Ref([rhs], 0)])
    if r.variant == 0:
        v = r.fields[0]; detail = 'Ok(%s)' % ENUMS['Value'][v.variant]
        out = v.fields[0]
        detail += ' ' + str(z3.simplify(out.z()))[:80]
    else:
        e = r.fields[0]; detail = 'Err(%s' % ENUMS['Error'][e.variant]
        inner = e.fields[0].d['slot'][0] if isinstance(e.fields[0], Native) else e.fields[0]
        detail += '/' + ENUMS['Error'][inner.variant] + ')'
except Panic as e: status = 'panic'; detail = str(e)
except PathEnd as e: status = 'pathend'; detail = str(e)
except Unsupported as e: status = 'unsupported'; detail = str(e)
wit = ''
if M.solver.check() == z3.sat:
    mdl = M.solver.model(); wit = (mdl.eval(a.v, model_completion=True).as_signed_long(), mdl.eval(b.v, model_completion=True).as_signed_long())
print(status, detail, wit, 'steps', M.steps); sys.stdout.flush()
if M.is_child: os._exit(0)
print("time %.1fs" % (time.time() - t0))
