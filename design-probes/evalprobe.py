import sys, os, time, json, re
import z3
import mirparse as mp
import mirsym as ms
from mirsym import *
import evalmodels
t0 = time.time()
bodies, allocs = mp.load('/var/tmp/probe/seed.mir')
ms.load_enums_from_source(['/repo/src/lexer/mod.rs', '/repo/src/ast.rs', '/repo/src/eval/value.rs', '/repo/src/eval/error.rs', '/repo/src/eval/mod.rs', '/repo/src/eval/bind.rs'])
M = Machine(bodies, allocs); M.is_child = False
E = ENUMS
def S(s): return Native('String', b=[U(8, x) for x in s.encode()])
def loc(l=1, c=1): return Agg('tuple', 0, [usize(l), usize(c)])
def expr(raw): return Agg('tuple', 0, [raw, loc()])
def RE(name, *f): return Agg('RawExpr', E['RawExpr'].index(name), list(f))
def var(n): return expr(RE('Var', S(n)))
def int_(n): return expr(RE('Int', n if isinstance(n, Int) else Int(64, True, n)))
def bool_(b): return expr(RE('Bool', b))
def box(v): return Native('Box', slot=[v])
def vec(*xs): return Native('Vec', b=list(xs))
def binop(op, l, r): return expr(RE('BinaryOp', Agg('BinaryOp', E['BinaryOp'].index(op), []), loc(), box(l), box(r)))
def call(f, *args): return expr(RE('Call', box(f), vec(*[Agg('ListItem', 0, [a, False]) for a in args])))
def ST(name, *f): return Agg('Stmt', E['Stmt'].index(name), list(f))
a = Int(64, True, z3.BitVec('a', 64)); c = z3.Bool('c')
prog = Agg('Prog', 0, [vec(
    ST('Declare', var('x'), int_(a)),
    ST('If', vec(Agg('Branch', 0, [bool_(c), vec(ST('Assign', var('x'), binop('Sum', var('x'), int_(1))))])), NONE()),
    ST('Expr', call(var('obs'), var('x'))),
)])
OBS = []
def obs(Mx, args, callee):
    this, av = args
    OBS.append(av.d['b'][0]); return ok(Agg('SourcedValue', 0, [Agg('Value', 0, []), NONE()]))
evalmodels.NATIVE_FNS['obs'] = obs
def empty_obj(): return Native('Arc', inner=Native('Mutex', locked=False, slot=[Native('BTreeMap', m={})]))
tf = Agg('TypeFunctions', 0, [empty_obj() for _ in range(6)])
builtins = Agg('Builtins', 0, [empty_obj(), tf])
ctx = Agg('EvaluationContext', 0, [Ref([builtins], 0), Native('PathBuf')])
scopes = Agg('ScopeStack', 0, [vec()])
globs = vec(Agg('tuple', 0, [RE('Var', S('obs')), Agg('SourcedValue', 0, [Agg('Value', E['Value'].index('BuiltinFunc'), [S('obs'), Native('FnItem', name='@native:obs')]), NONE()])]))
status = 'ok'; detail = ''
try:
    r = M.call('eval_prog', [Ref([ctx], 0), Ref([scopes], 0), globs, Ref([prog], 0)])
    detail = 'Ok' if r.variant == 0 else 'Err(%s)' % E['Error'][r.fields[0].variant]
    detail += ' obs=%s' % [z3.simplify(o.fields[0].fields[0].z()) if isinstance(o.fields[0].fields[0], Int) else o for o in OBS]
except Panic as e: status = 'panic'; detail = str(e)
except PathEnd as e: status = 'pathend'; detail = str(e)
except Unsupported as e: status = 'unsupported'; detail = str(e)
wit = ''
if M.solver.check() == z3.sat:
    mdl = M.solver.model(); wit = (mdl.eval(a.v, model_completion=True).as_signed_long(), mdl.eval(c, model_completion=True))
print(status, detail, wit, 'steps', M.steps, 'time %.2f' % (time.time() - t0)); sys.stdout.flush()
if M.is_child: os._exit(0)
