# prototype std models for the evaluator (heap containers)
import re, z3
from mirsym import *
import mirsym as ms
NATIVE_FNS = {}

def V(x):
    x = deref_all(x)
    return x
@model_re(r'^Vec::with_capacity$')
def _(M, a, c): return Native('Vec', b=[])
@model_re(r'^<Vec<.*> as Deref>::deref$|^<Vec<.*> as DerefMut>::deref_mut$')
def _(M, a, c):
    v = V(a[0]); return Slice(v.d['b'], 0, len(v.d['b']))
@model_re(r'^<&Vec<.*> as IntoIterator>::into_iter$|^core::slice::<impl \[.*\]>::iter$')
def _(M, a, c):
    v = V(a[0])
    if isinstance(v, Native): v = Slice(v.d['b'], 0, len(v.d['b']))
    return Native('SliceIter', s=v, pos=0, end=len(v))
@model_re(r'^<std::slice::Iter<.*> as Iterator>::next$')
def _(M, a, c):
    it = V(a[0])
    if it.d['pos'] >= it.d['end']: return NONE()
    s = it.d['s']; i = it.d['pos']; it.d['pos'] += 1
    return some(Ref(s.b, s.lo + i))
@model_re(r'^<std::slice::Iter<.*> as Iterator>::rev$')
def _(M, a, c): return Native('RevIter', inner=a[0])
@model_re(r'^<Rev<.*> as IntoIterator>::into_iter$|^<Enumerate<.*> as IntoIterator>::into_iter$|^<std::ops::Range<usize> as IntoIterator>::into_iter$')
def _(M, a, c): return a[0]
@model_re(r'^<Rev<std::slice::Iter<.*>> as Iterator>::next$')
def _(M, a, c):
    it = V(a[0]).d['inner']
    if it.d['pos'] >= it.d['end']: return NONE()
    it.d['end'] -= 1; s = it.d['s']
    return some(Ref(s.b, s.lo + it.d['end']))
@model_re(r'^<std::vec::IntoIter<.*> as Iterator>::next$')
def _(M, a, c):
    it = V(a[0])
    if it.d['pos'] >= len(it.d['b']): return NONE()
    v = it.d['b'][it.d['pos']]; it.d['pos'] += 1; return some(v)
@model_re(r'^<std::vec::IntoIter<.*> as Iterator>::map$')
def _(M, a, c): return Native('MapIter', inner=a[0], f=a[1])
@model_re(r'^<Map<std::vec::IntoIter<.*>, .*> as Iterator>::collect$')
def _(M, a, c):
    it = a[0]; inner = it.d['inner']; out = []
    for v in inner.d['b'][inner.d['pos']:]: out.append(call_closure(M, it.d['f'], [Agg('tuple', 0, [v])] if False else [v]))
    return Native('Vec', b=out)
@model_re(r'^<Vec<.*> as Clone>::clone$')
def _(M, a, c):
    v = V(a[0]); inner = re.match(r'^<Vec<(.*)> as Clone>::clone$', norm_name(c)).group(1)
    return Native('Vec', b=[clone_val(M, x, inner) for x in v.d['b']])
def clone_val(M, x, ty):
    if isinstance(x, (Int, bool)) or z3.is_expr(x): return x
    return M.do_call('<%s as Clone>::clone' % ty, [Ref([x], 0)], None)
@model_re(r'^<Box<.*> as Clone>::clone$')
def _(M, a, c):
    b = V(a[0]); inner = re.match(r'^<Box<(.*)> as Clone>::clone$', norm_name(c)).group(1)
    return Native('Box', slot=[clone_val(M, b.d['slot'][0], inner)])
@model_re(r'^<\(ast::RawExpr, \(usize, usize\)\) as Clone>::clone$')
def _(M, a, c):
    t = V(a[0]); return Agg('tuple', 0, [clone_val(M, t.fields[0], 'ast::RawExpr'), vcopy(t.fields[1])])
@model_re(r'^<Option<.*> as Clone>::clone$')
def _(M, a, c): return ms.m_opt_clone(M, a, c)
@model('<String as Clone>::clone')
def _(M, a, c): return Native('String', b=list(V(a[0]).d['b']))
@model_re(r'^<Arc<.*> as Clone>::clone$')
def _(M, a, c): return V(a[0])       # same heap identity
@model_re(r'^<Arc<.*> as Deref>::deref$')
def _(M, a, c): return Ref([V(a[0]).d['inner']], 0)
@model_re(r'^Arc::new$')
def _(M, a, c): return Native('Arc', inner=a[0])
@model_re(r'^std::sync::Mutex::new$')
def _(M, a, c): return Native('Mutex', locked=False, slot=[a[0]])
@model_re(r'^std::sync::Mutex::try_lock$')
def _(M, a, c):
    m = V(a[0])
    if m.d['locked']: return err(Agg('TryLockError', 1, []))
    m.d['locked'] = True
    return ok(Native('MutexGuard', mutex=m))
@model_re(r'^std::result::Result::unwrap$')
def _(M, a, c):
    r = a[0]
    if r.variant == 1: raise Panic("called `Result::unwrap()` on an `Err` value")
    return r.fields[0]
@model_re(r'^<std::sync::MutexGuard<.*> as Deref(Mut)?>::deref(_mut)?$')
def _(M, a, c): return Ref(V(a[0]).d['mutex'].d['slot'], 0)
@model_re(r'^HashMap::new$|^HashSet::new$')
def _(M, a, c): return Native('HashMap', m={})
def skey(s):
    s = as_slice(s)
    if isinstance(s, Ref): s = as_slice(s.load())
    bs = s.items()
    assert all(not b.sym() for b in bs), "symbolic map key"
    return bytes(b.v for b in bs)
@model_re(r'^HashMap::get$|^BTreeMap::get$')
def _(M, a, c):
    m = V(a[0]); k = skey(a[1])
    if k in m.d['m']: return some(Ref(m.d['m'][k], 1))
    return NONE()
@model_re(r'^HashMap::get_mut$|^BTreeMap::get_mut$')
def _(M, a, c):
    m = V(a[0]); k = skey(a[1])
    if k in m.d['m']: return some(Ref(m.d['m'][k], 1))
    return NONE()
@model_re(r'^HashMap::insert$|^BTreeMap::insert$')
def _(M, a, c):
    m = V(a[0]); k = skey(a[1])
    old = m.d['m'].get(k); m.d['m'][k] = [a[1], a[2]]
    return some(old[1]) if old else NONE()
@model_re(r'^HashSet::contains$')
def _(M, a, c): return skey(a[1]) in V(a[0]).d['m']
@model_re(r'^HashSet::insert$')
def _(M, a, c):
    m = V(a[0]); k = skey(a[1]); new = k not in m.d['m']; m.d['m'][k] = [a[1], UNIT]; return new
@model_re(r'^<Result<.*> as Try>::branch$|^<std::result::Result<.*> as Try>::branch$')
def _(M, a, c):
    r = a[0]
    if r.variant == 0: return Agg('ControlFlow', 0, [r.fields[0]])
    return Agg('ControlFlow', 1, [Agg('Result', 1, [r.fields[0]])])
@model_re(r'^<std::result::Result<.*> as FromResidual<.*>>::from_residual$')
def _(M, a, c): return Agg('Result', 1, [a[0].fields[0]])
@model_re(r'^<\{closure@.*\} as Fn(Mut|Once)?<.*>>::call(_mut|_once)?$')
def _(M, a, c):
    f = V(a[0]); args = a[1].fields
    return call_closure(M, f, list(args), byref=isinstance(a[0], Ref))
def call_closure(M, f, args, byref=True):
    m = re.match(r'\{closure@(.*)\}', f.ty); locn = m.group(1)
    for name, b in M.bodies.items():
        if '{closure#' in name and ('{closure@%s}' % locn) in b.header:
            return M.call(name, [Ref([f], 0) if byref else f] + args)
    raise Unsupported("closure body not found for " + f.ty)
ms.call_closure = call_closure
@model_re(r'^Vec::new$')
def _(M, a, c): return Native('Vec', b=[])
@model_re(r'^<Vec<.*> as Index<usize>>::index$|^<Vec<.*> as IndexMut<usize>>::index_mut$')
def _(M, a, c):
    v = V(a[0]); i = a[1]
    assert not i.sym()
    if i.v >= len(v.d['b']): raise Panic("index out of bounds")
    return Ref(v.d['b'], i.v)
@model_re(r'^<SourcedValue as Clone>::clone$|^<Value as Clone>::clone$|^<ast::\w+ as Clone>::clone$')
def _(M, a, c):
    key = M.lookup(norm_name(c))
    return M.call(key, a)
@model_re(r'^core::slice::<impl \[.*\]>::last$')
def _(M, a, c):
    s = a[0]
    if len(s) == 0: return NONE()
    return some(Ref(s.b, s.hi - 1))
@model_re(r'^Option::expect$')
def _(M, a, c):
    if a[0].variant == 0: raise Panic("expect on None")
    return a[0].fields[0]
@model_re(r'^Box::new_uninit$')
def _(M, a, c): return Native('UninitBox', slot=[None])
@model_re(r'^std::boxed::box_assume_init_into_vec_unsafe$')
def _(M, a, c):
    arr = a[0].d['slot'][0]
    while isinstance(arr, Agg) and arr.ty != 'array': arr = [f for f in arr.fields if f is not None][0]
    return Native('Vec', b=arr.fields)
@model_re(r'^Option::map$')
def _(M, a, c):
    o, f = a
    if o.variant == 0: return NONE()
    if isinstance(f, Native) and f.kind == 'FnItem': return some(M.call(f.d['name'], [o.fields[0]]))
    return some(call_closure(M, f, [o.fields[0]], byref=False))
@model_re(r'^<fn\(.*\) -> .* as Clone>::clone$')
def _(M, a, c): return V(a[0])
@model_re(r'^Vec::pop$')
def _(M, a, c):
    b = V(a[0]).d['b']
    return some(b.pop()) if b else NONE()
@model_re(r'^Vec::truncate$')
def _(M, a, c):
    b = V(a[0]).d['b']; n = a[1].v
    del b[n:]; return UNIT
@model_re(r'^Vec::insert$')
def _(M, a, c):
    b = V(a[0]).d['b']; b.insert(a[1].v, a[2]); return UNIT
@model_re(r'^Vec::is_empty$')
def _(M, a, c): return len(V(a[0]).d['b']) == 0
@model_re(r'^Option::unwrap$')
def _(M, a, c):
    if a[0].variant == 0: raise Panic("unwrap on None")
    return a[0].fields[0]
@model_re(r'^Option::is_some$')
def _(M, a, c): return V(a[0]).variant == 1
@model_re(r'^Option::is_none$')
def _(M, a, c): return V(a[0]).variant == 0
@model_re(r'^Option::cloned$|^Option::copied$')
def _(M, a, c):
    o = a[0]
    return NONE() if o.variant == 0 else some(vcopy(V(o.fields[0])))
@model_re(r'^Option::unwrap_or_else$')
def _(M, a, c):
    o, f = a
    if o.variant == 1: return o.fields[0]
    return call_closure(M, f, [], byref=False)
@model_re(r'^<std::vec::IntoIter<.*> as Iterator>::rev$')
def _(M, a, c):
    it = a[0]; return Native('IntoIter', b=list(reversed(it.d['b'][it.d['pos']:])), pos=0)
@model_re(r'^<Rev<std::vec::IntoIter<.*>> as Iterator>::collect$|^<std::vec::IntoIter<.*> as Iterator>::collect$')
def _(M, a, c):
    it = a[0]; return Native('Vec', b=it.d['b'][it.d['pos']:])
@model_re(r'^Box::new$')
def _(M, a, c): return Native('Box', slot=[a[0]])
@model_re(r'^<.* as Into<.*>>::into$|^<.* as From<.*>>::from$')
def _(M, a, c): return a[0]
