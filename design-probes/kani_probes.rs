#[cfg(kani)]
mod verif_probe {
    use super::*;

    fn fake_format(_a: std::fmt::Arguments<'_>) -> String { String::new() }

    #[kani::proof]
    fn binop_sum_int() {
        let a: i64 = kani::any();
        let b: i64 = kani::any();
        let r = apply_binary_operation(&BinaryOp::Sum, &(1, 1), &Value::Int(a), &Value::Int(b));
        let exact = (a as i128) + (b as i128);
        match &r {
            Ok(Value::Int(v)) => assert!((*v as i128) == exact),
            Ok(_) => assert!(false),
            Err(_) => assert!(exact > i64::MAX as i128 || exact < i64::MIN as i128),
        }
        std::mem::forget(r);
    }

    #[kani::proof]
    fn binop_mul_int() {
        let a: i64 = kani::any();
        let b: i64 = kani::any();
        let r = apply_binary_operation(&BinaryOp::Mul, &(1, 1), &Value::Int(a), &Value::Int(b));
        let exact = (a as i128) * (b as i128);
        match &r {
            Ok(Value::Int(v)) => assert!((*v as i128) == exact),
            Ok(_) => assert!(false),
            Err(_) => assert!(exact > i64::MAX as i128 || exact < i64::MIN as i128),
        }
        std::mem::forget(r);
    }

    #[kani::proof]
    fn binop_div_int() {
        let a: i64 = kani::any();
        let b: i64 = kani::any();
        let r = apply_binary_operation(&BinaryOp::Div, &(1, 1), &Value::Int(a), &Value::Int(b));
        match &r {
            Ok(Value::Int(v)) => { assert!(b != 0); assert!(!(a == i64::MIN && b == -1)); assert!(*v == a.wrapping_div(b)); },
            Ok(_) => assert!(false),
            Err(_) => assert!(b == 0 || (a == i64::MIN && b == -1)),
        }
        std::mem::forget(r);
    }

    #[kani::proof]
    fn binop_mod_int() {
        let a: i64 = kani::any();
        let b: i64 = kani::any();
        let r = apply_binary_operation(&BinaryOp::Mod, &(1, 1), &Value::Int(a), &Value::Int(b));
        match &r {
            Ok(Value::Int(v)) => { assert!(b != 0); assert!(*v == a.wrapping_rem(b)); },
            Ok(_) => assert!(false),
            Err(_) => assert!(b == 0),
        }
        std::mem::forget(r);
    }
}

#[cfg(kani)]
mod verif_probe2 {
    use super::*;
    use crate::eval::builtins::{Builtins, TypeFunctions};

    static mut OBS: [i64; 4] = [0; 4];
    static mut NOBS: usize = 0;

    fn obs(_this: Option<SourcedValue>, args: Vec<SourcedValue>) -> Result<SourcedValue> {
        if let Value::Int(n) = args[0].v {
            unsafe { if NOBS < 4 { OBS[NOBS] = n; } NOBS += 1; }
        }
        Ok(value::new_null())
    }

    fn e(r: RawExpr) -> Expr { (r, (1, 1)) }
    fn var(n: &str) -> Expr { e(RawExpr::Var{name: n.to_string()}) }
    fn int(n: i64) -> Expr { e(RawExpr::Int{n}) }
    fn boolean(b: bool) -> Expr { e(RawExpr::Bool{b}) }
    fn bin(op: BinaryOp, l: Expr, r: Expr) -> Expr {
        e(RawExpr::BinaryOp{op, op_loc: (1, 1), lhs: Box::new(l), rhs: Box::new(r)})
    }
    fn call(f: Expr, args: Vec<Expr>) -> Expr {
        e(RawExpr::Call{func: Box::new(f), args: args.into_iter().map(|expr| ListItem{expr, is_spread: false}).collect()})
    }
    fn empty_map() -> ObjectRefAlias { Arc::new(Mutex::new(BTreeMap::new())) }
    type ObjectRefAlias = Arc<Mutex<BTreeMap<String, SourcedValue>>>;

    fn run(prog: &Prog) -> Result<()> {
        let builtins = Builtins{
            std: empty_map(),
            type_functions: TypeFunctions{
                bools: empty_map(), ints: empty_map(), strs: empty_map(),
                lists: empty_map(), objects: empty_map(), funcs: empty_map(),
            },
        };
        let ctx = EvaluationContext{builtins: &builtins, cur_script_dir: PathBuf::new()};
        let mut scopes = ScopeStack::new(vec![]);
        let globals = vec![(RawExpr::Var{name: "obs".to_string()}, value::new_built_in_func("obs".to_string(), obs))];
        let r = eval_prog(&ctx, &mut scopes, globals, prog);
        std::mem::forget(scopes);
        r
    }

    // x := A; if C { x = x + 1 }; obs(x)
    #[kani::proof]
    #[kani::unwind(6)]
    fn prog_if_assign() {
        let a: i64 = 5;
        let c: bool = true;
        let prog = Prog::Body{stmts: vec![
            Stmt::Declare{lhs: var("x"), rhs: int(a)},
            Stmt::If{
                branches: vec![Branch{cond: boolean(c), stmts: vec![
                    Stmt::Assign{lhs: var("x"), rhs: bin(BinaryOp::Sum, var("x"), int(1))},
                ]}],
                else_stmts: None,
            },
            Stmt::Expr{expr: call(var("obs"), vec![var("x")])},
        ]};
        let r = run(&prog);
        assert!(r.is_ok());
        unsafe {
            assert!(NOBS == 1);
            assert!(OBS[0] == if c { a + 1 } else { a });
        }
        std::mem::forget(r);
        std::mem::forget(prog);
    }
}

#[cfg(kani)]
mod verif_probe3 {
    use super::*;
    use crate::eval::builtins::{Builtins, TypeFunctions};

    #[kani::proof]
    #[kani::unwind(6)]
    fn hashmap_only() {
        let mut m: HashMap<String, i64> = HashMap::new();
        m.insert("x".to_string(), 3);
        assert!(m.get("x") == Some(&3));
        std::mem::forget(m);
    }

    fn e(r: RawExpr) -> Expr { (r, (1, 1)) }
    fn empty_map() -> Arc<Mutex<BTreeMap<String, SourcedValue>>> { Arc::new(Mutex::new(BTreeMap::new())) }

    #[kani::proof]
    #[kani::unwind(4)]
    fn eval_expr_sum() {
        let a: i64 = kani::any();
        let b: i64 = kani::any();
        let builtins = Builtins{
            std: empty_map(),
            type_functions: TypeFunctions{
                bools: empty_map(), ints: empty_map(), strs: empty_map(),
                lists: empty_map(), objects: empty_map(), funcs: empty_map(),
            },
        };
        let ctx = EvaluationContext{builtins: &builtins, cur_script_dir: PathBuf::new()};
        let mut scopes = ScopeStack::new(vec![]);
        let ex = e(RawExpr::BinaryOp{op: BinaryOp::Sum, op_loc: (1, 3), lhs: Box::new(e(RawExpr::Int{n: a})), rhs: Box::new(e(RawExpr::Int{n: b}))});
        let r = eval_expr(&ctx, &mut scopes, &ex);
        match &r {
            Ok(SourcedValue{v: Value::Int(v), ..}) => assert!(Some(*v) == a.checked_add(b)),
            Ok(_) => assert!(false),
            Err(_) => assert!(a.checked_add(b).is_none()),
        }
        std::mem::forget(r);
        std::mem::forget(ex);
    }
}
