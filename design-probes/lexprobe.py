import sys, os, time, json, re
import z3
import mirparse as mp
import mirsym as ms
from mirsym import *

N = int(sys.argv[1]); ascii_only = (len(sys.argv) > 2 and sys.argv[2] == 'ascii')
t0 = time.time()
bodies, allocs = mp.load('/var/tmp/probe/seed.mir')
ms.load_enums_from_source(['/repo/src/lexer/mod.rs', '/repo/src/ast.rs'])
M = Machine(bodies, allocs)
M.is_child = False
ms.set_parallel(int(os.environ.get('PAR', '1')))
print("load %.1fs" % (time.time() - t0))
RES = '/var/tmp/probe/lex_results_%d.jsonl' % N
open(RES, 'w').close()

bs = [U(8, z3.BitVec('b%d' % i, 8)) for i in range(N)]
if ascii_only:
    for b in bs: M.assume(z3.ULT(b.v, 0x80))
inp = Slice(bs, 0, N, True)

LEXER_NEW = find_fn(M, r'^lexer::<impl at src/lexer/mod.rs:\d+:1: \d+:\d+>::new$')
LEXER_NEXT = find_fn(M, r'^lexer::<impl at src/lexer/mod.rs:\d+:1: \d+:\d+>::next$')
SC_LOC = find_fn(M, r'^scanner::<impl .*>::loc$')

# observe loc() calls
loc_obs = []
orig_call = M.call
def call_hook(name, args):
    r = orig_call(name, args)
    if name == SC_LOC:
        sc = args[0].load()
        loc_obs.append((sc.fields[2], vcopy(r)))
    return r
M.call = call_hook

def is_cont(b): return z3.And(z3.UGE(b.z(), 0x80), z3.ULE(b.z(), 0xBF))
def true_loc(k):
    """spec position of the char starting at byte offset k (k < N), or of the last char if k == N"""
    if N == 0: return z3.IntVal(1), z3.IntVal(1)
    if k >= N:
        # EOF: position of the last char: find its start offset = last non-continuation byte
        line, col = None, None
        for j in range(N - 1, -1, -1):
            lj, cj = true_loc(j)
            c = z3.Not(is_cont(bs[j])) if j > 0 else z3.BoolVal(True)
            if line is None: line, col = lj, cj
            # prefer the largest j that is a char start: build from the low end up instead
        # simpler: iterate ascending, last char start wins
        line, col = true_loc(0)
        for j in range(1, N):
            lj, cj = true_loc(j)
            st = z3.Not(is_cont(bs[j]))
            line = z3.If(st, lj, line); col = z3.If(st, cj, col)
        return line, col
    nl = lambda j: bs[j].z() == 0x0A
    line = z3.IntVal(1) + z3.Sum([z3.If(nl(j), 1, 0) for j in range(k)] + [z3.If(nl(k), 1, 0)])
    # col: chars since last newline
    col = z3.IntVal(0)
    for j in range(k + 1):
        col = z3.If(nl(j), 0, z3.If(z3.Not(is_cont(bs[j])), col + 1, col))
    return line, col

out = {'tokens': [], 'end': None}
status = 'ok'; detail = ''
try:
    lx = M.call(LEXER_NEW, [inp])
    cell = [lx]
    while True:
        r = M.call(LEXER_NEXT, [Ref(cell, 0)])
        if r.variant == 0: out['end'] = 'eof'; break
        res = r.fields[0]
        if res.variant == 1:
            out['end'] = 'lexerr:%d' % res.fields[0].variant; break
        span = res.fields[0]
        out['tokens'].append(span.fields[1].variant)
        if len(out['tokens']) > N + 2: raise Panic("too many tokens")
    # check loc observations
    for idx, loc in loc_obs:
        assert not idx.sym()
        tl, tc = true_loc(idx.v)
        gl, gc = loc.fields[0], loc.fields[1]
        bad = z3.Or(z3.BV2Int(gl.z()) != tl, z3.BV2Int(gc.z()) != tc)
        M.solver.push(); M.solver.add(bad)
        if M.solver.check() != z3.unsat:
            mdl = M.solver.model()
            status = 'badloc'; detail = 'idx=%d got=(%s,%s) want=(%s,%s)' % (idx.v, mdl.eval(gl.z()), mdl.eval(gc.z()), mdl.eval(tl), mdl.eval(tc))
            M.solver.pop(); break
        M.solver.pop()
except Panic as e:
    status = 'panic'; detail = str(e)
except PathEnd as e:
    status = 'pathend'; detail = str(e)
except Unsupported as e:
    status = 'unsupported'; detail = str(e)

wit = ''
if M.solver.check() == z3.sat:
    mdl = M.solver.model()
    wit = bytes([mdl.eval(b.v, model_completion=True).as_long() for b in bs])
with open(RES, 'a') as f:
    f.write(json.dumps({'status': status, 'detail': detail, 'out': out, 'wit': repr(wit), 'steps': M.steps, 'nloc': len(loc_obs)}) + '\n')
M.finish()
if M.is_child: os._exit(0)
# root: summarize
import collections
rows = [json.loads(l) for l in open(RES)]
cnt = collections.Counter(r['status'] for r in rows)
print("N=%d paths=%d %s  time %.1fs" % (N, len(rows), dict(cnt), time.time() - t0))
seen = set()
for r in rows:
    if r['status'] not in ('ok',):
        key = (r['status'], r['detail'][:60])
        if key in seen: continue
        seen.add(key); print(r['status'], r['detail'][:200], r['wit'], r['out'])
print("avg steps/path", sum(r['steps'] for r in rows) / max(1, len(rows)))
