import re, sys, time
import z3
src = open('expr_parser.rs').read()
def arr(name):
    m = re.search(r'const %s: &\[i16\] = &\[(.*?)\];' % name, src, re.S)
    body = re.sub(r'//[^\n]*', '', m.group(1))
    return [int(x) for x in re.findall(r'-?\d+', body)]
ACTION = arr('__ACTION'); EOFA = arr('__EOF_ACTION')
terms = re.findall(r'r###"(.*?)"###', re.search(r'const __TERMINAL: &\[&str\] = &\[(.*?)\];', src, re.S).group(1))
NT = len(terms); NS = len(EOFA)
assert len(ACTION) == NS * NT, (len(ACTION), NS, NT)
# productions
prods = {}
sr = re.search(r'fn __simulate_reduce<.*?\n    \}\n', src, re.S).group(0)
for m in re.finditer(r'(\d+) => \{\s*__state_machine::SimulatedReduce::Reduce \{\s*states_to_pop: (\d+),\s*nonterminal_produced: (\d+),', sr):
    prods[int(m.group(1))] = (int(m.group(2)), int(m.group(3)))
acc = [int(x) for x in re.findall(r'(\d+) => __state_machine::SimulatedReduce::Accept', sr)]
# production comments: '// ExprOp2 = "&&" => ActionFn(72);' inside fn __reduceN
pcomment = {}
for m in re.finditer(r'fn __reduce(\d+)<.*?\{\s*// (.*?)\n', src, re.S):
    pcomment[int(m.group(1))] = m.group(2)
# goto: parse match
g = re.search(r'fn __goto\(state: i16, nt: usize\) -> i16 \{\s*match nt \{(.*?)\n            _ => 0,\n        \}\n    \}', src, re.S).group(1)
GOTO = {}
def pat_vals(p):
    out = []
    for alt in p.split('|'):
        alt = alt.strip()
        if '..=' in alt:
            a, b = alt.split('..='); out += list(range(int(a), int(b) + 1))
        else: out.append(int(alt))
    return out
i = 0
for m in re.finditer(r'\n            (\d+) => (?:(\d+),|match state \{(.*?)\n            \},)', g, re.S):
    nt = int(m.group(1))
    if m.group(2): 
        for s in range(NS): GOTO[(s, nt)] = int(m.group(2))
    else:
        default = None; spec = {}
        for a in re.finditer(r'\n\s*([\d |.=]+|_) => (\d+),', m.group(3)):
            if a.group(1).strip() == '_': default = int(a.group(2))
            else:
                for s in pat_vals(a.group(1)): spec[s] = int(a.group(2))
        for s in range(NS): GOTO[(s, nt)] = spec.get(s, default)
print("states", NS, "terms", NT, "prods", len(prods), "accept", acc, "goto entries", len(GOTO))
binprods = [p for p, c in pcomment.items() if 'ExprTier' in c.split('=')[0] and c.count(',') >= 5 or ('@L, ExprTier' in c)]
for p in sorted(pcomment):
    if '@L' in pcomment[p] and 'Op' in pcomment[p]: pass
T = {t: i for i, t in enumerate(terms)}
# ---- concrete LR simulation (validation of the table extraction)
def parse(tokens):
    st = [0]; spans = []; pos = 0; events = []
    toks = list(tokens)
    while True:
        if pos < len(toks): a = ACTION[st[-1] * NT + toks[pos]]
        else: a = EOFA[st[-1]]
        if a > 0 and pos < len(toks):
            st.append(a - 1); spans.append((pos, pos + 1)); pos += 1
        elif a < 0:
            p = -(a + 1)
            if p in acc: return events
            n, nt = prods[p]
            if n: s0 = spans[-n][0]; e0 = spans[-1][1]; del st[-n:]; del spans[-n:]
            else: s0 = e0 = pos
            events.append((p, s0, e0)); spans.append((s0, e0)); st.append(GOTO[(st[-1], nt)])
        else: return None
ex = [T['"int_literal"'], T['"+"'], T['"int_literal"'], T['"*"'], T['"int_literal"']]
ev = parse(ex)
for p, s, e in ev:
    if e - s >= 3: print(p, s, e, pcomment.get(p))

# ---- symbolic BMC
def bmc(k, mutate=None):
    n = 2 * k + 1
    t0 = time.time()
    opnames = ['"/"','"%"','"*"','"-"','"+"','"&&"','"!="','".."','"=="','">="','"<="','">"','"<"','"||"','"==="','"!=="']
    tier = {'".."': 1, '"&&"': 2, '"||"': 2, '"+"': 3, '"-"': 3}
    for o in opnames: tier.setdefault(o, 4)
    s = z3.Solver()
    I = z3.IntSort()
    act = z3.Function('act', I, I, I); eofa = z3.Function('eofa', I, I); goto = z3.Function('goto', I, I, I)
    plen = z3.Function('plen', I, I); pnt = z3.Function('pnt', I, I)
    A = list(ACTION)
    for st in range(NS):
        for tm in range(NT):
            s.add(act(st, tm) == A[st * NT + tm])
        s.add(eofa(st) == EOFA[st])
    for (st, nt), v in GOTO.items(): s.add(goto(st, nt) == v)
    for p, (l, nt) in prods.items(): s.add(plen(p) == l, pnt(p) == nt)
    tok = []
    for i in range(n):
        if i % 2 == 0: tok.append(z3.IntVal(T['"int_literal"']))
        else:
            v = z3.Int('op%d' % i); tok.append(v)
            s.add(z3.Or([v == T[o] for o in opnames]))
    def tok_at(pos):
        e = z3.IntVal(-1)
        for i in range(n): e = z3.If(pos == i, tok[i], e)
        return e
    def tier_of(v):
        e = z3.IntVal(4)
        for o, tr in tier.items():
            if tr != 4: e = z3.If(v == T[o], tr, e)
        return e
    ArrS = z3.ArraySort(I, I)
    S = z3.K(I, z3.IntVal(0)); B = z3.K(I, z3.IntVal(0)); sp = z3.IntVal(1); pos = z3.IntVal(0)
    NL = z3.K(I, z3.IntVal(-1)); NR = z3.K(I, z3.IntVal(-1))
    done = z3.BoolVal(False); failed = z3.BoolVal(False)
    STEPS = 14 * (k + 1)
    for step in range(STEPS):
        top = z3.Select(S, sp - 1)
        a = z3.If(pos < n, act(top, tok_at(pos)), eofa(top))
        is_shift = z3.And(a > 0, pos < n)
        is_red = a < 0
        p = -(a + 1)
        is_acc = z3.And(is_red, z3.Or([p == x for x in acc]))
        l = plen(p); nt = pnt(p)
        # shift
        S_sh = z3.Store(S, sp, a - 1); B_sh = z3.Store(B, sp - 1 + 0, z3.Select(B, sp - 1))  # placeholder
        # we keep B indexed by symbol slot j = 0..sp-2 (symbols are one fewer than states)
        Bs_sh = z3.Store(B, sp - 1, pos)
        # reduce
        start = z3.If(l == 0, pos, z3.Select(B, sp - 1 - l))
        nsp = sp - l
        S_rd = z3.Store(S, nsp, goto(z3.Select(S, nsp - 1), nt))
        Bs_rd = z3.Store(B, nsp - 1, start)
        opstart = z3.Select(B, sp - 1 - 2)   # start of 2nd of 3 symbols
        is_bin = z3.And(is_red, l == 3, tok_at(opstart) != T['"int_literal"'], opstart % 2 == 1)
        NL2 = z3.If(z3.And(is_bin, z3.Not(done)), z3.Store(NL, opstart, start), NL)
        NR2 = z3.If(z3.And(is_bin, z3.Not(done)), z3.Store(NR, opstart, pos), NR)
        active = z3.And(z3.Not(done), z3.Not(failed))
        newS = z3.If(is_shift, S_sh, z3.If(is_red, S_rd, S)); newB = z3.If(is_shift, Bs_sh, z3.If(is_red, Bs_rd, B))
        newsp = z3.If(is_shift, sp + 1, z3.If(is_red, nsp + 1, sp)); newpos = z3.If(is_shift, pos + 1, pos)
        S = z3.If(z3.And(active, z3.Not(is_acc)), newS, S); B = z3.If(z3.And(active, z3.Not(is_acc)), newB, B)
        sp = z3.If(z3.And(active, z3.Not(is_acc)), newsp, sp); pos = z3.If(z3.And(active, z3.Not(is_acc)), newpos, pos)
        NL = z3.If(active, NL2, NL); NR = z3.If(active, NR2, NR)
        failed = z3.Or(failed, z3.And(active, z3.Not(is_shift), z3.Not(is_red)))
        done = z3.Or(done, z3.And(active, is_acc))
    # oracle
    bad = [z3.Not(done)]
    for i in range(1, n, 2):
        ti = tier_of(tok[i])
        L = z3.IntVal(0)
        for j in range(1, i, 2):       # ascending: later (nearer) j overrides
            L = z3.If(tier_of(tok[j]) < ti, j + 1, L)
        R = z3.IntVal(n)
        for j in range(n - 2, i, -2):  # descending: nearer j overrides
            R = z3.If(tier_of(tok[j]) <= ti, j, R)
        bad.append(z3.Or(z3.Select(NL, i) != L, z3.Select(NR, i) != R))
    s.add(z3.Or(bad))
    r = s.check()
    print("k=%d steps=%d result=%s time=%.1fs" % (k, STEPS, r, time.time() - t0))
    if r == z3.sat:
        m = s.model()
        print([terms[m.eval(tok[i]).as_long()] for i in range(n)], 'done=', m.eval(done), 'failed=', m.eval(failed))
        for i in range(1, n, 2): print(i, m.eval(z3.Select(NL, i)), m.eval(z3.Select(NR, i)))
for k in (1, 2, 3):
    bmc(k)
