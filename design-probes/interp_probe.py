import sys, os, time, json, re
import z3
import mirparse as mp
import mirsym as ms
from mirsym import *
t0 = time.time()
bodies, allocs = mp.load('/var/tmp/probe/seed.mir')
ms.load_enums_from_source(['/repo/src/lexer/mod.rs', '/repo/src/ast.rs'])
M = Machine(bodies, allocs); M.is_child = False
H = int(sys.argv[1])
pre = b'$"'; post = b'${a}"'
hole = [U(8, z3.BitVec('h%d' % i, 8)) for i in range(H)]
bs = [U(8, x) for x in pre] + hole + [U(8, x) for x in post]
# hole must not contain the delimiters that change the token structure: " \ $
for h in hole:
    M.assume(z3.And(h.v != ord('"'), h.v != ord('\\'), h.v != ord('$')))
inp = Slice(bs, 0, len(bs), True)
LEXER_NEW = find_fn(M, r'^lexer::<impl at src/lexer/mod.rs:\d+:1: \d+:\d+>::new$')
LEXER_NEXT = find_fn(M, r'^lexer::<impl at src/lexer/mod.rs:\d+:1: \d+:\d+>::next$')
RES = '/var/tmp/probe/interp_results.jsonl'
if not os.path.exists(RES) or True:
    pass
status = 'ok'; detail = ''
try:
    lx = M.call(LEXER_NEW, [inp]); cell = [lx]
    r = M.call(LEXER_NEXT, [Ref(cell, 0)])
    res = r.fields[0]
    if res.variant == 0:
        tok = res.fields[0].fields[1]
        assert ENUMS['Token'][tok.variant] == 'InterpStrLiteral', tok
        s = tok.fields[0].d['b']; slots = tok.fields[1].d['b']
        for sl in slots:
            a, b = sl.fields[0].v, sl.fields[1].v
            # evaluator does s[a+2 .. b-1] and s[last..a] on the *byte* string
            okc = []
            if b > len(s) or a + 2 > len(s): status = 'violation'; detail = 'slot (%d,%d) beyond %d bytes' % (a, b, len(s))
            else:
                cond = z3.And(s[a].z() == ord('$'), s[a+1].z() == ord('{'), s[b-1].z() == ord('}'))
                M.solver.push(); M.solver.add(z3.Not(cond))
                if M.solver.check() == z3.sat: status = 'violation'; detail = 'slot (%d,%d) does not delimit ${..} in bytes' % (a, b)
                M.solver.pop()
    else:
        status = 'lexerr'
except Panic as e: status = 'panic'; detail = str(e)
except PathEnd as e: status = 'pathend'; detail = str(e)
except Unsupported as e: status = 'unsupported'; detail = str(e)
wit = b''
if M.solver.check() == z3.sat:
    mdl = M.solver.model(); wit = bytes([mdl.eval(b.z(), model_completion=True).as_long() for b in bs])
print(status, detail, wit, wit.decode('utf-8', 'replace'))
sys.stdout.flush()
if M.is_child: os._exit(0)
print("time %.1fs" % (time.time() - t0))
