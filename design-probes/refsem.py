# prototype: reference semantics (control-flow / scope / int-bool-list fragment of docs/features.md),
# executed in lock-step under a path condition.  Written from the documentation, not from src/.
import z3
from mirsym import Agg, Native, Int, ENUMS, deref_all

# ---------- AST import from the mirsym heap
def s_of(n): return bytes(b.v for b in n.d['b']).decode()
def imp_expr(e):
    raw, loc = e.fields
    k = ENUMS['RawExpr'][raw.variant]; f = raw.fields
    if k == 'Null': return ('null',)
    if k == 'Bool': return ('bool', f[0])
    if k == 'Int': return ('int', f[0].v)           # python int or z3 BitVec
    if k == 'Str': return ('str', s_of(f[0]), f[1].variant == 1)
    if k == 'Var': return ('var', s_of(f[0]))
    if k == 'BinaryOp': return ('bin', ENUMS['BinaryOp'][f[0].variant], imp_expr(f[2].d['slot'][0]), imp_expr(f[3].d['slot'][0]))
    if k == 'List': return ('list', [(imp_expr(it.fields[0]), it.fields[1]) for it in f[0].d['b']], f[1])
    if k == 'Call': return ('call', imp_expr(f[0].d['slot'][0]), [(imp_expr(it.fields[0]), it.fields[1]) for it in f[1].d['b']])
    if k == 'Func': return ('fn', [imp_expr(a) for a in f[0].d['b']], f[1], [imp_stmt(s) for s in f[2].d['b']])
    if k == 'Index': return ('index', imp_expr(f[0].d['slot'][0]), imp_expr(f[1].d['slot'][0]))
    raise NotImplementedError(k)
def imp_block(v): return [imp_stmt(s) for s in v.d['b']]
def imp_stmt(s):
    k = ENUMS['Stmt'][s.variant]; f = s.fields
    if k == 'Block': return ('block', imp_block(f[0]))
    if k == 'Expr': return ('expr', imp_expr(f[0]))
    if k == 'Declare': return ('declare', imp_expr(f[0]), imp_expr(f[1]))
    if k == 'Assign': return ('assign', imp_expr(f[0]), imp_expr(f[1]))
    if k == 'OpAssign': return ('opassign', imp_expr(f[0]), ENUMS['BinaryOp'][f[1].variant], imp_expr(f[3]))
    if k == 'If': return ('if', [(imp_expr(b.fields[0]), imp_block(b.fields[1])) for b in f[0].d['b']], imp_block(f[1].fields[0]) if f[1].variant == 1 else None)
    if k == 'While': return ('while', imp_expr(f[0]), imp_block(f[1]))
    if k == 'For': return ('for', imp_expr(f[0]), imp_expr(f[1]), imp_block(f[2]))
    if k == 'Break': return ('break',)
    if k == 'Continue': return ('continue',)
    if k == 'Func': return ('fndecl', s_of(f[0].fields[0]), [imp_expr(a) for a in f[1].d['b']], f[2], imp_block(f[3]))
    if k == 'Return': return ('return', imp_expr(f[1]))
    raise NotImplementedError(k)

# ---------- lock-step solver interface
class Split(Exception):
    def __init__(self, cond): self.cond = cond
class RefError(Exception):
    def __init__(self, kind): self.kind = kind
class Ctl(Exception):
    def __init__(self, kind, value=None): self.kind = kind; self.value = value

class Ref:
    def __init__(self, solver, decisions):
        self.s = solver; self.decisions = list(decisions); self.made = []
        self.out = []
    def branch(self, c):
        if isinstance(c, bool): return c
        c = z3.simplify(c)
        if z3.is_true(c): return True
        if z3.is_false(c): return False
        if self.decisions:
            d = self.decisions.pop(0); self.made.append(d)
            self.s.add(c if d else z3.Not(c)); return d
        self.s.push(); self.s.add(c); t = self.s.check() == z3.sat; self.s.pop()
        self.s.push(); self.s.add(z3.Not(c)); f = self.s.check() == z3.sat; self.s.pop()
        if t and not f: return True
        if f and not t: return False
        raise Split(c)

    # values: ('int', v) ('bool', b) ('null',) ('list', cell) ('fn', params, body, env) ('builtin', name)
    def run(self, prog):
        env = [{'print': ('builtin', 'print')}]
        try:
            self.block_in(prog, env, newscope=False)
        except Ctl as c:
            raise RefError(c.kind + ' outside')
    def block_in(self, stmts, env, newscope=True):
        e = env + [{}] if newscope else env
        for st in stmts: self.stmt(st, e)
    def lookup(self, env, name):
        for sc in reversed(env):
            if name in sc: return sc
        raise RefError('undefined ' + name)
    def stmt(self, st, env):
        k = st[0]
        if k == 'expr': self.expr(st[1], env)
        elif k == 'declare':
            v = self.expr(st[2], env); name = st[1][1]
            if name in env[-1]: raise RefError('already in scope')
            env[-1][name] = v
        elif k == 'assign':
            v = self.expr(st[2], env); self.lookup(env, st[1][1])[st[1][1]] = v
        elif k == 'opassign':
            r = self.expr(st[3], env); sc = self.lookup(env, st[1][1]); sc[st[1][1]] = self.binop(st[2], sc[st[1][1]], r)
        elif k == 'block': self.block_in(st[1], env)
        elif k == 'if':
            for cond, body in st[1]:
                if self.truth(self.expr(cond, env)): self.block_in(body, env); return
            if st[2] is not None: self.block_in(st[2], env)
        elif k == 'while':
            while self.truth(self.expr(st[1], env)):
                try: self.block_in(st[2], env)
                except Ctl as c:
                    if c.kind == 'break': break
                    if c.kind == 'continue': continue
                    raise
        elif k == 'break': raise Ctl('break')
        elif k == 'continue': raise Ctl('continue')
        elif k == 'return': raise Ctl('return', self.expr(st[1], env))
        elif k == 'fndecl':
            if st[1] in env[-1]: raise RefError('already in scope')
            env[-1][st[1]] = ('fn', st[2], st[4], env)
        else: raise NotImplementedError(k)
    def truth(self, v):
        if v[0] != 'bool': raise RefError('condition type')
        return self.branch(v[1])
    def expr(self, e, env):
        k = e[0]
        if k == 'int': return ('int', e[1])
        if k == 'bool': return ('bool', e[1])
        if k == 'null': return ('null',)
        if k == 'var': return self.lookup(env, e[1])[e[1]]
        if k == 'bin': return self.binop(e[1], self.expr(e[2], env), self.expr(e[3], env))
        if k == 'call':
            args = [self.expr(a, env) for a, sp in e[2]]
            f = self.expr(e[1], env)
            if f[0] == 'builtin':
                self.out.append(args[0]); return ('null',)
            if f[0] != 'fn': raise RefError('not callable')
            _, params, body, cenv = f
            if len(params) != len(args): raise RefError('arity')
            sc = {p[1]: a for p, a in zip(params, args)}
            try: self.block_in(body, cenv + [sc], newscope=False)
            except Ctl as c:
                if c.kind == 'return': return c.value
                raise RefError(c.kind + ' outside loop')
            return ('null',)
        raise NotImplementedError(k)
    def binop(self, op, a, b):
        def iv(x): return x if not isinstance(x, int) else z3.BitVecVal(x, 64)
        if a[0] == 'int' and b[0] == 'int':
            x, y = iv(a[1]), iv(b[1])
            if op in ('Sum', 'Sub'):
                wide = (z3.SignExt(1, x) + z3.SignExt(1, y)) if op == 'Sum' else (z3.SignExt(1, x) - z3.SignExt(1, y))
                r = (x + y) if op == 'Sum' else (x - y)
                if self.branch(z3.SignExt(1, r) != wide): raise RefError('overflow')
                return ('int', z3.simplify(r))
            if op in ('Eq', 'Ne', 'Lt', 'Lte', 'Gt', 'Gte'):
                c = {'Eq': x == y, 'Ne': x != y, 'Lt': x < y, 'Lte': x <= y, 'Gt': x > y, 'Gte': x >= y}[op]
                return ('bool', z3.simplify(c))
        if a[0] == 'bool' and b[0] == 'bool' and op in ('And', 'Or', 'Eq', 'Ne'):
            za = z3.BoolVal(a[1]) if isinstance(a[1], bool) else a[1]; zb = z3.BoolVal(b[1]) if isinstance(b[1], bool) else b[1]
            return ('bool', z3.simplify({'And': z3.And(za, zb), 'Or': z3.Or(za, zb), 'Eq': za == zb, 'Ne': za != zb}[op]))
        raise RefError('type %s %s %s' % (op, a[0], b[0]))

def lockstep(solver_assertions, prog, on_case):
    """enumerate the reference's own case splits under the path condition; call on_case(ref_outcome, extra_constraints)"""
    work = [[]]
    while work:
        dec = work.pop()
        s = z3.Solver(); s.add(*solver_assertions)
        r = Ref(s, dec)
        try:
            r.run(prog); outcome = ('ok', r.out)
        except Split as sp:
            work.append(dec_prefix(r) + [True]); work.append(dec_prefix(r) + [False]); continue
        except RefError as e:
            outcome = ('error', r.out, e.kind)
        on_case(outcome, s)
def dec_prefix(r): return list(r.made)
