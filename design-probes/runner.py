# prototype end-to-end runner: main() of seed through mirsym (concrete or partially symbolic scripts)
import sys, os, time, json, re, glob
import z3
import mirparse as mp
import mirsym as ms
from mirsym import *
import evalmodels, evalmodels2
from evalmodels2 import Exit, OUT

def load_tests():
    tests = []
    for f in sorted(glob.glob('/repo/tests/stdout/*test')):
        ext = f.endswith('.xtest'); stem = os.path.basename(f).rsplit('.', 1)[0]
        cur = None; sec = 0
        for line in open(f).read().split('\n'):
            if line.startswith('=' * 50):
                if cur: tests.append(cur)
                name = line[50:].strip()
                if not name: cur = None; continue
                cur = {'file': stem, 'name': name, 'src': '', 'code': 0, 'stdout': '', 'stderr': '', 'x': ext}; sec = 0; continue
            if cur is None: continue
            if line == '-' * 50: sec += 1; continue
            if ext:
                if sec == 0: cur['code'] = int(line.split(': ')[1])
                elif sec == 1: cur['src'] += line + '\n'
                elif sec == 2: cur['stdout'] += line + '\n'
                elif sec == 3: cur['stderr'] += line + '\n'
            else:
                if sec == 0: cur['src'] += line + '\n'
                elif sec == 1: cur['stdout'] += line + '\n'
    return tests

def make_machine():
    bodies, allocs = mp.load('/var/tmp/probe/seed.mir')
    srcs = glob.glob('/repo/src/**/*.rs', recursive=True)
    ms.load_enums_from_source(srcs)
    ENUMS['__Symbol'] = ['Variant%d' % i for i in range(40)]
    M = Machine(bodies, allocs); M.is_child = False
    evalmodels2.init(M)
    return M

def run_cli(M, path, src):
    OUT['stdout'] = []; OUT['stderr'] = []
    evalmodels2.ENV['args'] = ['seed', path]; evalmodels2.ENV['files'] = {path: src}
    code = 0
    try:
        M.call('main', [])
    except Exit as e:
        code = e.code
    return code, b''.join(OUT['stdout']), b''.join(OUT['stderr'])

if __name__ == '__main__':
    t0 = time.time()
    M = make_machine()
    tests = load_tests()
    pat = sys.argv[1] if len(sys.argv) > 1 else ''
    npass = nfail = nuns = 0; uns = {}
    for t in tests:
        full = t['file'] + '::' + t['name']
        if pat and not re.search(pat, full): continue
        path = '%s/%s.sd' % (t['file'], t['name'])
        M.steps = 0
        try:
            code, so, se = run_cli(M, path, t['src'].encode())
            okk = (code == t['code'] and so.decode('utf-8', 'replace') == t['stdout'] and (not t['x'] or se.decode('utf-8', 'replace') == t['stderr']))
            if okk: npass += 1
            else:
                nfail += 1
                print('FAIL', full, code, t['code']); print('  got out:', so[:200]); print('  exp out:', t['stdout'][:200].encode()); print('  got err:', se[:300]); print('  exp err:', t['stderr'][:300].encode())
        except Unsupported as e:
            nuns += 1; k = str(e)[:150]; uns[k] = uns.get(k, 0) + 1
        except Panic as e:
            nfail += 1; print('PANIC', full, str(e)[:200])
    print('pass', npass, 'fail', nfail, 'unsupported', nuns, 'steps', M.steps, 'time %.1fs' % (time.time() - t0))
    for k, v in sorted(uns.items(), key=lambda x: -x[1])[:25]: print(v, k)
